"""CLI:  python -m vp.run <ID> [--tier quick|thorough] [--replay FILE] [--shards N] [--seed N]

exit 0: property held on everything explored (KNOWN-FINDING lines possible)
exit 1: at least one `VIOLATION property=<id> replay=<path>` line was printed
exit 2: harness error (never reported as a violation)
"""
import argparse, importlib, json, os, subprocess, sys, time, traceback

from . import core


def load(pid):
    return importlib.import_module("vp.props.%s" % pid.lower())


def run_shard(args):
    mod = load(args.id)
    ctx = core.Ctx(args.id, args.tier, args.seed, args.shard, args.nshards)
    rc = 0
    try:
        mod.run(ctx)
    except core.HarnessError as e:
        print("HARNESS-ERROR property=%s shard=%d: %s" % (args.id, args.shard, e), file=sys.stderr)
        rc = 2
    except Exception:
        print("HARNESS-ERROR property=%s shard=%d:\n%s" % (args.id, args.shard, traceback.format_exc()), file=sys.stderr)
        rc = 2
    part = ctx.partial()
    part["rc"] = rc
    if args.partfile:
        with open(args.partfile, "w") as f:
            json.dump(core.jsonable(part), f)
    if rc == 0 and ctx.violations:
        rc = 1
    return rc, part


def main(argv=None):
    ap = argparse.ArgumentParser()
    ap.add_argument("id")
    ap.add_argument("--tier", default=os.environ.get("VERIF_TIER", "quick"), choices=["quick", "thorough"])
    ap.add_argument("--seed", type=int, default=int(os.environ.get("VERIF_SEED", "1") or 1))
    ap.add_argument("--replay")
    ap.add_argument("--shards", type=int)
    ap.add_argument("--shard", type=int, default=0)
    ap.add_argument("--nshards", type=int, default=1)
    ap.add_argument("--partfile")
    ap.add_argument("--single", action="store_true", help="run shard in-process (internal)")
    args = ap.parse_args(argv)
    args.id = args.id.upper()
    mod = load(args.id)

    if args.replay:
        with open(args.replay) as f:
            rep = json.load(f)
        try:
            mod.replay(rep["case"])
        except core.Violation as e:
            print("VIOLATION property=%s replay=%s" % (args.id, os.path.abspath(args.replay)))
            print("  detail: %s" % str(e)[:1500])
            return 1
        except core.HarnessError as e:
            print("HARNESS-ERROR: %s" % e, file=sys.stderr)
            return 2
        except Exception as e:
            tb = sys.exc_info()[2]
            if core.library_frame(tb) is not None and not core.innermost_is_harness(tb):
                print("VIOLATION property=%s replay=%s" % (args.id, os.path.abspath(args.replay)))
                print("  detail: unexpected %s: %s" % (type(e).__name__, e))
                return 1
            traceback.print_exc()
            return 2
        print("replay ok: property %s holds on %s" % (args.id, args.replay))
        return 0

    if args.single:
        rc, _ = run_shard(args)
        return rc

    t0 = time.time()
    nshards = args.shards or getattr(mod, "SHARDS", {"quick": 4, "thorough": 16}).get(args.tier, 1)
    partdir = os.path.join(core.VERIF, "evidence", ".parts")
    os.makedirs(partdir, exist_ok=True)
    procs = []
    for k in range(nshards):
        pf = os.path.join(partdir, "%s.%s.%d.%d.json" % (args.id, args.tier, k, os.getpid()))  # pid: concurrent invocations must not collide
        if os.path.exists(pf):
            os.remove(pf)
        cmd = [sys.executable, "-W", "ignore", "-m", "vp.run", args.id, "--tier", args.tier, "--seed", str(args.seed),
               "--shard", str(k), "--nshards", str(nshards), "--partfile", pf, "--single"]
        procs.append((k, pf, subprocess.Popen(cmd, cwd=core.VERIF)))
    parts, rcs = [], []
    for k, pf, p in procs:
        rc = p.wait()
        rcs.append(rc)
        if os.path.exists(pf):
            with open(pf) as f:
                parts.append(json.load(f))
            os.remove(pf)
        elif rc == 0:
            rcs[-1] = 2
    wall = time.time() - t0
    harness = any(rc not in (0, 1) for rc in rcs)
    if parts:
        ev = core.merge_evidence(args.id, args.tier, args.seed, mod, parts, wall)
        if harness:
            ev["coverage"]["notes"]["harness_error"] = True
        os.makedirs(os.path.join(core.VERIF, "evidence"), exist_ok=True)
        with open(os.path.join(core.VERIF, "evidence", "%s.json" % args.id), "w") as f:
            json.dump(ev, f, indent=1, sort_keys=True)
            f.write("\n")
        c = ev["coverage"]
        print("%s %s seed=%d: evaluations=%d distinct_nontrivial=%d violations=%d wall=%.1fs" % (
            args.id, args.tier, args.seed, c["evaluations"], c["distinct_nontrivial"], ev["violations"], wall))
    if harness:
        print("HARNESS-ERROR property=%s (see stderr)" % args.id, file=sys.stderr)
        return 2
    if any(rc == 1 for rc in rcs):
        return 1
    if parts and ev["coverage"]["distinct_nontrivial"] < 2:
        print("HARNESS-ERROR property=%s: fewer than 2 non-trivial cases were generated" % args.id, file=sys.stderr)
        return 2
    return 0


if __name__ == "__main__":
    sys.exit(main())
