"""Regenerates /verif/MANIFEST.json from the property modules that exist (python -m vp.manifest)."""
import importlib, json, os
from . import core

ALL = ["C%02d" % i for i in range(1, 37)]
TECH = {
 "C01": "property-based testing (Hypothesis): differential against an exact brute-force Markov-chain oracle (sparse linear algebra on periodic supercells, 1/N extrapolation)",
 "C02": "property-based testing (Hypothesis): differential against a full-state-space reference (two independent forms cross-checked)",
 "C03": "property-based testing (Hypothesis): validity predicates (symmetry, group invariance, positive semidefiniteness) over generated crystals and extreme data",
 "C04": "property-based testing (Hypothesis): metamorphic relations (reference shifts, co-scalings, rate scaling, symmetry-preserving displacements)",
 "C05": "property-based testing (Hypothesis): metamorphic monotonicity relation (lower one transition state, compare tensors in matrix order)",
 "C06": "property-based testing (Hypothesis): algebraic identities of the tracer limit, integration accuracy decided by mesh refinement",
 "C07": "property-based testing (Hypothesis): differential between two thermodynamic ranges fed the same tag data",
 "C08": "property-based testing (Hypothesis): differential between the two omega2 algorithms plus boundedness/continuity predicates over a rate ladder",
 "C09": "property-based testing (Hypothesis): metamorphic relation between equivalent crystal descriptions, data carried by Cartesian matching",
 "C10": "property-based testing (Hypothesis): residual of the lattice diffusion equation, symmetry and scaling relations, far-field asymptote; accuracy by mesh refinement",
 "C11": "property-based testing (Hypothesis): differential against finite differences of an exact reference and own symmetry projection of dipoles",
 "C12": "property-based testing (Hypothesis): spectral comparison with an own rate matrix and a sum-rule invariant",
 "C13": "property-based testing (Hypothesis): round-trip oracle over generated objects and save/reload histories (in-memory HDF5, YAML)",
 "C14": "stateful property-based testing (Hypothesis-generated operation histories) against a pristine reference calculator",
 "C15": "property-based testing (Hypothesis): tags parsed back to geometry and classified by a brute-force orbit oracle; exact comparison of parameter sets and reports",
 "C16": "property-based testing (Hypothesis) with an independent series evaluator; bounded-exhaustive checks of all index tables",
 "C17": "property-based testing (Hypothesis): evaluation-level oracle for change of variables and order-by-order inverse identity",
 "C18": "property-based testing (Hypothesis): brute-force geometric soundness of every operation and group axioms over generated crystals, spins, strains",
 "C19": "property-based testing (Hypothesis): invariants of the reduced cell against a brute-force primitive-cell oracle over generated supercell descriptions",
 "C20": "property-based testing (Hypothesis) against a brute-force space group + bounded-exhaustive enumeration of all subgroups of the holohedries",
 "C21": "property-based testing (Hypothesis): differential against brute-force jump enumeration with the documented obstruction rule",
 "C22": "property-based testing (Hypothesis): Brillouin-zone membership and exact averaging of generated invariant functions (full mesh vs reduced mesh vs closed form)",
 "C23": "property-based testing (Hypothesis): round trips and agreement of all symmetry-action routes with an own affine map",
 "C24": "property-based testing (Hypothesis): differential against a brute-force BFS/orbit oracle for pair states",
 "C25": "property-based testing (Hypothesis): orthonormality/equivariance/completeness predicates and differential against directly assembled projected matrices",
 "C26": "property-based testing (Hypothesis): differential against brute-force lists of swing jumps and exchanges and their orbits",
 "C27": "property-based testing (Hypothesis): model-based oracle (own permutation model), existence decided by brute force over all operations",
 "C28": "stateful/model-based property-based testing (Hypothesis histories against a dictionary model) + bounded-exhaustive operation sequences",
 "C29": "property-based testing (Hypothesis): defects located by plain geometry in generated setup supercells; mappings applied by hand",
 "C30": "property-based testing (Hypothesis): archive re-read, POSCAR round trip, bundled perl script executed, Makefile prerequisite closure",
 "C31": "property-based testing (Hypothesis): differential against brute-force cluster enumeration modulo translation, geometric identity probes",
 "C32": "property-based testing (Hypothesis) + exhaustive enumeration of all occupations of small supercells against a brute-force energy",
 "C33": "stateful property-based testing (Hypothesis histories) + exhaustive reachable-state exploration against freshly started samplers",
 "C34": "property-based testing (Hypothesis) + exhaustive small supercells: detailed-balance relation checked on harness-built final configurations",
 "C35": "stateful differential testing (Hypothesis histories, compiled vs reference sampler in lockstep) + bounded-exhaustive histories",
 "C36": "property-based testing (Hypothesis): algebraic laws (equivalence relation, hash consistency, pair-state identities) over pools of equal/near-equal/different values",
}
PENDING_REASON = "check not built yet in this revision of /verif (work in progress; see DESIGN.md section 4 for the plan)"


def main():
    checks, na = [], []
    for pid in ALL:
        path = os.path.join(core.VERIF, "vp", "props", pid.lower() + ".py")
        if not os.path.exists(path):
            na.append({"property_id": pid, "reason": PENDING_REASON})
            continue
        mod = importlib.import_module("vp.props." + pid.lower())
        if getattr(mod, "NOT_APPLICABLE", None):
            na.append({"property_id": pid, "reason": mod.NOT_APPLICABLE})
            continue
        checks.append({
            "property_id": pid,
            "quick_cmd": "./check %s --tier quick" % pid,
            "thorough_cmd": "./check %s --tier thorough" % pid,
            "evidence_file": "/verif/evidence/%s.json" % pid,
            "replay_cmd_template": "./check %s --replay {path}" % pid,
            "engine": "hypothesis-runner",
            "level_claimed": {"category": "exploration",
                              "text": getattr(mod, "LEVEL_TEXT", "Generated-input search (Hypothesis) against an explicit oracle: " + mod.RULE[:400]),
                              "design_ref": "DESIGN.md section 4, %s" % pid},
            "level_note": getattr(mod, "LEVEL_NOTE", "; ".join(getattr(mod, "ASSUMPTIONS", [])) or "oracle code under /verif/vp/oracles is trusted; finite sample of an infinite input space"),
            "technique": getattr(mod, "TECHNIQUE", TECH.get(pid, "property-based testing (Hypothesis) with an independent brute-force oracle")),
        })
    man = {
        "version": 1,
        "setup_cmd": "/venv/bin/python -c 'import hypothesis' 2>/dev/null || /venv/bin/pip install -q --no-index --find-links /opt/veriftools/wheels hypothesis",
        "hooks": {"guard": "ONSAGER_VERIF", "enable": "no source hooks are needed: every observation point is public API; ./check exports ONSAGER_VERIF=1 for uniformity",
                  "baseline_off_cmd": "cd /repo && /venv/bin/python -m pytest -ra -q -p no:cacheprovider --timeout=900 --continue-on-collection-errors",
                  "source_commits": [], "add_only": True},
        "engines": [{"name": "hypothesis-runner", "path": "/verif/vp/run.py", "serves_properties": [c["property_id"] for c in checks],
                     "kind_free_text": "Hypothesis 6.168 strategies over JSON cases, sharded over processes; bounded-exhaustive enumeration where finite; replay files bypass Hypothesis"}],
        "checks": checks,
        "notes": "All checks run against /repo's working tree through PYTHONPATH (pure Python, nothing cached). Exit 2 = harness error, never a violation. known_findings.json lists fixed and known findings.",
        "not_applicable": na,
    }
    with open(os.path.join(core.VERIF, "MANIFEST.json"), "w") as f:
        json.dump(man, f, indent=1)
        f.write("\n")
    print("checks:", len(checks), "not_applicable:", len(na))


if __name__ == "__main__":
    main()
