"""Regenerates /verif/MANIFEST.json from the property modules that exist (python -m vp.manifest)."""
import importlib, json, os
from . import core

ALL = ["C%02d" % i for i in range(1, 37)]
PENDING_REASON = "check not built yet in this revision of /verif (work in progress; see DESIGN.md section 4 for the plan)"


def main():
    checks, na = [], []
    for pid in ALL:
        path = os.path.join(core.VERIF, "vp", "props", pid.lower() + ".py")
        if not os.path.exists(path):
            na.append({"property_id": pid, "reason": PENDING_REASON})
            continue
        mod = importlib.import_module("vp.props." + pid.lower())
        if getattr(mod, "NOT_APPLICABLE", None):
            na.append({"property_id": pid, "reason": mod.NOT_APPLICABLE})
            continue
        checks.append({
            "property_id": pid,
            "quick_cmd": "./check %s --tier quick" % pid,
            "thorough_cmd": "./check %s --tier thorough" % pid,
            "evidence_file": "/verif/evidence/%s.json" % pid,
            "replay_cmd_template": "./check %s --replay {path}" % pid,
            "engine": "hypothesis-runner",
            "level_claimed": {"category": "exploration",
                              "text": getattr(mod, "LEVEL_TEXT", "Generated-input search (Hypothesis) against an explicit oracle: " + mod.RULE[:400]),
                              "design_ref": "DESIGN.md section 4, %s" % pid},
            "level_note": getattr(mod, "LEVEL_NOTE", "; ".join(getattr(mod, "ASSUMPTIONS", [])) or "oracle code under /verif/vp/oracles is trusted; finite sample of an infinite input space"),
            "technique": getattr(mod, "TECHNIQUE", "property-based testing (Hypothesis) with an independent brute-force oracle"),
        })
    man = {
        "version": 1,
        "setup_cmd": "/venv/bin/python -c 'import hypothesis' 2>/dev/null || /venv/bin/pip install -q --no-index --find-links /opt/veriftools/wheels hypothesis",
        "hooks": {"guard": "ONSAGER_VERIF", "enable": "no source hooks are needed: every observation point is public API; ./check exports ONSAGER_VERIF=1 for uniformity",
                  "baseline_off_cmd": "cd /repo && /venv/bin/python -m pytest -ra -q -p no:cacheprovider --timeout=900 --continue-on-collection-errors",
                  "source_commits": [], "add_only": True},
        "engines": [{"name": "hypothesis-runner", "path": "/verif/vp/run.py", "serves_properties": [c["property_id"] for c in checks],
                     "kind_free_text": "Hypothesis 6.168 strategies over JSON cases, sharded over processes; bounded-exhaustive enumeration where finite; replay files bypass Hypothesis"}],
        "checks": checks,
        "notes": "All checks run against /repo's working tree through PYTHONPATH (pure Python, nothing cached). Exit 2 = harness error, never a violation. known_findings.json lists fixed and known findings.",
        "not_applicable": na,
    }
    with open(os.path.join(core.VERIF, "MANIFEST.json"), "w") as f:
        json.dump(man, f, indent=1)
        f.write("\n")
    print("checks:", len(checks), "not_applicable:", len(na))


if __name__ == "__main__":
    main()
