"""C27  Supercell symmetry and equivalence mapping are sound and complete."""
import numpy as np
from hypothesis import strategies as st

from ..core import Violation, HarnessError, require, canon
from ..strategies import crystals as cs, supercells as sc
from ..oracles import supercell_model as sm, geom

ID = "C27"
RULE = ("A case is a supercell setup (3D crystal recipe or catalogue structure, integer supercell matrix with |det|<=8: diagonal, triangular or "
        "skew, <=32 sites, interstitial species set, 0..2 solutes), an occupation A (perfect/empty base plus up to 6 point defects: vacancies, "
        "solutes, antisites, interstitials, in a drawn presentation order) and a partner B built by the dictionary model: A moved by a drawn "
        "supercell operation and re-ordered by drawn permutations ('related'), additionally with two site occupations swapped ('moved', a "
        "near miss with the same stoichiometry) or one species changed ('restoich').  (1) Every operation of Supercell.G is checked against "
        "brute-force geometry: integer unimodular rot, cartrot = L rot L^-1 orthogonal, indexmap = the permutation found by nearest-site search "
        "of rot u + trans, species preserved; the set of operations must equal {crystal operations whose rotation keeps the supercell lattice} "
        "x {all |det| unit-cell translations} built from scratch (exact integer test, coset enumeration).  (2) equivalencemap(A,B): existence is "
        "decided by brute force over all operations (geometric permutations applied to the occupation); when an operation exists the returned "
        "(g, mapping) must be an operation of the supercell that carries A's occupation onto B's and A's ordering, re-ordered by mapping, onto "
        "B's ordering exactly (in the model and through g*A and reorder), otherwise (None, None) must be returned; inputs must stay unchanged.  "
        "Non-trivial: A has >= 2 defects; distinct by (setup, A, B).")
ASSUMPTIONS = ["the crystal's own operations (rot, trans of crys.G) are the input of the supercell group; their correctness is C18/C20's subject "
               "(a brute-force space group is compared as a class label only)",
               "same-position tolerance 1e-6 of the longest cell vector (sites are >= 0.2 shortest lattice vector apart, round-off ~1e-15); "
               "cartrot compared at 1e-7 (products of three O(1) matrices)",
               "crystal species carry distinct names (S0, S1, ...), solutes keep the default empty name"]
SHARDS = {"quick": 4, "thorough": 16}

EXCLUDE_R7 = sc.EXCLUDE_R7  # species outside the region of known finding R7 only (see strategies/supercells.py)
# finding: equivalencemap raises ValueError (min() of an empty dict) when neither supercell has a defect.
# While True every generated occupation A has at least one defect (a forced defect is appended by construction).
EXCLUDE_NODEFECT = False  # R19 fixed in /repo: defect-free pairs are part of the ordinary search
SIG_NODEFECT = "defect-free"

TOL = 1e-7


class Context(object):
    pass


_ctx = {}


def context(setup):
    key = canon([setup["recipe"]["lattice"], setup["recipe"]["basis"], setup["M"], setup["interstitial"], setup["nsolute"]])
    if key in _ctx:
        return _ctx[key]
    if len(_ctx) > 200:
        _ctx.clear()
    C = Context()
    C.setup = setup
    C.crys = crys = cs.build(setup["recipe"])
    C.atoms = sc.crystal_atoms(crys)
    C.M = M = np.array(setup["M"], dtype=int)
    C.ncrys = len(crys.basis)
    C.nchem = C.ncrys + setup["nsolute"]
    D = abs(sm.int_det(M))
    N = len(C.atoms)
    C.nsites = N * D
    C.suplattice = L = np.array(crys.lattice, dtype=float) @ M
    C.pristine = sup = sc.build(setup)
    C.classes = sc.describe(setup, sup)

    # ---- sites ---------------------------------------------------------------------------------------
    require(sup.size == D, lambda: "size is %s for a supercell matrix of determinant %d" % (sup.size, sm.int_det(M)))
    require(np.abs(np.asarray(sup.lattice) - L).max() < 1e-12 * np.abs(L).max(), "supercell lattice is not crystal lattice x supercell matrix")
    err = sm.layout_error(crys.lattice, C.atoms, M, sup.pos)
    require(err is None, lambda: "site layout: " + err)
    C.pos = np.array(sup.pos, dtype=float)
    C.site_species = [C.atoms[j % N][0] for j in range(C.nsites)]

    # ---- operations: soundness -----------------------------------------------------------------------------
    C.G = sc.sorted_ops(sup)
    Linv = np.linalg.inv(L)
    lib = set()
    C.perms = []
    for g in C.G:
        R = np.asarray(g.rot)
        require(R.shape == (3, 3) and np.all(R == np.round(R)) and abs(abs(np.linalg.det(R)) - 1) < 1e-9, lambda: "rot is not integer unimodular: %s" % R.tolist())
        Cr = np.asarray(g.cartrot, dtype=float)
        require(np.abs(Cr @ Cr.T - np.eye(3)).max() < TOL and np.abs(Cr - L @ R @ Linv).max() < TOL,
                lambda: "cartrot is not the orthogonal matrix L rot L^-1 of the supercell lattice for rot %s" % R.tolist())
        require(len(g.indexmap) == 1 and len(g.indexmap[0]) == C.nsites, "indexmap does not have one entry per site")
        im = [int(x) for x in g.indexmap[0]]
        require(sorted(im) == list(range(C.nsites)), lambda: "indexmap is not a permutation of the sites: %s" % im)
        p = sm.op_perm(C.pos, L, R, np.asarray(g.trans, dtype=float))
        require(p is not None, lambda: "operation rot %s trans %s does not map every site onto a site" % (R.tolist(), np.asarray(g.trans).tolist()))
        require(p == im, lambda: "indexmap %s differs from where the sites go geometrically %s (rot %s trans %s)" % (im, p, R.tolist(), np.asarray(g.trans).tolist()))
        require(all(C.site_species[p[i]] == C.site_species[i] for i in range(C.nsites)), lambda: "operation rot %s maps a site onto a site of another species" % R.tolist())
        C.perms.append(p)
        lib.add((tuple(int(x) for x in R.flatten()), tuple(im)))
    require(len(lib) == len(C.G), "two operations of the supercell share rotation and site permutation")

    # ---- operations: completeness against a from-scratch construction -----------------------------------------
    reps = sm.coset_reps(M)
    Minv = np.linalg.inv(M.astype(float))
    expected = {}
    nbroken = 0
    for g0 in crys.G:
        R0 = np.asarray(g0.rot, dtype=int)
        Rs = sm.compatible_rotation(M, R0)
        if Rs is None:
            nbroken += 1
            continue
        for u in reps:
            ts = Minv @ (np.asarray(g0.trans, dtype=float) + u)
            p = sm.op_perm(C.pos, L, Rs, ts)
            if p is None:
                raise HarnessError("crystal operation rot %s is not a symmetry of the sites (C18's subject)" % R0.tolist())
            expected[(tuple(int(x) for x in Rs.flatten()), tuple(p))] = (R0, u)
    if len(expected) != (len(crys.G) - nbroken) * D:
        raise HarnessError("reference group has %d elements, expected %d" % (len(expected), (len(crys.G) - nbroken) * D))
    missing = [k for k in expected if k not in lib]
    extra = [k for k in lib if k not in expected]
    require(not missing, lambda: "%d operations are missing from Supercell.G (of %d expected), e.g. crystal rot %s with unit-cell translation %s -> rot %s perm %s"
            % (len(missing), len(expected), expected[sorted(missing)[0]][0].tolist(), expected[sorted(missing)[0]][1].tolist(), sorted(missing)[0][0], sorted(missing)[0][1]))
    require(not extra, lambda: "%d operations of Supercell.G are not (compatible crystal operation) x (unit-cell translation), e.g. rot %s perm %s"
            % (len(extra), sorted(extra)[0][0], sorted(extra)[0][1]))
    C.classes.append("brokensym" if nbroken else "fullsym")
    ng = len(C.G)
    C.classes.append("supG%s" % ("1" if ng == 1 else "<=8" if ng <= 8 else "<=48" if ng <= 48 else ">48"))
    C.classes.append("crysG%d" % len(crys.G))
    if N <= 6:
        nbf = len(geom.space_group(np.array(crys.lattice), C.atoms))
        C.classes.append("crysG_equals_bruteforce" if nbf == len(crys.G) else "crysG_differs_from_bruteforce(C18/C20 domain)")
    _ctx[key] = C
    return C


def observe(sup):
    return [int(x) for x in sup.occ], [[int(i) for i in l] for l in sup.chemorder]


def is_defect(C, j, c):
    s = C.site_species[j]
    return (c != -1) if s in C.setup["interstitial"] else (c != s)


def model_A(C, case):
    m = sm.OccModel(C.nsites, C.nchem)
    if case["base"] == "filled":
        for j in range(C.nsites):
            if C.site_species[j] not in C.setup["interstitial"]:
                m.set(j, C.site_species[j])
    for (j, c) in case["defects"]:
        m.set(j % C.nsites, int(c))
    return m


def realise(C, model, src, label):
    """a real Supercell holding the model's occupation and ordering, filled through setocc species by species"""
    if src == "nosym":
        sup = sc.build(C.setup, NOSYM=True)
    else:
        p = C.pristine
        require(all(int(x) == -1 for x in p.occ) and all(len(l) == 0 for l in p.chemorder), "an empty supercell changed although only copies of it were edited")
        sup = p.copy()
    for c, l in enumerate(model.order):
        for i in l:
            sup.setocc(i, c)
    require(observe(sup) == tuple(model.state()), lambda: "%s: filling an empty supercell through setocc gives %s, expected %s" % (label, observe(sup), model.state()))
    return sup


def check(case):
    setup, pair = case["setup"], case["pair"]
    C = context(setup)
    classes = list(C.classes)
    mA = model_A(C, case)
    occA, ordA = mA.state()
    ndef = sum(1 for j in range(C.nsites) if is_defect(C, j, occA[j]))
    # ---- partner ---------------------------------------------------------------------------------------
    k = pair["g"] % len(C.G)
    mB = mA.clone()
    mB.permute(C.perms[k])
    mapping0, off = [], 0
    for l in mB.order:
        mapping0.append(sm.lehmer(pair.get("code", []), len(l), off))
        off += len(l)
    mB.reorder(mapping0)
    kind = pair["kind"]
    if kind == "moved":
        p, q = pair["swap"][0] % C.nsites, pair["swap"][1] % C.nsites
        cp, cq = mB.occ[p], mB.occ[q]
        mB.set(p, cq)
        mB.set(q, cp)
    elif kind == "restoich":
        mB.set(pair["change"][0] % C.nsites, int(pair["change"][1]))
    elif kind != "related":
        raise HarnessError("unknown pair kind %r" % (kind,))
    occB, ordB = mB.state()
    if not (mA.consistent() and mB.consistent()):
        raise HarnessError("model inconsistent")
    # ---- brute-force existence ----------------------------------------------------------------------------
    a = np.array(occA)
    b = np.array(occB)
    witnesses = []
    for kk, p in enumerate(C.perms):
        moved = np.empty_like(a)
        moved[p] = a
        if np.array_equal(moved, b):
            witnesses.append(kk)
    if kind == "related" and k not in witnesses:
        raise HarnessError("constructed partner is not reached by the operation that built it")
    exists = bool(witnesses)
    # ---- library ------------------------------------------------------------------------------------------------
    A = realise(C, mA, "copy", "A")
    B = realise(C, mB, pair.get("bsrc", "copy"), "B")
    try:
        g, mapping = A.equivalencemap(B)
    except ValueError as e:
        ndefB = sum(1 for j in range(C.nsites) if is_defect(C, j, occB[j]))
        if ndef == 0 and ndefB == 0:
            raise Violation("%s pair: equivalencemap raises ValueError (%s) for two supercells without any defect (occupation %s), although %d operation(s) "
                            "carry one onto the other" % (SIG_NODEFECT, e, occA, len(witnesses)))
        raise
    require(observe(A) == (occA, ordA) and observe(B) == (occB, ordB), "equivalencemap changed one of its arguments")
    what = "A occ %s order %s; B occ %s order %s" % (occA, ordA, occB, ordB)
    if not exists:
        require(g is None and mapping is None, lambda: "no operation of the supercell carries A onto B, but equivalencemap returned rot %s mapping %s; %s"
                % (None if g is None else np.asarray(g.rot).tolist(), mapping, what))
    else:
        require(g is not None and mapping is not None, lambda: "%d operations carry A onto B (e.g. rot %s perm %s) but equivalencemap found none; %s"
                % (len(witnesses), np.asarray(C.G[witnesses[0]].rot).tolist(), C.perms[witnesses[0]], what))
        idx = [kk for kk, h in enumerate(C.G) if h is g] or [kk for kk, h in enumerate(C.G) if h == g]
        require(len(idx) >= 1, lambda: "equivalencemap returned an operation that is not in Supercell.G: rot %s" % np.asarray(g.rot).tolist())
        kk = idx[0]
        t = mA.clone()
        t.permute(C.perms[kk])
        require(t.state()[0] == occB, lambda: "the returned operation (rot %s perm %s) does not carry A's occupation onto B's; %s" % (np.asarray(g.rot).tolist(), C.perms[kk], what))
        require(len(mapping) == C.nchem, lambda: "mapping has %d lists for %d species" % (len(mapping), C.nchem))
        mp = [[int(x) for x in l] for l in mapping]
        require(t.reorder(mp), lambda: "the returned mapping %s is not a permutation per species; %s" % (mp, what))
        require(t.state()[1] == ordB, lambda: "g*A re-ordered by the returned mapping %s has ordering %s, B has %s; %s" % (mp, t.state()[1], ordB, what))
        # the documented composition through the library itself
        R = (g * A).reorder(mapping)
        require(observe(R) == (occB, ordB), lambda: "(g*A).reorder(mapping) gives %s, B is %s" % (observe(R), (occB, ordB)))
        require(R == B and not (R != B), "(g*A).reorder(mapping) does not compare equal to B")
        require(observe(A) == (occA, ordA), "g*A changed A")
        classes.append("returned_builder_op" if kk == k and kind == "related" else "returned_other_op")
    # ---- history variant: the same search after an in-place operation on an object that was queried before ------------
    if ndef >= 1:
        S = A.copy()
        S.defectindices()
        S.KrogerVink()
        gk = C.G[k]
        S *= gk
        t = mA.clone()
        t.permute(C.perms[k])
        require(observe(S) == t.state(), lambda: "in-place `*=` after a defect query gives %s, the model %s" % (observe(S), t.state()))
        g2, map2 = S.equivalencemap(A)
        require(g2 is not None and map2 is not None, lambda: "S = A.copy(); S.defectindices(); S *= g leaves S an image of A, but S.equivalencemap(A) finds no operation (rot %s); %s"
                % (np.asarray(gk.rot).tolist(), what))
        R2 = (g2 * S).reorder(map2)
        require(observe(R2) == (occA, ordA), lambda: "(g2*S).reorder(mapping) gives %s, A is %s" % (observe(R2), (occA, ordA)))
        classes.append("history_query_imul_search")
    # ---- classes ---------------------------------------------------------------------------------------------------
    names = set()
    for j in range(C.nsites):
        if is_defect(C, j, occA[j]):
            names.add((occA[j], C.site_species[j]))
    classes += ["pair_" + kind, "exists" if exists else "none", "witnesses%s" % ("0" if not witnesses else "1" if len(witnesses) == 1 else ">1"),
                "defects%s" % (str(ndef) if ndef <= 3 else ">3"), "defecttypes%s" % (str(len(names)) if len(names) <= 2 else ">2"),
                "base_" + case["base"], "B_" + pair.get("bsrc", "copy")]
    if kind != "related":
        classes.append(kind + ("_still_equivalent" if exists else "_inequivalent"))
    if sorted(mA.counts()) != sorted(mB.counts()) or mA.counts() != mB.counts():
        classes.append("stoichiometry_differs")
    if any(mp != list(range(len(mp))) for mp in mapping0):
        classes.append("reordered")
    if C.perms[k] != list(range(C.nsites)):
        classes.append("op_moves_sites")
    return {"key": canon([setup["recipe"]["lattice"], setup["recipe"]["basis"], setup["M"], setup["interstitial"], setup["nsolute"], occA, ordA, occB, ordB]),
            "nontrivial": ndef >= 2, "classes": classes,
            "sample": {"crystal": setup["recipe"]["name"], "M": setup["M"], "interstitial": setup["interstitial"], "nsolute": setup["nsolute"],
                       "supercell_ops": len(C.G), "A": [occA, ordA], "B": [occB, ordB], "pair": kind, "exists": exists,
                       "returned_rot": None if (not exists) else np.asarray(g.rot).tolist(), "returned_mapping": None if not exists else mapping}}


@st.composite
def cases(draw):
    setup = draw(sc.setups(max_sites=32, max_det=8, max_mobile=4, max_other=3, nsolutes=(0, 1, 1, 2)))
    crys = cs.build(setup["recipe"])
    ncrys, nsol = len(crys.basis), setup["nsolute"]
    D = abs(sm.int_det(np.array(setup["M"])))
    n = crys.N * D
    species = [crys.atomindices[j % crys.N][0] for j in range(n)]
    counter = [0]
    pool = list(range(-1, ncrys + nsol)) + [-1] * 2 + list(range(ncrys, ncrys + nsol)) * 3

    def spec():
        return sc.substitute(ncrys, nsol, draw(st.sampled_from(pool)), counter)
    base = draw(st.sampled_from(["filled", "filled", "filled", "empty"]))
    defects = [[draw(st.integers(0, n - 1)), spec()] for _ in range(draw(st.integers(0, 6)))]
    case = {"setup": setup, "base": base, "defects": defects}
    excluded = {}
    if EXCLUDE_NODEFECT:
        occ = {j: (species[j] if (base == "filled" and species[j] not in setup["interstitial"]) else -1) for j in range(n)}
        for j, c in defects:
            occ[j] = c
        if not any((occ[j] != -1) if species[j] in setup["interstitial"] else (occ[j] != species[j]) for j in range(n)):
            defects.append([0, species[0] if species[0] in setup["interstitial"] else -1])
            excluded["NODEFECT"] = 1
    kind = draw(st.sampled_from(["related", "related", "moved", "moved", "restoich"]))
    pair = {"kind": kind, "g": draw(st.integers(0, 48 * 8 - 1)), "code": draw(st.lists(st.integers(0, 7), min_size=1, max_size=4)),
            "bsrc": draw(st.sampled_from(["copy", "copy", "nosym"]))}
    if kind == "moved":
        # swap a defect site with another site whenever there is a defect (a near miss), else two drawn sites
        dsites = sorted(set(j for j, _ in defects))
        p = dsites[draw(st.integers(0, len(dsites) - 1))] if dsites and draw(st.booleans()) else draw(st.integers(0, n - 1))
        pair["swap"] = [p, draw(st.integers(0, n - 1))]
    if kind == "restoich":
        pair["change"] = [draw(st.integers(0, n - 1)), spec()]
    case["pair"] = pair
    if counter[0]:
        excluded["R7"] = counter[0]
    if excluded:
        case["excluded"] = excluded
    return case


def run(ctx):
    def counted(case):
        for k, n in case.get("excluded", {}).items():
            ctx.exclude(k, n)
        return check(case)

    ctx.corpus(check)
    ctx.known(check)
    ctx.given(cases(), counted, quick=400, thorough=12000)


def replay(case):
    check(case)
