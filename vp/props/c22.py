"""C22  k-point mesh reduction integrates symmetric functions exactly."""
import itertools
import os

import numpy as np
from hypothesis import strategies as st

from ..core import Violation, HarnessError, require, canon
from ..strategies import crystals as cs
from ..oracles import geom, geom2

ID = "C22"
RULE = ("Hypothesis draws a crystal recipe (all 2D/3D lattice systems, catalogue + orbit decorations, so the point group ranges from 1 to the "
        "full holohedry), mesh divisions 1..7 per direction (even, odd and mixed), and 1-3 integer lattice vectors x_j (components -3..3, optionally "
        "multiplied by the mesh divisions so that the mesh average does not vanish) with coefficients c_j. The test function is "
        "f(k) = sum_j c_j sum_R exp(i k . L R x_j) over the rotation parts R of the BRUTE-FORCE space group of the constructed crystal (invariant and "
        "lattice-periodic by construction); the lattice is scaled by a drawn length unit (0.25 ... 10). Oracle: every point of fullkptmesh satisfies |k| <= |k-G| + 1e-9 for all reciprocal lattice vectors G = B n, "
        "n in [-3,3]^d; the mesh is the complete uniform mesh modulo reciprocal lattice vectors (integer residues); its plain average equals the closed-form "
        "lattice sum; reducekptmesh returns positive weights summing to one whose weighted average equals the full-mesh average to 1e-12 (relative to sum|c_j| |G|). "
        "Non-trivial: |G| > 2 and more than 8 mesh points; distinct by (crystal, mesh, x, c).")
ASSUMPTIONS = ["two known findings are excluded from the search while their flags are True (EXCLUDE_BZG_UNITS, EXCLUDE_FOLD_ONCE; witnesses corpus/C22/known-*.json)",
               "the reciprocal lattice, the Brillouin-zone test and the symmetry operations are recomputed from crys.lattice / crys.basis by brute force (no BZG, no crys.G)",
               "tolerances: 1e-9 x max|B_ij| on |k| comparisons (round-off is 1e-15 relative); 1e-12 on weight sum and on averages relative to sum|c||G| "
               "(at most 343 terms of modulus <= that scale)",
               "anisotropic meshes that are not invariant under the point group are included on purpose: the reduced average must still be exact for invariant functions"]
SHARDS = {"quick": 4, "thorough": 16}

COEFS = [1.0, -0.7, 0.45, 1.3]
SCALES = [1.0, 1.0, 1.0, 1.0, 0.25, 2.5, 3.6, 10.0]   # lattice constants in arbitrary length units (1, a.u.-like, Angstrom-like, ...)

# Known findings (both in onsager/crystal.py); set a flag to False once the defect is repaired.
# VERIF_C22_NO_EXCLUDE=1 switches both exclusions off for one run (to validate a candidate repair through ONSAGER_REPO).
# BZG-units: Crystal.genBZG pre-filters candidate reciprocal vectors with the DIRECT lattice vector L.n instead of B.n, so for lattice
#   constants >~ 3.5 length units zone-defining vectors are dropped and fullkptmesh leaves points outside the zone.
#   Predicate (input only, over-approximation): some zone-defining n and some other n' in [-3,3]^d have 2 pi n.n' >= |B n'|^2.
EXCLUDE_BZG_UNITS = False  # repaired in /repo (79056a2)
# fold-once: Crystal.fullkptmesh folds each point with a single pass over the zone-defining vectors, which is not always enough
#   (body-centred tetragonal c/a=0.8, 3x3x3).  Predicate: a model of that single pass on the oracle's own zone-defining vectors
#   (same enumeration order) leaves a point of the requested mesh outside the zone.
EXCLUDE_FOLD_ONCE = False  # repaired in /repo (2878834)


@st.composite
def cases(draw):
    rec = draw(cs.recipes(max_species=2, max_mobile=3, max_other=2, p_catalogue=0))  # the catalogue is enumerated in run()
    d = len(rec["lattice"])
    mode = draw(st.sampled_from(["iso", "iso", "any", "any", "any"]))
    if mode == "iso":
        n = draw(st.integers(1, 7))
        N = [n] * d
    else:
        N = [draw(st.integers(1, 7)) for _ in range(d)]
    nx = draw(st.integers(1, 3))
    xs = []
    for _ in range(nx):
        x = [draw(st.integers(-3, 3)) for _ in range(d)]
        xs.append({"x": x, "times_mesh": draw(st.booleans()), "c": draw(st.sampled_from(COEFS))})
    return {"recipe": {"name": rec["name"], "lattice": rec["lattice"], "basis": rec["basis"]}, "scale": draw(st.sampled_from(SCALES)), "Nmesh": N, "xs": xs}


def scaled(case):
    rec = case["recipe"]
    s = float(case.get("scale", 1.0))
    if s == 1.0:
        return rec
    return {"name": rec["name"], "lattice": (s * np.array(rec["lattice"], dtype=float)).tolist(), "basis": rec["basis"]}


def bzg_units_region(B, rel):
    """input-only over-approximation of the region where genBZG's pre-filter can drop a zone-defining vector"""
    d = B.shape[0]
    ns = np.array([n for n in itertools.product(range(-3, 4), repeat=d) if any(n)], dtype=int)
    G2 = np.einsum('ij,ij->i', ns @ B.T, ns @ B.T)
    for n in rel:
        lhs = 2. * np.pi * (ns @ n)
        bad = lhs >= G2 * (1 - 1e-12)
        bad &= np.any(ns != n, axis=1)
        if bad.any():
            return True
    return False


def fold_once_region(B, rel, N):
    """model of the documented single folding pass, on the oracle's zone-defining vectors: True when it leaves a mesh point outside"""
    H = [0.5 * (B @ n) for n in rel]
    hmin = min(h @ h for h in H)
    kdiv = [np.linspace(0.5, -0.5, n, endpoint=False) for n in N]
    pts = []
    for kt in itertools.product(*kdiv):
        k = B @ np.array(kt)
        if k @ k >= hmin:
            for h in H:
                if k @ h > h @ h:
                    k = k - 2. * h
        pts.append(k)
    return bool(geom2.bz_excess(B, np.array(pts), 3).max() > 1e-9 * np.abs(B).max())


_grp = {}


def group_of(rec, crys):
    key = canon([rec["lattice"], rec["basis"]])
    if key not in _grp:
        if len(_grp) > 300:
            _grp.clear()
        L, atoms = cs.atoms_of(crys)
        ops = geom.space_group(L, atoms)
        ok, why = geom.is_group(ops, L)
        if not ok:
            raise HarnessError("brute-force space group is not a group: %s" % why)
        rots = {}
        for op in ops:
            rots.setdefault(geom2.rotkey(op[0]), op[0])
        _grp[key] = (L, [rots[k] for k in sorted(rots)])
    return _grp[key]


def check(case, exclude=None):
    rec = scaled(case)
    ex_units = EXCLUDE_BZG_UNITS if exclude is None else exclude
    ex_fold = EXCLUDE_FOLD_ONCE if exclude is None else exclude
    try:
        crys = cs.build(rec)
    except ArithmeticError as e:
        # a non-primitive recipe goes through Crystal.reduce: its failure (R12) is C19's subject, the crystal cannot be built here
        if "Reduction did not produce" in str(e):
            return {"excluded": "R12", "classes": ["reduce_arith_error(C19 domain)"], "nontrivial": False}
        raise
    d = crys.dim
    L, rots = group_of(rec, crys)
    B = geom2.reciprocal(L)
    N = [int(n) for n in case["Nmesh"]]
    nk = int(np.prod(N))
    ktol = 1e-9 * np.abs(B).max()
    rel = geom2.relevant_vectors(B)
    region = []
    if bzg_units_region(B, rel):
        region.append("BZG_units_region")
        if ex_units:
            return {"excluded": "BZG-units", "classes": region + ["excluded_BZG_units"], "nontrivial": False}
    if fold_once_region(B, rel, N):
        region.append("fold_once_region")
        if ex_fold:
            return {"excluded": "fold-once", "classes": region + ["excluded_fold_once"], "nontrivial": False}
    if len(set(N)) > 1:
        # two-step history on one crystal object: an earlier reduction of a different mesh with the same number of points
        # (the divisions rotated) must not influence the reduction checked below
        crys.reducekptmesh(crys.fullkptmesh(tuple(N[1:] + N[:1])))
        region.append("preceded_by_other_mesh")
    kfull = crys.fullkptmesh(tuple(N))
    require(isinstance(kfull, np.ndarray) and kfull.shape == (nk, d), lambda: "fullkptmesh(%s) returned shape %s" % (N, getattr(kfull, "shape", None)))
    kfull = np.array(kfull)
    # 1. every mesh point lies in the first Brillouin zone
    exc = geom2.bz_excess(B, kfull, 3)
    worst = int(np.argmax(exc))
    require(exc[worst] <= ktol, lambda: "mesh point %s of mesh %s is outside the Brillouin zone: |k| exceeds |k-G| by %.3e for a reciprocal lattice vector G"
            % (kfull[worst].tolist(), N, exc[worst]))
    # 2. it is the complete uniform mesh modulo reciprocal lattice vectors: kappa_i = 1/2 - j_i/N_i
    kappa = kfull @ L / (2. * np.pi)
    j = (0.5 - kappa) * np.array(N)
    require(np.abs(j - np.round(j)).max() < 1e-8, lambda: "mesh points are not on the N-division grid of the reciprocal cell (max deviation %.2e)" % np.abs(j - np.round(j)).max())
    res = set(tuple(int(a) % n for a, n in zip(row, N)) for row in np.round(j).astype(int))
    require(len(res) == nk, lambda: "mesh %s has %d distinct points modulo the reciprocal lattice, expected %d" % (N, len(res), nk))
    # 3. invariant periodic test function
    terms = []  # (coefficient, integer lattice vector y = R x)
    scale = 0.
    for ent in case["xs"]:
        x = np.array(ent["x"], dtype=int) * (np.array(N, dtype=int) if ent["times_mesh"] else 1)
        for R in rots:
            terms.append((ent["c"], R @ x))
        scale += abs(ent["c"]) * len(rots)
    Y = np.array([y for _, y in terms], dtype=float)
    C = np.array([c for c, _ in terms])
    X = Y @ L.T  # Cartesian lattice vectors (rows)

    def f(kpts):
        return np.exp(1j * np.asarray(kpts) @ X.T) @ C
    exact = 0.
    for c, y in terms:
        if all(int(yi) % n == 0 for yi, n in zip(y, N)):
            exact += c * (-1) ** int(sum(int(yi) for yi in y) % 2)
    # harness self-check: f is invariant under the Cartesian rotations of the brute-force group
    k0 = kfull[nk // 2]
    f0 = f([k0])[0]
    for R in rots:
        if abs(f([geom.cartrot(L, R) @ k0])[0] - f0) > 1e-10 * scale:
            raise HarnessError("test function is not invariant under the brute-force group")
    full = f(kfull).mean()
    require(abs(full - exact) <= 1e-11 * scale, lambda: "plain average over fullkptmesh(%s) is %s, the closed-form mesh sum is %s" % (N, full, exact))
    # 4. reduced mesh
    out = crys.reducekptmesh(kfull)
    require(isinstance(out, tuple) and len(out) == 2, "reducekptmesh did not return (kpts, weights)")
    kred, w = np.asarray(out[0]), np.asarray(out[1], dtype=float)
    require(kred.ndim == 2 and kred.shape[1] == d and w.shape == (kred.shape[0],) and 1 <= len(w) <= nk,
            lambda: "reducekptmesh returned shapes %s, %s for %d mesh points" % (kred.shape, w.shape, nk))
    require(np.all(w > 0), lambda: "non-positive weight %.3e" % w.min())
    require(abs(w.sum() - 1.) <= 1e-12, lambda: "weights sum to 1%+.3e" % (w.sum() - 1.))
    red = (f(kred) * w).sum()
    require(abs(red - full) <= 1e-12 * scale, lambda: "reduced-mesh average %s differs from the full-mesh average %s by %.3e (scale %.3g); mesh %s, %d -> %d points, |G| = %d"
            % (red, full, abs(red - full), scale, N, nk, len(w), len(rots)))
    excr = geom2.bz_excess(B, kred, 3)
    require(excr.max() <= ktol, lambda: "reduced mesh point outside the Brillouin zone by %.3e" % excr.max())
    classes = ["dim%d" % d, "G%d" % len(rots), "nk<=8" if nk <= 8 else ("nk<=64" if nk <= 64 else "nk>64"),
               "all_even" if all(n % 2 == 0 for n in N) else ("all_odd" if all(n % 2 for n in N) else "mixed_parity"),
               "iso_mesh" if len(set(N)) == 1 else "aniso_mesh", "avg_nonzero" if abs(exact) > 1e-9 else "avg_zero",
               "boundary_points" if np.any(exc > -ktol) else "interior_only", rec["name"].split(":")[-1][:8], "scale%g" % case.get("scale", 1.0)] + region
    if len(w) < nk:
        classes.append("reduced_by>=%d" % min(8, nk // len(w)))
    else:
        classes.append("not_reduced")
    nt = len(rots) > 2 and nk > 8
    return {"key": canon([rec["lattice"], rec["basis"], N, case["xs"]]), "nontrivial": nt, "classes": classes,
            "sample": {"crystal": rec["name"], "scale": case.get("scale", 1.0), "lattice": rec["lattice"], "basis": rec["basis"], "Nmesh": N, "xs": case["xs"], "order_G": len(rots),
                       "nk": nk, "nreduced": len(w), "average": [float(np.real(full)), float(np.imag(full))]}}


def run(ctx):
    def fn(case):
        info = check(case)
        if info.get("excluded"):
            ctx.exclude(info["excluded"])
        return info
    ctx.known(replay)
    ctx.note("EXCLUDE_BZG_UNITS", bool(EXCLUDE_BZG_UNITS))
    ctx.note("EXCLUDE_FOLD_ONCE", bool(EXCLUDE_FOLD_ONCE))
    ctx.corpus(fn)
    cat = []
    for r in cs.catalogue():
        d = len(r["lattice"])
        for N in ([4] * d, [3] * d, [5, 4, 3][:d], [1] * d, [2, 7, 2][:d]):
            cat.append({"recipe": {"name": r["name"], "lattice": r["lattice"], "basis": r["basis"]}, "scale": 1.0, "Nmesh": N,
                        "xs": [{"x": [1, 0, 2][:d], "times_mesh": False, "c": 1.0}, {"x": [1, -1, 1][:d], "times_mesh": True, "c": -0.7}]})
    ctx.cases([c for i, c in enumerate(cat) if ctx.mine(i)], fn, label="catalogue")
    ctx.given(cases(), fn, quick=200, thorough=8000)


def replay(case):
    """replay never excludes: a witness of a known finding must show its failure"""
    return check(case, exclude=False)
