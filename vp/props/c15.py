"""C15  Tag input maps exactly onto symmetry classes."""
import re
import numpy as np
from hypothesis import strategies as st

from ..core import Violation, HarnessError, require, canon
from ..strategies import crystals as cs, vacancy as vs, networks as nw, data as dt
from ..oracles import geom
from . import c02

ID = "C15"
RULE = ("Hypothesis draws either an interstitial calculator (crystal, species, cutoff as C02) or a vacancy-mediated one (crystal, percolating "
        "network, Nthermo in {1,2}), and for the latter a random subset of tag classes, a random member tag per chosen class, random (prefactor, "
        "energy) values, injected duplicates (a second member tag of a class) and bogus tags.  Oracle: every tag is parsed back into unit-cell "
        "coordinates, the sites are located by brute-force geometry, and a canonical orbit key is computed under the brute-force space group of "
        "the crystal (own arithmetic); all tags unique; all members of a class share one key and different classes have different keys; "
        "tags2preene returns exactly the supplied value for supplied classes, (1, 0) for unsupplied state/omega0 classes and the LIMB value "
        "(own formula) for unsupplied omega1/omega2 classes; the VERBOSE report equals {unsupplied classes}, {classes given twice}, {bogus tags}.  "
        "Non-trivial: at least one duplicate, one bogus tag and one missing class (vacancy-mediated) or >= 2 classes of some type (interstitial); "
        "distinct by full case.")
ASSUMPTIONS = ["tags carry coordinates with 3 decimals; sites are matched within 2e-3 in unit coordinates (the generated crystals have no two sites that close)",
               "duplicates are given the same value as the first tag of their class (the statement does not say which of two conflicting values wins)"]
SHARDS = {"quick": 4, "thorough": 16}
TYPES = ["vacancy", "solute", "solute-vacancy", "omega0", "omega1", "omega2"]
PAIR = {"vacancy": ("preV", "eneV"), "solute": ("preS", "eneS"), "solute-vacancy": ("preSV", "eneSV"), "omega0": ("preT0", "eneT0"),
        "omega1": ("preT1", "eneT1"), "omega2": ("preT2", "eneT2")}
NUM = r"[+-]\d+\.\d+"


@st.composite
def cases(draw):
    if draw(st.floats(0, 1)) < 0.3:
        base = draw(c02.cases(max_mobile=6))
        base["kind"] = "interstitial"
        return base
    setup = draw(vs.setups())
    crys, sl, jn, calc = vs.calculator(setup)
    chosen = {}
    for t in TYPES:
        lst = []
        for n, tags in enumerate(calc.tags[t]):
            mode = draw(st.sampled_from(["skip", "one", "one", "one", "dup"]))
            if mode == "skip":
                continue
            m = draw(st.integers(0, 10 ** 6))
            val = [draw(dt.prefactor()), draw(dt.energy(-1, 3))]
            lst.append({"cls": n, "member": m, "dup": (draw(st.integers(1, 10 ** 6)) if mode == "dup" else None), "val": val,
                        "dupn": (draw(st.sampled_from([1, 1, 2, 3])) if mode == "dup" else 0)})   # how many further members of the class are also given
        chosen[t] = lst
    bogus = draw(st.lists(st.sampled_from(["v:+9.999,+9.999,+9.999", "nonsense", "omega0:v:+0.123,+0.000,+0.000^v:+7.000,+0.000,+0.000", "s:+0.5"]), max_size=3, unique=True))
    return {"kind": "vacancy", "setup": setup, "chosen": chosen, "bogus": bogus}


class Geometry(object):
    def __init__(self, crys, chem):
        self.crys, self.chem = crys, chem
        self.L, self.atoms = cs.atoms_of(crys)
        self.ops = geom.space_group(self.L, self.atoms)
        if len(self.ops) != len(crys.G):
            raise HarnessError("oracle space group has %d operations, the crystal %d" % (len(self.ops), len(crys.G)))
        self.idx = [n for n, (c, u) in enumerate(self.atoms) if c == chem]

    def locate(self, u):
        """(index within species, integer cell) of the site at unit position u (3-decimal accuracy)"""
        u = np.asarray(u, dtype=float)
        for k, n in enumerate(self.idx):
            d = u - self.atoms[n][1]
            R = np.round(d)
            if np.abs(d - R).max() < 2.5e-3:
                return k, tuple(int(x) for x in R)
        raise Violation("tag coordinate %s does not name a site of the species" % u.tolist())

    def image(self, op, site):
        k, R = site
        Rm, t, perm = op
        u = self.atoms[self.idx[k]][1] + np.array(R)
        v = Rm @ u + t
        m = perm[self.idx[k]]
        Rn = np.round(v - self.atoms[m][1]).astype(int)
        return self.idx.index(m), tuple(int(x) for x in Rn)

    def key(self, sites, frames, reversible=None):
        """canonical key of a tuple of sites; frames = list of index groups that are translated together so that the
        first site of each group sits in cell 0; reversible = permutation of the tuple that names the same object"""
        best = None
        variants = [list(range(len(sites)))] + ([reversible] if reversible else [])
        for op in self.ops:
            img = [self.image(op, s) for s in sites]
            for perm in variants:
                im = [img[p] for p in perm]
                out = []
                for grp in frames:
                    R0 = np.array(im[grp[0]][1])
                    for g in grp:
                        out.append((im[g][0], tuple(int(x) for x in np.array(im[g][1]) - R0)))
                out = tuple(out)
                if best is None or out < best:
                    best = out
        return best


def parse(tag, dim):
    nums = [float(x) for x in re.findall(NUM, tag)]
    require(len(nums) % dim == 0 and len(nums) > 0, lambda: "tag %r does not contain coordinates" % tag)
    return [np.array(nums[i:i + dim]) for i in range(0, len(nums), dim)]


def class_key(G, kind, tag, dim):
    pts = [G.locate(u) for u in parse(tag, dim)]
    if kind in ("vacancy", "solute", "states"):
        require(len(pts) == 1, "single-site tag with %d coordinates" % len(pts))
        return G.key(pts, [[0]])
    if kind == "solute-vacancy":
        require(len(pts) == 2, "pair tag malformed: %r" % tag)
        return G.key(pts, [[0, 1]])
    if kind in ("omega0", "transitions"):
        require(len(pts) == 2, "transition tag malformed: %r" % tag)
        return G.key(pts, [[0, 1]], reversible=[1, 0])
    if kind == "omega1":
        require(len(pts) == 3, "omega1 tag malformed: %r" % tag)
        return G.key(pts, [[0, 1, 2]], reversible=[0, 2, 1])
    if kind == "omega2":
        require(len(pts) == 4, "omega2 tag malformed: %r" % tag)
        return G.key(pts, [[0, 1], [2, 3]], reversible=[2, 3, 0, 1])
    raise HarnessError(kind)


def check_classes(G, tags, dim):
    seen = {}
    ntags = 0
    for kind, classes in tags.items():
        keys = {}
        for n, members in enumerate(classes):
            require(len(members) >= 1, "empty tag class %s[%d]" % (kind, n))
            for tag in members:
                require(tag not in seen, lambda: "tag %r appears twice (%s and %s[%d])" % (tag, seen.get(tag), kind, n))
                seen[tag] = "%s[%d]" % (kind, n)
                ntags += 1
            ks = set(class_key(G, kind, tag, dim) for tag in members)
            require(len(ks) == 1, lambda: "tags of class %s[%d] name %d different symmetry classes (e.g. %r)" % (kind, n, len(ks), members[0]))
            k = next(iter(ks))
            require(k not in keys, lambda: "classes %s[%d] and %s[%d] are the same symmetry class (tags %r and %r)" % (kind, keys.get(k), kind, n, classes[keys[k]][0], members[0]))
            keys[k] = n
    return ntags


def check(case):
    if case["kind"] == "interstitial":
        crys, sl, jn, diff = c02.diffuser(case)
        if not jn:
            return {"classes": ["empty_network"], "nontrivial": False}
        G = Geometry(crys, case["chem"])
        require(len(diff.tags["states"]) == len(sl) and len(diff.tags["transitions"]) == len(jn), "tag lists do not mirror sitelist/jumpnetwork")
        for members, sites in zip(diff.tags["states"], sl):
            require(len(members) == len(sites), "state tag class size differs from the site class size")
        for members, jl in zip(diff.tags["transitions"], jn):
            require(len(members) == len(jl), "transition tag class size differs from the jump class size")
        nt = check_classes(G, diff.tags, crys.dim)
        for tag, n in diff.tagdict.items():
            require(tag in diff.tags[diff.tagdicttype[tag]][n], "tagdict points to the wrong class for %r" % tag)
        return {"nontrivial": len(sl) >= 2 or len(jn) >= 2, "classes": cs.describe(crys) + ["interstitial"],
                "sample": {"kind": "interstitial", "crystal": case["recipe"]["name"], "basis": case["recipe"]["basis"], "ntags": nt, "example": diff.tags["transitions"][0][0]}}
    crys, sl, jn, calc = vs.calculator(case["setup"])
    G = Geometry(crys, case["setup"]["chem"])
    nt = check_classes(G, calc.tags, crys.dim)
    for tag, n in calc.tagdict.items():
        require(tag in calc.tags[calc.tagdicttype[tag]][n], "tagdict points to the wrong class for %r" % tag)
    # ---- tags2preene
    user = {}
    supplied = {t: {} for t in TYPES}
    dups = []
    for t in TYPES:
        if any(c["cls"] >= len(calc.tags[t]) for c in case["chosen"][t]):
            raise HarnessError("stale case")
        for c in case["chosen"][t]:
            members = calc.tags[t][c["cls"]]
            tag = members[c["member"] % len(members)]
            user[tag] = tuple(c["val"])
            supplied[t][c["cls"]] = tuple(c["val"])
            if c["dup"] is not None and len(members) > 1:
                k1 = c["member"] % len(members)
                others = [k for k in range(len(members)) if k != k1]
                start = c["dup"] % len(others)
                extra = [members[others[(start + q) % len(others)]] for q in range(min(c.get("dupn", 1) or 1, len(others)))]
                for tag2 in extra:
                    user[tag2] = tuple(c["val"])
                dups.append(sorted([tag] + extra))
    for b in case["bogus"]:
        if b not in calc.tagdict:
            user[b] = (2.0, 0.5)
    bogus = sorted(b for b in case["bogus"] if b not in calc.tagdict)
    thermo, missing, duplicate, bad = calc.tags2preene(user, VERBOSE=True)
    thermo2 = calc.tags2preene(user)
    for k in thermo:
        require(np.array_equal(np.asarray(thermo[k]), np.asarray(thermo2[k])), "VERBOSE changes the returned data for %s" % k)
    for t in ("vacancy", "solute", "solute-vacancy", "omega0"):
        pn, en = PAIR[t]
        for n in range(len(calc.tags[t])):
            want = supplied[t].get(n, (1.0, 0.0))
            got = (float(thermo[pn][n]), float(thermo[en][n]))
            require(got == (float(want[0]), float(want[1])), lambda: "%s class %d: supplied/default %s but tags2preene returns %s" % (t, n, want, got))
    # LIMB back-fill by own arithmetic from the documented definition
    preS, eneS = np.asarray(thermo["preS"], float), np.asarray(thermo["eneS"], float)
    kinE = np.array([eneS[s] for (s, v) in calc.kineticsvWyckoff])
    kinP = np.array([preS[s] for (s, v) in calc.kineticsvWyckoff])
    for tt, kk in enumerate(calc.thermo2kin):
        kinE[kk] += thermo["eneSV"][tt]
        kinP[kk] *= thermo["preSV"][tt]
    for t, jts, SPs in (("omega1", calc.om1_jt, calc.om1_SP), ("omega2", calc.om2_jt, calc.om2_SP)):
        pn, en = PAIR[t]
        for n, (jt, (a, b)) in enumerate(zip(jts, SPs)):
            if n in supplied[t]:
                want = supplied[t][n]
                got = (float(thermo[pn][n]), float(thermo[en][n]))
                require(got == (float(want[0]), float(want[1])), lambda: "%s class %d: supplied %s but tags2preene returns %s" % (t, n, want, got))
            else:
                wp = thermo["preT0"][jt] * np.sqrt(kinP[a] * kinP[b])
                we = thermo["eneT0"][jt] + 0.5 * (kinE[a] + kinE[b])
                require(abs(thermo[pn][n] - wp) <= 1e-12 * abs(wp) and abs(thermo[en][n] - we) <= 1e-12 * (1 + abs(we)),
                        lambda: "%s class %d not supplied: expected the LIMB default (%.6g, %.6g), got (%.6g, %.6g)" % (t, n, wp, we, thermo[pn][n], thermo[en][n]))
    # ---- verbose report
    want_missing = {t: [calc.tags[t][n] for n in range(len(calc.tags[t])) if n not in supplied[t]] for t in TYPES}
    want_missing = {t: v for t, v in want_missing.items() if v}
    got_missing = {t: [list(x) for x in v] for t, v in missing.items()}
    require(set(got_missing) == set(want_missing) and all(sorted(map(tuple, got_missing[t])) == sorted(map(tuple, want_missing[t])) for t in want_missing),
            lambda: "verbose report of missing classes is wrong: reported %s, expected %s" % ({t: len(v) for t, v in got_missing.items()}, {t: len(v) for t, v in want_missing.items()}))
    require(sorted(sorted(x) for x in duplicate) == sorted(dups), lambda: "verbose report of duplicates is wrong: %s vs expected %s" % (duplicate, dups))
    require(sorted(bad) == bogus, lambda: "verbose report of unrecognised tags is wrong: %s vs expected %s" % (bad, bogus))
    ntv = bool(dups) and bool(bogus) and bool(want_missing)
    return {"nontrivial": ntv, "classes": cs.describe(crys) + vs.describe(calc) + ["vacancy"] + (["dups"] if dups else []) + (["class_given_3_or_more_times"] if any(len(x) >= 3 for x in dups) else []) + (["bogus"] if bogus else []),
            "sample": {"kind": "vacancy", "crystal": case["setup"]["recipe"]["name"], "basis": case["setup"]["recipe"]["basis"], "Nthermo": case["setup"]["Nthermo"], "ntags": nt,
                       "user_tags": dict(list(user.items())[:5]), "duplicates": dups[:2], "bogus": bogus}}


def run(ctx):
    ctx.corpus(check)
    ctx.given(cases(), check, quick=48, thorough=3000, shrink=not ctx.quick)


def replay(case):
    check(case)
