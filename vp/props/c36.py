"""C36  Value types obey equality, hashing and arithmetic laws."""
import os
import sys

import numpy as np
from hypothesis import strategies as st

from .. import core
from ..core import Violation, HarnessError, require, canon
from ..strategies import crystals as cs, values as vs

ID = "C36"
RULE = ("Hypothesis draws a value type (GroupOp, PairState, ClusterSite, Cluster, vacancyThermoKinetics) and a pool of 3-6 instances "
        "derived from one or two base values: exact copies, copies rebuilt by another route (g.inv().inv(), (g*k)*k.inv(), -(-a), "
        "(s+v)-v, permuted/translated/reversed clusters, hsplit views), copies whose float fields are moved by <= 4 ulp (near-equal) "
        "and clearly different ones (a float field moved by >= 1e-3, an integer field changed); perturbations between are never "
        "generated. Every ordered pair/triple of the pool is checked for reflexive, symmetric, transitive ==, != being the negation "
        "of ==, equal => equal hash, and == is compared with the oracle's own field-by-field verdict (documented meaning: GroupOp and "
        "vacancyThermoKinetics by closeness of all fields, PairState by (i,j,R), ClusterSite by (ci,R), Cluster by the "
        "translation-invariant site set with its transition/vacancy head). A second family draws pair states with matching end "
        "points on a real crystal and checks a+(-a)=0, (a-b)+b=a, (b-a)+a=b, b+(a^b)=a, a+(b^a)=b, the documented component formulas, "
        "rejection of mismatched end points, and commutation of +, -, ^ and negation with PairState.g for an operation g (element, "
        "product, inverse, shifted). Non-trivial: the pool contains a distinct equal pair and an unequal pair (equality family) or "
        "i != j with a non-identity g (arithmetic family); distinct by the full case.")
ASSUMPTIONS = ["float perturbations are either <= 4 ulp of max(|x|,1) or >= 1e-3 with |x| <= 10: inside numpy.allclose's tolerance band equality cannot be transitive and the property is not asserted there",
               "'a+(-a)=0' is read as: the result is a zero state (iszero()) and equals PairState.zero(i) resp. zero(j); dx is compared separately (1e-9) because PairState.__eq__ documents that it ignores dx",
               "value-type fields keep the dtypes the library itself produces (int64 rotations and lattice vectors, float64 data arrays of equal length within one pool)",
               "clusters have pairwise distinct sites"]
SHARDS = {"quick": 4, "thorough": 16}

# Known genuine defects (DESIGN.md section 5): while unrepaired their region is excluded BY CONSTRUCTION in the generator;
# the check function itself always checks whatever a case asks for (so the committed witnesses still fail).
#   R5: vacancyThermoKinetics.__ne__ raises NameError            -> '!=' is not evaluated on vacancyThermoKinetics pools
#   R6: vacancyThermoKinetics equal under allclose, hash on bytes -> no near-equal (<= 4 ulp) vacancyThermoKinetics items
# C36_INCLUDE_R5=1 / C36_INCLUDE_R6=1 in the environment switch an exclusion off (used to re-find the defect).
EXCLUDE_R5 = False  # R5 fixed in /repo (f9d813a)
EXCLUDE_R6 = os.environ.get("C36_INCLUDE_R6") is None

FAR = [1e-3, -1e-3, 0.01, -0.01, 0.25, 1.0]
SAME_TOL = 64 * vs.EPS      # own verdict "same": all float fields within 64 ulp of max(|x|,1) (items are <= 4 ulp + route round-off from a common base)
DIFF_TOL = 0.9e-3           # own verdict "different": some float field differs by >= 0.9e-3


# ------------------------------------------------------------------------------------------------
# strategies (plain JSON)
# ------------------------------------------------------------------------------------------------
def _far(nfields, weights=None):
    field = st.integers(0, nfields - 1) if weights is None else st.sampled_from(weights)
    return st.one_of(st.none(), st.fixed_dictionaries({"field": field, "idx": st.integers(0, 11), "delta": st.sampled_from(FAR)}))


@st.composite
def _items(draw, nnear, nfields, near_ok=True, extra=None, weights=None):
    n = draw(st.integers(3, 6))
    out = []
    for m in range(n):
        it = {"base": draw(st.integers(0, 1)) if m else 0, "route": draw(st.integers(0, 3)), "k": draw(st.integers(0, 47)), "near": None, "far": None}
        kind = draw(st.sampled_from(["copy", "near", "near", "far", "far", "nearfar"]))
        if kind in ("near", "nearfar") and near_ok and nnear:
            it["near"] = draw(vs.ulps(nnear))
        if kind in ("far", "nearfar"):
            it["far"] = draw(_far(nfields, weights))
        if extra is not None:
            it.update(draw(extra))
        out.append(it)
    return out


@st.composite
def groupop_cases(draw):
    rec = draw(cs.recipes(max_mobile=4, max_other=3))
    d = len(rec["lattice"])
    return {"type": "GroupOp", "recipe": rec, "bases": [draw(vs.opspecs(d)), draw(vs.opspecs(d))],
            "items": draw(_items(d + d * d, 4, extra=st.fixed_dictionaries({"mid": st.sampled_from([None, None, None, 7.0e-9])}))), "ne": True}


@st.composite
def pairstate_cases(draw):
    d = draw(st.sampled_from([2, 3]))
    f = st.floats(-3, 3, allow_nan=False).map(lambda x: float(np.round(x, 5)))
    bases = [{"i": draw(st.integers(0, 3)), "j": draw(st.integers(0, 3)), "R": draw(vs.lattvec(d, -3, 3)), "dx": [draw(f) for _ in range(d)]} for _ in range(2)]
    return {"type": "PairState", "dim": d, "bases": bases, "items": draw(_items(d, 4)), "ne": True}


@st.composite
def clustersite_cases(draw):
    d = draw(st.sampled_from([2, 3]))
    bases = [{"ci": [draw(st.integers(0, 2)), draw(st.integers(0, 3))], "R": draw(vs.lattvec(d, -3, 3))} for _ in range(2)]
    return {"type": "ClusterSite", "dim": d, "bases": bases, "items": draw(_items(0, 3)), "ne": True}


@st.composite
def cluster_cases(draw):
    d = draw(st.sampled_from([2, 3]))
    bases = []
    for _ in range(2):
        sites = [{"ci": [draw(st.integers(0, 1)), draw(st.integers(0, 2))], "R": draw(vs.lattvec(d, -2, 2))} for _ in range(draw(st.integers(2, 4)))]
        tr, vac = draw(st.sampled_from([(False, False), (True, False), (True, False), (False, True), (True, True)]))
        bases.append({"sites": sites, "transition": tr, "vacancy": vac})
    extra = st.fixed_dictionaries({"perm": st.integers(0, 3), "shift": vs.lattvec(d, -3, 3), "rev": st.booleans()})
    return {"type": "Cluster", "dim": d, "bases": bases, "items": draw(_items(0, 6, extra=extra, weights=[0, 1, 2, 3, 4, 5, 5, 5])), "ne": True}


@st.composite
def vtk_cases(draw):
    ns, nt = draw(st.integers(1, 3)), draw(st.integers(1, 3))
    bases = []
    for _ in range(2):
        # values on a 0.01 grid: two bases are identical in a component or differ by >= 0.01 (never inside the tolerance band)
        pre, ene = st.integers(30, 300).map(lambda x: x / 100.), st.integers(-300, 900).map(lambda x: x / 100.)
        bases.append({"pre": [draw(pre) for _ in range(ns)], "betaene": [draw(ene) for _ in range(ns)],
                      "preT": [draw(pre) for _ in range(nt)], "betaeneT": [draw(ene) for _ in range(nt)]})
    return {"type": "vTK", "bases": bases, "items": draw(_items(2 * ns + 2 * nt, 4, near_ok=not EXCLUDE_R6)), "ne": not EXCLUDE_R5}


@st.composite
def arith_cases(draw):
    rec = draw(cs.recipes(max_mobile=6, max_other=3))
    d = len(rec["lattice"])
    return {"type": "PairArith", "recipe": rec, "c": draw(st.integers(0, 2)), "idx": [draw(st.integers(0, 5)) for _ in range(4)],
            "Ra": draw(vs.lattvec(d, -4, 4)), "Rb": draw(vs.lattvec(d, -4, 4)), "g": draw(vs.opspecs(d, plain_prob=0.5))}


def cases():
    return st.one_of(groupop_cases(), pairstate_cases(), clustersite_cases(), cluster_cases(), vtk_cases(), vtk_cases(), arith_cases(), arith_cases())


# ------------------------------------------------------------------------------------------------
# the oracle's own verdict on "same value"
# ------------------------------------------------------------------------------------------------
def verdict(fa, fb):
    """fa, fb: lists of ('i', int array) / ('f', float array) / ('o', hashable).  True = same, False = different.
    A float distance between the near and the far regime is a generator bug (HarnessError)."""
    same = True
    for (ka, a), (kb, b) in zip(fa, fb):
        if ka != kb:
            raise HarnessError("field kinds differ")
        if ka == 'o':
            if a != b:
                same = False
        elif ka == 'i':
            a, b = np.asarray(a), np.asarray(b)
            if a.shape != b.shape or np.any(a != b):
                same = False
        else:
            a, b = np.asarray(a, dtype=float), np.asarray(b, dtype=float)
            if a.shape != b.shape:
                raise HarnessError("float fields of different shape in one pool")
            dist = np.abs(a - b)
            lim = SAME_TOL * np.maximum(np.maximum(np.abs(a), np.abs(b)), 1.)
            if np.all(dist <= lim):
                continue
            if dist.max() >= DIFF_TOL:
                same = False
            else:
                raise HarnessError("generated two float fields %.3e apart: inside the excluded tolerance band" % dist.max())
    return same


def laws(name, objs, fields, ne, labels, unasserted=None):
    """equivalence-relation, !=, hash laws on a pool + comparison of == with the oracle's verdict"""
    n = len(objs)
    E = [[None] * n for _ in range(n)]
    for a in range(n):
        for b in range(n):
            r = (objs[a] == objs[b])
            require(isinstance(r, (bool, np.bool_)), lambda: "%s: == returns %s, not a truth value" % (name, type(r).__name__))
            E[a][b] = bool(r)
    for a in range(n):
        require(E[a][a], lambda: "%s: item %d (%s) is not equal to itself" % (name, a, labels[a]))
    for a in range(n):
        for b in range(a + 1, n):
            require(E[a][b] == E[b][a], lambda: "%s: == is not symmetric for items %d (%s), %d (%s): %s vs %s" % (name, a, labels[a], b, labels[b], E[a][b], E[b][a]))
    for a in range(n):
        for b in range(n):
            for c in range(n):
                if E[a][b] and E[b][c]:
                    require(E[a][c], lambda: "%s: == is not transitive: items %d==%d, %d==%d but %d!=%d (%s | %s | %s)" % (name, a, b, b, c, a, c, labels[a], labels[b], labels[c]))
    for a in range(n):
        for b in range(n):
            if E[a][b]:
                ha, hb = hash(objs[a]), hash(objs[b])
                require(ha == hb, lambda: "%s: items %d (%s) and %d (%s) compare equal but hash differently (%d vs %d)" % (name, a, labels[a], b, labels[b], ha, hb))
    for a in range(n):
        for b in range(n):
            if unasserted is not None and getattr(unasserted, "skip_verdict", False) and unasserted(a, b):
                continue   # pair deliberately placed inside the tolerance band of ==: only the hash law is asserted for it
            want = verdict(fields[a], fields[b])
            if unasserted is not None and not want and unasserted(a, b):
                continue
            require(E[a][b] == want, lambda: "%s: items %d (%s) and %d (%s): == gives %s, the documented meaning of equality gives %s"
                    % (name, a, labels[a], b, labels[b], E[a][b], want))
    if ne:
        for a in range(n):
            for b in range(n):
                r = (objs[a] != objs[b])
                require(isinstance(r, (bool, np.bool_)) and bool(r) == (not E[a][b]),
                        lambda: "%s: items %d (%s), %d (%s): != gives %s while == gives %s" % (name, a, labels[a], b, labels[b], r, E[a][b]))
    # comparisons with foreign objects: never equal, both ways
    for foreign in (None, 0, "x", (1, 2)) + ((tuple(objs[0]),) if isinstance(objs[0], tuple) else ()):
        r1, r2 = (objs[0] == foreign), (foreign == objs[0])
        require(r1 is False and r2 is False, lambda: "%s: comparison with the foreign object %r gives %s / %s" % (name, foreign, r1, r2))
        if ne:
            require((objs[0] != foreign) is True, lambda: "%s: != with the foreign object %r is not True" % (name, foreign))
    neq = sum(1 for a in range(n) for b in range(a + 1, n) if E[a][b] and objs[a] is not objs[b])
    nne = sum(1 for a in range(n) for b in range(a + 1, n) if not E[a][b])
    return neq, nne


def _label(it):
    s = "base%d route%d" % (it["base"], it["route"] % 4)
    if it.get("near"):
        s += " near%s" % it["near"]
    if it.get("far"):
        s += " far%s" % canon(it["far"])
    for k in ("perm", "shift", "rev"):
        if k in it:
            s += " %s=%s" % (k, it[k])
    return s


# ------------------------------------------------------------------------------------------------
# builders
# ------------------------------------------------------------------------------------------------
def build_groupops(case):
    from onsager.crystal import GroupOp
    crys = cs.build(case["recipe"])
    d = crys.dim
    G = vs.sorted_ops(crys)
    bases = [vs.build_op(crys, s, G) for s in case["bases"]]
    objs, fields = [], []
    for it in case["items"]:
        g = bases[it["base"] % 2]
        k = G[it["k"] % len(G)]
        route = it["route"] % 4
        if route == 1:
            g = g.inv().inv()
        elif route == 2:
            g = (g * k) * k.inv()
        elif route == 3:
            g = GroupOp(np.array(g.rot), np.array(g.trans), np.array(g.cartrot), tuple(tuple(x) for x in g.indexmap))
        rot, trans, cartrot, im = np.array(g.rot), np.array(g.trans, dtype=float), np.array(g.cartrot, dtype=float), g.indexmap
        if it.get("near"):
            trans = vs.nudge(trans, it["near"][:d])
            cartrot = vs.nudge(cartrot, it["near"][d:])
        far = it.get("far")
        if far:
            f = far["field"] % 4
            if f == 0:
                trans[far["idx"] % d] += far["delta"]
            elif f == 1:
                cartrot.reshape(-1)[far["idx"] % (d * d)] += far["delta"]
            elif f == 2:
                other = G[far["idx"] % len(G)]
                rot, cartrot, im = np.array(other.rot), np.array(other.cartrot, dtype=float), other.indexmap
            else:
                lis = [list(t) for t in im]
                for t in lis:
                    if len(t) >= 2:
                        t[0], t[1] = t[1], t[0]
                        break
                im = tuple(tuple(t) for t in lis)
        if it.get("mid"):
            # a translation from another source: inside the band in which GroupOp.__eq__ (numpy.allclose) calls two translations
            # equal.  One level only, so that approximate equality stays transitive within the pool; whether such a pair is equal is
            # not asserted, only that equal operations hash equally (GroupOp's hash leaves the translation out for this reason).
            trans[0] += it["mid"]
        if it.get("near") or far or it.get("mid"):
            g = GroupOp(rot, trans, cartrot, im)
        objs.append(g)
        fields.append([('i', np.array(g.rot)), ('f', g.trans), ('f', g.cartrot), ('o', tuple(tuple(int(x) for x in t) for t in g.indexmap))])
    return objs, fields, cs.describe(crys)


def build_pairstates(case):
    from onsager.crystalStars import PairState
    d = case["dim"]
    objs, fields = [], []
    for it in case["items"]:
        b = case["bases"][it["base"] % 2]
        i, j, R, dx = b["i"], b["j"], np.array(b["R"], dtype=int), np.array(b["dx"], dtype=float)
        if it.get("near"):
            dx = vs.nudge(dx, it["near"])
        far = it.get("far")
        if far:
            f = far["field"] % 4
            if f == 0:
                R = R.copy()
                R[far["idx"] % d] += 1 if far["delta"] > 0 else -1
            elif f == 1:
                i = i + 1 + far["idx"] % 3
            elif f == 2:
                j = j + 1 + far["idx"] % 3
            else:
                dx = dx.copy()
                dx[far["idx"] % d] += far["delta"]      # dx is documented as ignored by ==
        p = PairState(i=i, j=j, R=R, dx=dx)
        route = it["route"] % 4
        if route == 1:
            p = -(-p)
        elif route == 2:
            p = p + PairState.zero(j, d)
        elif route == 3:
            p = PairState.zero(i, d) + p
        objs.append(p)
        fields.append([('o', (int(p.i), int(p.j))), ('i', np.array(p.R))])
    return objs, fields, ["dim%d" % d]


def build_clustersites(case):
    from onsager.cluster import ClusterSite
    d = case["dim"]
    objs, fields = [], []
    for it in case["items"]:
        b = case["bases"][it["base"] % 2]
        ci, R = tuple(b["ci"]), np.array(b["R"], dtype=int)
        far = it.get("far")
        if far:
            f = far["field"] % 3
            if f == 0:
                R = R.copy()
                R[far["idx"] % d] += 1 if far["delta"] > 0 else -1
            elif f == 1:
                ci = (ci[0] + 1, ci[1])
            else:
                ci = (ci[0], ci[1] + 1 + far["idx"] % 3)
        s = ClusterSite(ci=ci, R=R)
        route = it["route"] % 4
        v = np.array([1, -2, 3][:d])
        if route == 1:
            s = -(-s)
        elif route == 2:
            s = (s + v) - v
        elif route == 3:
            s = ClusterSite(ci=(int(ci[0]), int(ci[1])), R=np.array(R.tolist()))
        objs.append(s)
        fields.append([('o', (int(s.ci[0]), int(s.ci[1]))), ('i', np.array(s.R))])
    return objs, fields, ["dim%d" % d]


def _distinct_sites(spec, d, need):
    seen, out = set(), []
    for s in spec:
        k = (tuple(s["ci"]), tuple(s["R"]))
        if k not in seen:
            seen.add(k)
            out.append((tuple(s["ci"]), np.array(s["R"], dtype=int)))
    while len(out) < need:
        out.append(((0, 0), np.array([5 + len(out)] + [0] * (d - 1), dtype=int)))
    return out


def canon_cluster(sites, transition, vacancy):
    """the oracle's identity of a cluster: translation-invariant site tags, ordered head for vacancy clusters, unordered
    transition pair otherwise (the documented meaning of Cluster.__eq__)"""
    N = len(sites)
    center = sum(R for _, R in sites)

    def tag(s):
        return (tuple(int(x) for x in s[0]), tuple(int(x) for x in (N * s[1] - center)))
    nfix = 2 if transition else (1 if vacancy else 0)
    head = [tag(s) for s in sites[:nfix]]
    if transition and not vacancy:
        head = sorted(head)
    return (bool(transition), bool(vacancy), tuple(head), tuple(sorted(tag(s) for s in sites[nfix:])))


def loose_cluster(sites, transition, vacancy):
    """identity in which the transition pair and the site set are each taken modulo their OWN translation.  Two
    transition-state clusters without vacancy that agree in this form but not in canon_cluster are geometrically different
    clusters which Cluster.__eq__ nevertheless reports equal (finding of C31, 'Cluster enumeration and identity').  That
    coarser relation is still an equivalence relation with a consistent hash, so C36's statement is not concerned:
    such pairs are not compared with the oracle's verdict (class 'Cluster_C31_ts_region_unasserted')."""
    if not (transition and not vacancy):
        return None
    N = len(sites)
    center = sum(R for _, R in sites)
    tags = tuple(sorted((tuple(int(x) for x in ci), tuple(int(x) for x in (N * R - center))) for ci, R in sites))
    (c0, R0), (c1, R1) = sites[0], sites[1]
    pair = min((tuple(c0), tuple(c1), tuple(int(x) for x in (R1 - R0))), (tuple(c1), tuple(c0), tuple(int(x) for x in (R0 - R1))))
    return (tags, pair)


LOOSE = {}


def build_clusters(case):
    from onsager.cluster import ClusterSite, Cluster
    d = case["dim"]
    objs, fields, classes = [], [], ["dim%d" % d]
    for it in case["items"]:
        b = case["bases"][it["base"] % 2]
        tr, vac = bool(b["transition"]), bool(b["vacancy"])
        sites = _distinct_sites(b["sites"], d, 2 if tr else 1)
        far = it.get("far")
        if far:
            f = far["field"] % 6
            n = far["idx"] % len(sites)
            if f == 0:      # move one site far away (cannot coincide with another site: |R| <= 2+3)
                sites = [(ci, R + (np.array([9] + [0] * (d - 1)) if m == n else 0)) for m, (ci, R) in enumerate(sites)]
            elif f == 1:    # another basis index
                sites = [((ci[0], ci[1] + 7) if m == n else ci, R) for m, (ci, R) in enumerate(sites)]
            elif f == 2:    # one more site
                sites = sites + [((0, 0), np.array([11] * d))]
            elif f == 3:
                vac = not vac
            elif f == 4:
                tr = not tr
                if tr and len(sites) < 2:
                    sites = sites + [((0, 0), np.array([11] * d))]
        nfix = 2 if tr else (1 if vac else 0)
        head, rest = sites[:nfix], sites[nfix:]
        if far and far["field"] % 6 == 5 and head and rest:
            # same set of sites, another site plays the role of the (last) transition/vacancy site
            m = far["idx"] % len(rest)
            head[-1], rest[m] = rest[m], head[-1]
            classes.append("cluster_head_swapped_%s%s" % ("TS" if tr else "", "vac" if vac else ""))
        if it.get("rev") and tr:
            head = [head[1], head[0]]
        if rest:
            p = it.get("perm", 0) % len(rest)
            rest = rest[p:] + rest[:p]
        sh = np.array(it.get("shift", [0] * d), dtype=int)
        lis = [(ci, R + sh) for (ci, R) in head + rest]
        cl = Cluster([ClusterSite(ci=ci, R=R) for (ci, R) in lis], transition=tr, vacancy=vac)
        objs.append(cl)
        fields.append([('o', canon_cluster(lis, tr, vac))])
        LOOSE[id(cl)] = loose_cluster(lis, tr, vac)
        classes.append("cluster_%s%s" % ("TS" if tr else "", "vac" if vac else "") if (tr or vac) else "cluster_plain")
    return objs, fields, sorted(set(classes))


def build_vtks(case):
    from onsager.OnsagerCalc import vacancyThermoKinetics
    names = ("pre", "betaene", "preT", "betaeneT")
    objs, fields = [], []
    for it in case["items"]:
        b = case["bases"][it["base"] % 2]
        arrs = [np.array(b[k], dtype=float) for k in names]
        if it.get("near"):
            ks, pos = it["near"], 0
            for m in range(4):
                arrs[m] = vs.nudge(arrs[m], [ks[(pos + q) % len(ks)] for q in range(len(arrs[m]))])
                pos += len(arrs[m])
        far = it.get("far")
        if far:
            a = arrs[far["field"] % 4]
            a[far["idx"] % len(a)] += far["delta"]
        route = it["route"] % 3
        if route == 1:
            arrs = [a.copy() for a in arrs]
        elif route == 2:    # the way the library rebuilds keys when loading from HDF5: views into one flat array
            flat = np.hstack(arrs)
            splits = np.cumsum([len(a) for a in arrs])[:-1]
            arrs = np.hsplit(flat, splits)
        v = vacancyThermoKinetics(pre=arrs[0], betaene=arrs[1], preT=arrs[2], betaeneT=arrs[3])
        objs.append(v)
        fields.append([('f', np.array(a)) for a in arrs])
    return objs, fields, ["nsites%d" % len(case["bases"][0]["pre"]), "ntrans%d" % len(case["bases"][0]["preT"])]


BUILDERS = {"GroupOp": build_groupops, "PairState": build_pairstates, "ClusterSite": build_clustersites, "Cluster": build_clusters, "vTK": build_vtks}
NAMES = {"GroupOp": "GroupOp", "PairState": "PairState", "ClusterSite": "ClusterSite", "Cluster": "Cluster", "vTK": "vacancyThermoKinetics"}


# ------------------------------------------------------------------------------------------------
# pair-state arithmetic
# ------------------------------------------------------------------------------------------------
def check_arith(case):
    from onsager.crystalStars import PairState as PS
    rec = case["recipe"]
    crys = cs.build(rec)
    d = crys.dim
    c = case["c"] % crys.Nchem
    ul = [np.array(u, dtype=float) for u in crys.basis[c]]
    n = len(ul)
    L = np.array(crys.lattice, dtype=float)
    i, j, k, l = [x % n for x in case["idx"]]
    Ra, Rb = np.array(case["Ra"], dtype=int), np.array(case["Rb"], dtype=int)
    g = vs.build_op(crys, case["g"])

    def mk(p, q, R):
        return PS(i=p, j=q, R=np.array(R, dtype=int), dx=L @ (np.asarray(R, dtype=float) + ul[q] - ul[p]))

    def same(x, ref, what):
        """x (library result) against (i, j, R) and the geometric dx of that triple"""
        require(isinstance(x, PS), lambda: "%s: result is %s" % (what, type(x).__name__))
        require(x.i == ref[0] and x.j == ref[1] and np.all(np.asarray(x.R) == np.asarray(ref[2])),
                lambda: "%s: got %s, expected (%d,%d) R=%s" % (what, str(x), ref[0], ref[1], np.asarray(ref[2]).tolist()))
        dxr = L @ (np.asarray(ref[2], dtype=float) + ul[ref[1]] - ul[ref[0]])
        err = np.abs(np.asarray(x.dx) - dxr).max()
        require(err < 1e-9, lambda: "%s: dx %s differs from the geometric vector %s" % (what, np.asarray(x.dx).tolist(), dxr.tolist()))

    def eq(x, y, what):
        require(x == y and not (x != y) and hash(x) == hash(y), lambda: "%s: %s vs %s" % (what, str(x), str(y)))
        err = np.abs(np.asarray(x.dx) - np.asarray(y.dx)).max()
        require(err < 1e-9, lambda: "%s: dx differs by %.2e" % (what, err))

    a = mk(i, j, Ra)
    # negation
    same(-a, (j, i, -Ra), "-(i,j)R")
    eq(-(-a), a, "-(-a) vs a")
    # zero
    z1, z2 = a + (-a), (-a) + a
    require(z1.iszero() and z2.iszero(), lambda: "a+(-a) or (-a)+a is not a zero state: %s, %s" % (str(z1), str(z2)))
    eq(z1, PS.zero(i, d), "a+(-a) vs zero(i)")
    eq(z2, PS.zero(j, d), "(-a)+a vs zero(j)")
    eq(PS.zero(i, d) + a, a, "zero(i)+a vs a")
    eq(a + PS.zero(j, d), a, "a+zero(j) vs a")
    # the universal zero (site index -1) is accepted at either end by __add__ (special-cased in the library) and is an identity there
    zu = PS.zero(-1, d)
    eq(zu + a, a, "zero(-1)+a vs a")
    eq(a + zu, a, "a+zero(-1) vs a")
    eq((a + zu) + (-a), PS.zero(i, d), "(a+zero(-1))+(-a) vs zero(i)")
    # addition (i,j)R + (j,k)R' = (i,k)R+R'
    b = mk(j, k, Rb)
    same(a + b, (i, k, Ra + Rb), "(i,j)R+(j,k)R'")
    eq((a + b) + (-b), a, "(a+b)+(-b) vs a")
    # subtraction (i,j)R - (k,j)R' = (i,k)R-R'
    bs = mk(k, j, Rb)
    same(a - bs, (i, k, Ra - Rb), "(i,j)R-(k,j)R'")
    eq((a - bs) + bs, a, "(a-b)+b vs a")
    eq((bs - a) + a, bs, "(b-a)+a vs b")
    # end-point subtraction (i,j)R ^ (i,k)R' = (k,j)R-R'
    bx = mk(i, k, Rb)
    same(a ^ bx, (k, j, Ra - Rb), "(i,j)R^(i,k)R'")
    eq(bx + (a ^ bx), a, "b+(a^b) vs a")
    eq(a + (bx ^ a), bx, "a+(b^a) vs b")
    # documented rejection of mismatched end points
    classes = []
    if l != j:
        bad = mk(l, k, Rb)
        try:
            r = a + bad
        except ArithmeticError:
            classes.append("mismatch_rejected")
        else:
            raise Violation("(%d,%d)+(%d,%d) with different end points returned %s instead of raising ArithmeticError" % (i, j, l, k, str(r)))
        bad = mk(k, l, Rb)
        try:
            r = a - bad
        except ArithmeticError:
            pass
        else:
            raise Violation("(%d,%d)-(%d,%d) with different final points returned %s instead of raising ArithmeticError" % (i, j, k, l, str(r)))
    if l != i:
        bad = mk(l, k, Rb)
        try:
            r = a ^ bad
        except ArithmeticError:
            pass
        else:
            raise Violation("(%d,%d)^(%d,%d) with different start points returned %s instead of raising ArithmeticError" % (i, j, l, k, str(r)))
    # commutation with the group operation
    def G(x):
        return x.g(crys, c, g)
    eq(G(a + b), G(a) + G(b), "g(a+b) vs g(a)+g(b)")
    eq(G(-a), -G(a), "g(-a) vs -g(a)")
    eq(G(a - bs), G(a) - G(bs), "g(a-b) vs g(a)-g(b)")
    eq(G(a ^ bx), G(a) ^ G(bx), "g(a^b) vs g(a)^g(b)")
    require(G(a + (-a)).iszero(), "g(a+(-a)) is not a zero state")
    ga = G(a)
    same(ga, (ga.i, ga.j, ga.R), "g(a) must be a geometric pair state")
    require(abs(np.linalg.norm(ga.dx) - np.linalg.norm(a.dx)) < 1e-9, "g(a) changes the length of dx")
    ident = np.all(np.asarray(g.rot) == np.eye(d, dtype=int)) and np.abs(np.asarray(g.trans)).max() < 1e-9
    classes += cs.describe(crys) + ["type_PairArith", "g_identity" if ident else "g_not_identity", "i_eq_j" if i == j else "i_ne_j"]
    return {"nontrivial": bool(i != j and not ident), "classes": classes,
            "sample": {"type": "PairArith", "crystal": rec["name"], "basis": rec["basis"], "c": c, "ijkl": [i, j, k, l], "Ra": case["Ra"], "Rb": case["Rb"],
                       "g": {"rot": np.asarray(g.rot).tolist(), "trans": np.asarray(g.trans).tolist()}}}


# ------------------------------------------------------------------------------------------------
def check(case):
    typ = case["type"]
    try:
        if typ == "PairArith":
            return check_arith(case)
        objs, fields, classes = BUILDERS[typ](case)
    except ArithmeticError as e:
        if "Reduction did not produce" in str(e):   # Crystal.reduce on a non-primitive description: C19's subject (R12)
            return {"classes": ["reduce_arith_error(C19 domain)"], "nontrivial": False}
        raise
    labels = [_label(it) for it in case["items"]]
    classes = list(classes) + ["type_" + typ]
    unasserted = None
    if typ == "Cluster":
        loose = [LOOSE.pop(id(o)) for o in objs]
        hit = []

        def unasserted(a, b):
            if loose[a] is not None and loose[a] == loose[b]:
                hit.append((a, b))
                return True
            return False
    if typ == "GroupOp":
        mids = [bool(it.get("mid")) for it in case["items"]]
        if any(mids):
            classes.append("GroupOp_translation_inside_allclose_band")

        def unasserted(a, b):
            return mids[a] != mids[b]
        unasserted.skip_verdict = True
    neq, nne = laws(NAMES[typ], objs, fields, case.get("ne", True), labels, unasserted)
    if typ == "Cluster" and hit:
        classes.append("Cluster_C31_ts_region_unasserted")
    if any(it.get("near") and any(it["near"]) for it in case["items"]):
        classes.append(typ + "_near_items")
    if any(it.get("far") for it in case["items"]):
        classes.append(typ + "_far_items")
    if neq:
        classes.append(typ + "_distinct_equal_pair")
    if nne:
        classes.append(typ + "_unequal_pair")
    if not case.get("ne", True):
        classes.append(typ + "_ne_not_evaluated")
    return {"nontrivial": bool(neq and nne), "classes": classes,
            "sample": {"type": typ, "bases": case["bases"], "items": case["items"], "distinct_equal_pairs": neq, "unequal_pairs": nne}}


def as_violation(fn):
    """library exceptions -> Violation (the framework does this inside given/cases, but not inside ctx.known)"""
    def inner(case):
        try:
            return fn(case)
        except (Violation, HarnessError):
            raise
        except Exception as e:
            tb = sys.exc_info()[2]
            frame = core.library_frame(tb)
            if frame is None or core.innermost_is_harness(tb):
                raise
            raise Violation("unexpected %s in %s: %s" % (type(e).__name__, frame, str(e)[:300]))
    return inner


def run(ctx):
    ctx.corpus(check)
    ctx.known(as_violation(check))
    n0 = ctx.evaluations
    ctx.given(cases(), check, quick=2000, thorough=80000)
    nvtk = ctx.classes.get("type_vTK", 0)
    if EXCLUDE_R5:
        ctx.exclude("R5", nvtk)     # every vacancyThermoKinetics pool would evaluate !=
    if EXCLUDE_R6:
        ctx.exclude("R6", nvtk)     # every vacancyThermoKinetics pool draws near-equal items with probability ~1/2 per item


def replay(case):
    check(case)
