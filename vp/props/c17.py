"""C17  Taylor-expansion change of variables and inversion are exact (Taylor3D / Taylor2D)."""
import collections, itertools, math

import numpy as np
from hypothesis import strategies as st

from ..core import Violation, HarnessError, require, canon
from ..oracles import taylor_ref as tr
from ..strategies import taylor as ts

ID = "C17"
RULE = ("Two case families, each in 2D and 3D with scalar, vector and matrix values, real or complex integer/8 coefficients. "
        "ROTATE: Hypothesis draws an invertible matrix M = Q1 diag(s) Q2 (rotation angles in units of pi/12, optional reflection, singular values "
        "from 0.25..4, so cond <= 16; plus the matrices of the library's own test) and an expansion with orders 0..4 whose entry (n,l) has l <= n and only "
        "monomials of degree = n (mod 2) (so every term is a polynomial in q), in collected or separated form, optionally passed through the "
        "library's reduce() first; rotate()/irotate() with rotatedirections(M) is evaluated through __call__ at 2-4 points p (and the origin) "
        "and compared, per order and in total, with an independent evaluation (own monomial enumeration) of the original coefficients at q = M p. "
        "INVERSE: a leading isotropic term of order n0 in -2..3 with a strictly diagonally dominant (hence invertible) matrix or non-zero scalar, "
        "a tail of 1-3 higher-order terms whose l respects the library's documented budget (every product of tail terms that contributes to a "
        "requested order has total l <= 4), Nmax in 0..2; with A_n, B_k the per-order evaluations of the input (oracle) and of inv(Nmax) (library "
        "__call__), sum_{n+k=m} A_n B_k and sum B_k A_n must be delta_{m0} 1 for every m <= n0+Nmax at every direction. "
        "Non-trivial: rotate - M not orthogonal and some entry has l < n with non-zero content (or reduce produced one); inverse - at least two "
        "series terms contribute and the tail is anisotropic. Distinct by the whole case.")
ASSUMPTIONS = ["the radial factor of order n is |u|^n; a parity-consistent entry (n,l) is the polynomial |q|^(n-d) q^pow, which is what makes a non-orthogonal change of variables well defined",
               "tolerance 1e-10 times a magnitude bound computed from the input coefficients and |M| (rotate) or from |A0^-1| and the tail (inverse)",
               "inverse: only orders m <= n0+Nmax are promised; higher orders of the product are not inspected"]
SHARDS = {"quick": 4, "thorough": 16}
TOL = 1e-10
LMAX = tr.LMAX

# Known finding (not repaired; same root cause as C16's known-real-complex-sum): inversecoeff multiplies the tail with
# coeffproductcoeff (always complex) and accumulates the result with sumcoeff(..., inplace=True) into the arrays produced
# by scalarproductcoeff, which keep the input dtype.  For a scalar-valued expansion with REAL coefficient arrays and at least
# two series terms numpy refuses the in-place cast and inv() raises UFuncTypeError (witness corpus/C17/known-real-scalar-inverse.json).
# With the flag set, scalar-valued inverse cases are built with complex arrays (same numbers).
EXCLUDE_REAL_SCALAR_INVERSE = False  # R29 repaired in /repo (50df220)
_EXCLUDED = collections.Counter()

SHAPES = [(), (), (1,), (2,), (1, 1), (2, 2), (2, 2), (3, 3), (2, 3)]
SING = [0.25, 0.5, 0.75, 1.0, 1.0, 1.25, 1.5, 2.0, 3.0, 4.0]


# ---- generators ---------------------------------------------------------------------------------------------------
def _rot3(a, b, c):
    def rz(t):
        return np.array([[math.cos(t), -math.sin(t), 0], [math.sin(t), math.cos(t), 0], [0, 0, 1.]])

    def ry(t):
        return np.array([[math.cos(t), 0, math.sin(t)], [0, 1., 0], [-math.sin(t), 0, math.cos(t)]])
    return rz(a) @ ry(b) @ rz(c)


def _rot2(a):
    return np.array([[math.cos(a), -math.sin(a)], [math.sin(a), math.cos(a)]])


@st.composite
def matrices(draw, dim):
    """invertible, in general non-orthogonal matrix by construction (singular value decomposition)"""
    kind = draw(st.sampled_from(["general", "general", "general", "orthogonal", "diagonal", "scaled", "shear"]))
    ang = lambda: draw(st.integers(0, 23)) * math.pi / 12
    if dim == 3:
        Q1, Q2 = _rot3(ang(), ang(), ang()), _rot3(ang(), ang(), ang())
    else:
        Q1, Q2 = _rot2(ang()), _rot2(ang())
    s = [draw(st.sampled_from(SING)) for _ in range(dim)]
    sign = draw(st.sampled_from([1., 1., -1.]))
    if kind == "orthogonal":
        M = Q1 * sign
    elif kind == "diagonal":
        M = np.diag(s) * sign
    elif kind == "scaled":
        M = Q1 * s[0]
    elif kind == "shear":
        M = np.eye(dim)
        for i in range(dim):
            for j in range(i + 1, dim):
                M[i, j] = draw(st.sampled_from([-1., -0.5, 0., 0.5, 1.]))
        M = M @ np.diag(s) if draw(st.booleans()) else M.T
    else:
        D = np.diag(s)
        D[0, 0] *= sign
        M = Q1 @ D @ Q2
    return [[float(x) for x in row] for row in M]


@st.composite
def parity_expansion(draw, dim, shape, cplx):
    collected = draw(st.booleans())
    pair = st.integers(0, LMAX).flatmap(lambda n: st.tuples(st.just(n), st.sampled_from(list(range(n % 2, n + 1, 2)) + [n, n] + list(range(0, n + 1)))))
    pairs = draw(st.lists(pair, min_size=1, max_size=4, unique_by=(lambda t: t[0]) if collected else (lambda t: t)))
    return {"shape": list(shape), "terms": [draw(ts.term(dim, n, l, tuple(shape), cplx, parity=n % 2, modes=("dense", "sparse", "sparse", "r2"))) for n, l in pairs]}


@st.composite
def rotate_cases(draw, dim):
    cplx = draw(st.sampled_from([True, True, False]))
    shape = draw(st.sampled_from(SHAPES))
    return {"kind": "rotate", "dim": dim, "complex": cplx, "A": draw(parity_expansion(dim, shape, cplx)), "M": draw(matrices(dim)),
            "form": draw(st.sampled_from(["rotate", "irotate", "coeff"])), "reduce_first": draw(st.sampled_from([False, False, True])),
            "pts": draw(ts.points(dim, radii=[0.05, 0.5, 1.0, 1.2, 1.7, 3.0])), "origin": draw(st.booleans())}


def lbudget(delta, Q):
    """largest l a tail entry of relative order delta may declare so that every product of tail entries reaching a requested
    order (total relative order <= Q) stays within Lmax"""
    if Q <= 0 or delta > Q:
        return LMAX
    return min(LMAX, (LMAX * delta) // Q)


@st.composite
def inverse_cases(draw, dim):
    cplx = draw(st.sampled_from([True, True, False]))
    k = draw(st.sampled_from([0, 0, 1, 2, 2, 3]))  # 0: scalar-valued expansion
    shape = () if k == 0 else (k, k)
    n0 = draw(st.sampled_from([-2, -1, 0, 0, 1, 2, 2, 2, 3]))
    Nmax = draw(st.sampled_from([N for N in (0, 1, 2) if N + n0 >= 0]))
    Q = n0 + Nmax
    # leading matrix: strictly diagonally dominant => invertible; entries in units of 1/8
    kk = max(k, 1)
    re = [[draw(st.integers(-6, 6)) for _ in range(kk)] for _ in range(kk)]
    im = [[draw(st.integers(-6, 6)) if cplx else 0 for _ in range(kk)] for _ in range(kk)]
    for i in range(kk):
        off = sum(abs(re[i][j]) + abs(im[i][j]) for j in range(kk) if j != i)
        re[i][i] = (off + draw(st.integers(4, 24))) * draw(st.sampled_from([1, -1]))
    lead = {"shape": list(shape), "re": [x for row in re for x in row], "im": [x for row in im for x in row] if cplx else None}
    collected = draw(st.booleans())
    dmax = max(2, min(4, Q + 1))
    deltas = draw(st.lists(st.integers(1, dmax), min_size=1, max_size=3, unique=collected))
    tail = []
    seen = set()
    for d in deltas:
        l = draw(st.integers(0, lbudget(d, Q)))
        if (d, l) in seen:
            continue
        seen.add((d, l))
        tail.append(draw(ts.term(dim, n0 + d, l, shape, cplx, modes=("dense", "sparse", "sparse"))))
    return {"kind": "inverse", "dim": dim, "complex": cplx, "shape": list(shape), "n0": n0, "Nmax": Nmax, "lead": lead, "tail": tail,
            "leadpos": draw(st.integers(0, 3)), "form": draw(st.sampled_from(["inv", "coeff"])), "pts": draw(ts.points(dim, lo=2, hi=3))}


# ---- checks ---------------------------------------------------------------------------------------------------------
def rotation_bounds(dim, terms, M, uhat):
    """per-order magnitude bound of the rotated polynomial on the unit sphere: every q_i is bounded by w_i = sum_j |M_ij|"""
    w = np.abs(np.asarray(M)).sum(axis=1)  # |uhat_j| <= 1; not weighted with the direction, see taylor_ref.bounds
    w2 = float(np.dot(w, w))
    pw = tr.powers(dim)
    out = {}
    for n, l, c in terms:
        cnt = tr.npow(dim, l)
        mag = np.abs(np.asarray(c)).reshape(cnt, -1).sum(axis=1)
        s = 0.
        for p in range(cnt):
            d = sum(pw[p])
            if mag[p] and d <= n:
                s += mag[p] * float(np.prod(w ** np.array(pw[p]))) * w2 ** ((n - d) / 2.)
        out[n] = out.get(n, 0.) + s
    return out


def check_rotate(case):
    dim, cplx = case["dim"], case["complex"]
    Taylor = ts.library(dim)
    M = np.array(case["M"], dtype=float)
    require_valid = abs(np.linalg.det(M)) > 1e-6 and M.shape == (dim, dim)
    if not require_valid:
        raise HarnessError("case matrix is singular or of the wrong size")
    shape = tuple(case["A"]["shape"])
    for t in case["A"]["terms"]:
        if not (0 <= t["n"] <= LMAX and t["l"] <= t["n"]):
            raise HarnessError("rotate case violates 0 <= l <= n <= Lmax")
    ref_terms = ts.terms(dim, case["A"], cplx)
    pw = tr.powers(dim)
    for n, l, c in ref_terms:
        for p in range(c.shape[0]):
            if sum(pw[p]) % 2 != n % 2 and np.abs(c[p]).max() > 0:
                raise HarnessError("rotate case violates the parity precondition")
    T = Taylor(ts.terms(dim, case["A"], cplx))
    if case.get("reduce_first"):
        T.reduce()
    # genuine content below the order: a monomial of degree d < n stands for |q|^(n-d) q^pow
    lower = any(sum(pw[p]) < n and np.abs(c[p]).max() > 0 for n, l, c in ref_terms for p in range(c.shape[0])) or any(l < n for n, l in T.nl())
    npt = Taylor.rotatedirections(M.copy())
    require(np.asarray(npt).shape == (LMAX + 1, Taylor.Npower, Taylor.Npower), "rotatedirections returned an array of shape %s" % (np.asarray(npt).shape,))
    if case["form"] == "rotate":
        Told, R = T, T.rotate(npt)
    elif case["form"] == "irotate":
        Told, R = None, T.irotate(npt)
        require(R is T, "irotate does not return self")
    else:
        Told, R = T, Taylor(Taylor.rotatecoeff(T, npt))
    for n, l in R.nl():
        require(n == l, "rotated expansion has an (n,l)=(%d,%d) entry" % (n, l))
    pts = [ts.point(p) for p in case["pts"]]
    worst = 0.
    for uhat, rad in pts:
        u = rad * uhat
        q = M @ u
        qh, qr = tr.unit(q)
        # per order: |M uhat|^n V_n(direction of M uhat)
        mh = M @ uhat
        mhat, mr = tr.unit(mh)
        exp_orders = dict((n, mr ** n * v) for n, v in tr.orders(dim, ref_terms, mhat).items())
        bnd = rotation_bounds(dim, ref_terms, M, uhat)
        got = ts.lib_orders(R, u.copy())
        for n in sorted(set(got) | set(exp_orders)):
            g = np.asarray(got.get(n, 0))
            e = np.asarray(exp_orders.get(n, np.zeros(shape)))
            tol = TOL * max(1., bnd.get(n, 0.))
            err = float(np.abs(g - e).max()) if e.size else 0.
            worst = max(worst, err / max(1., bnd.get(n, 0.)))
            require(err <= tol, lambda: "order-%d part of the rotated expansion at direction %s is %s; original at M.direction gives %s (difference %.3e > %.1e)"
                    % (n, np.round(uhat, 6).tolist(), g.tolist(), e.tolist(), err, tol))
        e = np.asarray(tr.evaluate(dim, ref_terms, q)) + np.zeros(shape)
        g = np.asarray(ts.lib_total(R, u.copy()))
        tol = TOL * max(1., sum(rad ** n * b for n, b in bnd.items()))
        err = float(np.abs(g - e).max()) if e.size else 0.
        require(err <= tol, lambda: "rotated(p) = %s but original(M p) = %s at p = %s (difference %.3e > %.1e)" % (g.tolist(), e.tolist(), u.tolist(), err, tol))
        if Told is not None:
            g0 = np.asarray(ts.lib_total(Told, q.copy()))
            require(np.abs(g0 - e).max() <= tol, lambda: "the original expansion changed during rotate(): %s vs %s" % (g0.tolist(), e.tolist()))
    if case.get("origin"):
        e = np.asarray(tr.evaluate(dim, ref_terms, np.zeros(dim))) + np.zeros(shape)
        g = np.asarray(ts.lib_total(R, np.zeros(dim)))
        require(np.abs(g - e).max() <= TOL * max(1., float(np.abs(e).max())), lambda: "rotated(0) = %s, original(0) = %s" % (g.tolist(), e.tolist()))
    orth = np.abs(M @ M.T - np.eye(dim)).max() < 1e-9
    conf = np.abs(M @ M.T - (M @ M.T)[0, 0] * np.eye(dim)).max() < 1e-9
    nl = [(t["n"], t["l"]) for t in case["A"]["terms"]]
    classes = ["rotate", "dim%d" % dim, "orthogonal" if orth else ("conformal" if conf else "nonorthogonal"), "form_" + case["form"],
               "lower_l_terms" if lower else "only_l_eq_n", "maxn%d" % max(n for n, l in nl), "shape_rank%d" % len(shape), "complex" if cplx else "real"]
    if case.get("reduce_first"):
        classes.append("reduced_first")
    if np.linalg.det(M) < 0:
        classes.append("improper")
    nt = (not conf) and lower and max(n for n, l in nl) >= 2
    return {"key": canon(case), "nontrivial": nt, "classes": classes,
            "sample": {"kind": "rotate", "dim": dim, "M": case["M"], "input_nl": nl, "shape": list(shape), "form": case["form"], "worst_relative_error": worst}}


def _series_bound(a, tau, Q):
    """coefficients (by relative order 0..Q) of a * sum_j (a tau(x))^j, tau given as {delta: bound}"""
    out = [0.] * (Q + 1)
    cur = [0.] * (Q + 1)
    cur[0] = 1.
    for _ in range(Q + 2):
        for k in range(Q + 1):
            out[k] += a * cur[k]
        nxt = [0.] * (Q + 1)
        for k, v in enumerate(cur):
            if v:
                for d, t in tau.items():
                    if k + d <= Q:
                        nxt[k + d] += v * a * t
        cur = nxt
        if not any(cur):
            break
    return out


def check_inverse(case):
    dim, cplx = case["dim"], case["complex"]
    Taylor = ts.library(dim)
    shape = tuple(case["shape"])
    n0, Nmax = case["n0"], case["Nmax"]
    Q = n0 + Nmax
    if EXCLUDE_REAL_SCALAR_INVERSE and not cplx and shape == () and not case.get("as_drawn"):
        cplx = True
        _EXCLUDED["real_scalar_inverse"] += 1
    lead = ts.array(case["lead"], shape, cplx)
    tail_exp = {"shape": list(shape), "terms": case["tail"]}
    for t in case["tail"]:
        d = t["n"] - n0
        if d < 1 or t["l"] > lbudget(d, Q):
            raise HarnessError("inverse case violates the order/l budget")

    def build():
        tl = ts.terms(dim, tail_exp, cplx)
        pos = case.get("leadpos", 0) % (len(tl) + 1)
        return tl[:pos] + [(n0, 0, lead.copy().reshape((1,) + shape))] + tl[pos:]
    ref_terms = build()
    T = Taylor(build())
    if case["form"] == "inv":
        B = T.inv(Nmax)
    else:
        B = Taylor(Taylor.inversecoeff(T.coefflist, Nmax))
    require(min(n for n, l in B.nl()) == -n0, "inverse does not start at order %d: %s" % (-n0, B.nl()))
    A0inv = (1. / lead) if shape == () else np.linalg.inv(lead)
    a = float(np.abs(A0inv).sum())
    eye = 1. if shape == () else np.eye(shape[0])
    mul = (lambda x, y: x * y) if shape == () else (lambda x, y: x @ y)
    worst = 0.
    for uhat, rad in [ts.point(p) for p in case["pts"]]:
        A = tr.orders(dim, ref_terms, uhat)
        bA = tr.bounds(dim, ref_terms, uhat)
        tau = {}
        for n, b in bA.items():
            if n > n0:
                tau[n - n0] = tau.get(n - n0, 0.) + b
        bB = _series_bound(a, tau, max(Q, 0))
        Bk = ts.lib_orders(B, (rad * uhat).copy())
        for m in range(0, Q + 1):
            SL = np.zeros(shape, dtype=complex)
            SR = np.zeros(shape, dtype=complex)
            scale = 0.
            for n, An in A.items():
                k = m - n
                if k in Bk:
                    SL = SL + mul(An, Bk[k])
                    SR = SR + mul(Bk[k], An)
                if 0 <= k + n0 <= Q:
                    scale += bA[n] * bB[k + n0]
            exp = eye if m == 0 else 0. * eye
            tol = TOL * max(1., scale)
            for S, side in ((SL, "A.inv(A)"), (SR, "inv(A).A")):
                err = float(np.abs(S - exp).max())
                worst = max(worst, err / max(1., scale))
                require(err <= tol, lambda: "order-%d part of %s at direction %s is %s, expected %s (n0=%d, Nmax=%d; difference %.3e > %.1e)"
                        % (m, side, np.round(uhat, 6).tolist(), np.asarray(S).tolist(), np.asarray(exp).tolist(), n0, Nmax, err, tol))
    # the original must be untouched
    for uhat, rad in [ts.point(p) for p in case["pts"]][:1]:
        g = np.asarray(ts.lib_total(T, (rad * uhat).copy()))
        e = np.asarray(tr.evaluate(dim, ref_terms, rad * uhat))
        require(np.abs(g - e).max() <= TOL * max(1., sum(rad ** n * b for n, b in tr.bounds(dim, ref_terms, uhat).items())), "the expansion changed during inv()")
    dmin = min(t["n"] for t in case["tail"]) - n0 if case["tail"] else None
    nseries = 0 if dmin is None or Q < 0 else Q // dmin
    aniso = any(t["l"] > 0 and any(t["re"][ts.nprod(shape):]) for t in case["tail"])
    classes = ["inverse", "dim%d" % dim, "n0=%d" % n0, "Nmax%d" % Nmax, "series_terms%d" % min(nseries, 4), "matrix%d" % (shape[0] if shape else 0),
               "anisotropic_tail" if aniso else "isotropic_tail", "complex" if cplx else "real", "form_" + case["form"]]
    if len(set(t["n"] for t in case["tail"])) < len(case["tail"]):
        classes.append("separated_tail")
    nt = nseries >= 2 and aniso
    return {"key": canon(case), "nontrivial": nt, "classes": classes,
            "sample": {"kind": "inverse", "dim": dim, "shape": list(shape), "n0": n0, "Nmax": Nmax, "tail_nl": [(t["n"], t["l"]) for t in case["tail"]],
                       "inverse_nl": [list(x) for x in B.nl()], "worst_relative_error": worst}}


def check(case):
    if case.get("kind") == "rotate":
        return check_rotate(case)
    if case.get("kind") == "inverse":
        return check_inverse(case)
    raise HarnessError("unknown case kind %r" % case.get("kind"))


def catalogue():
    """the change-of-variables matrices and the direction expansion used by the library's own (non-importable) test"""
    out = []
    for dim in (3, 2):
        v = [2 / 3., 1 / 3, -1 / 2][:dim]
        mats = [np.eye(dim), 2 * np.eye(dim), 0.5 * np.eye(dim)]
        if dim == 3:
            mats += [np.array([[1.25, 0.5, 0.25], [-0.25, 0.9, 0.5], [-0.75, -0.4, 0.6]]), np.array([[0., 1., 0.], [-1., 0., 0.], [0., 0., 1.]])]
        else:
            mats += [np.array([[1.25, 0.5], [-0.25, 0.9]]), np.array([[0., 1.], [-1., 0.]])]
        # 0.89 (v.q)^n as integer/8 coefficients is not representable; use 7/8 (v8.q)^n with v8 = 8 v rounded
        v8 = [5, 3, -4][:dim]
        pw = tr.powers(dim)
        terms = []
        for n in range(LMAX + 1):
            cnt = tr.npow(dim, n)
            re = [0] * cnt
            for p in range(cnt):
                t = pw[p]
                if sum(t) == n:
                    c = math.factorial(n)
                    for e in t:
                        c //= math.factorial(e)
                    val = c
                    for x, e in zip(v8, t):
                        val *= x ** e
                    re[p] = val  # (v8.q)^n expanded; magnitudes up to 8^4 are fine
            terms.append({"n": n, "l": n, "re": re, "im": None})
        for M in mats:
            for red in (False, True):
                out.append({"kind": "rotate", "dim": dim, "complex": True, "A": {"shape": [], "terms": terms}, "M": M.tolist(), "form": "rotate",
                            "reduce_first": red, "origin": True,
                            "pts": [{"dir": [6, 0, 0][:dim], "r": 1.2}, {"dir": [0, 1, 0][:dim], "r": 1.2}, {"dir": [2, -5, 5][:dim], "r": 0.5}, {"dir": [-2, 4, -5][:dim], "r": 1.7}]})
    return out


def run(ctx):
    ctx.note("tolerance", TOL)
    ctx.corpus(check)
    cat = catalogue()
    ctx.cases([c for i, c in enumerate(cat) if ctx.mine(i)], check, label="catalogue")
    ctx.given(rotate_cases(3), check, quick=2000, thorough=40000, salt=1, label="rotate 3D")
    ctx.given(rotate_cases(2), check, quick=2000, thorough=40000, salt=2, label="rotate 2D")
    ctx.given(inverse_cases(3), check, quick=1200, thorough=20000, salt=3, label="inverse 3D")
    ctx.given(inverse_cases(2), check, quick=1200, thorough=24000, salt=4, label="inverse 2D")
    if _EXCLUDED["real_scalar_inverse"]:
        ctx.exclude("real_scalar_inverse", _EXCLUDED["real_scalar_inverse"])


def replay(case):
    check(case)
