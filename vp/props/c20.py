"""C20  Site symmetry analysis gives exact orbits and invariant bases."""
import functools
import itertools
import os

import numpy as np
from hypothesis import strategies as st

from ..core import Violation, HarnessError, require, canon
from ..strategies import crystals as cs
from ..oracles import geom, geom2

ID = "C20"
RULE = ("(a) Hypothesis draws a crystal recipe (all 2D/3D lattice systems, catalogue + orbit decorations: special, mirror-line and general positions) and "
        "three probe positions; the brute-force space group of the constructed crystal (lattice and basis read back from the Crystal object) is the oracle: "
        "the library's group must be exactly that group, every site point-group operation must fix its site without a lattice shift, each site group must be "
        "exactly the brute-force stabiliser, Crystal.Wyckoff must be exactly the brute-force atom orbits, Wyckoffpos(u) exactly the brute-force orbit of u "
        "without duplicates, VectorBasis/SymmTensorBasis of every site orthonormal, invariant under every stabiliser operation and spanning exactly the "
        "SVD-invariant subspace (projector comparison), and addbasis(Wyckoffpos(u)) must keep the group order and every old rotation. "
        "(b) Bounded-exhaustive: every subgroup of the cubic (48, on cP/cF/cI bases) and hexagonal (24) 3D holohedries and of the square (8) and "
        "hexagonal (12) 2D ones, each in an aligned and a rotated Cartesian frame, is built as GroupOp objects and fed through "
        "functools.reduce(CombineVectorBasis / CombineTensorBasis, ...) in five orders (sorted, reversed, two rotations, even-odd interleave) and compared with the "
        "SVD-invariant subspace. Non-trivial: a site group (or subgroup) of order >= 2; distinct by the crystal (a) or (lattice, frame, subgroup, order) (b).")
ASSUMPTIONS = ["tolerances: 1e-7 on unit positions and matrix entries (threshold of the crystal is 1e-8), 1e-6 Cartesian for brute-force atom matching, 1e-8 SVD rank cut "
               "(the smallest non-zero singular value of stacked (R-1) over a crystallographic point group is O(1))",
               "the enumeration (b) is complete for the four listed holohedries (subgroup counts 98, 54, 10, 16 are asserted as an oracle self-check); "
               "the evidence flag 'exhaustive' refers to part (b) only, part (a) is a search",
               "probe positions for addbasis keep a distance >= 0.1 min|a_i| from existing atoms (interstitial sites, as every caller uses it)",
               "known finding 2D-C2-tensor: module-level SymmTensorBasis treats the 2D two-fold rotation (-1) as killing all but the isotropic tensor; site groups in 2D "
               "that contain the two-fold rotation and no rotation of higher order are excluded from the tensor comparison while EXCLUDE_2D_C2_TENSOR is True",
               "known finding S4-vector: module-level VectorBasis returns the axis for roto-inversions; sites/subgroups whose point group is the cyclic group S4 are excluded "
               "from the vector comparison while EXCLUDE_S4_VECTOR is True"]
SHARDS = {"quick": 4, "thorough": 16}

TOL = 1e-7

# set to False once repaired (VERIF_C20_NO_EXCLUDE=1 switches the exclusion off for one run)
EXCLUDE_2D_C2_TENSOR = False  # repaired in /repo (e88ac46)

# known finding S4-vector: module-level VectorBasis returns the rotation axis for roto-inversions (-3, -4, -6) although they leave no
# vector unchanged; the intersection over a group is wrong exactly when the group is the cyclic group S4 (every other group
# containing a roto-inversion also contains an inversion, a perpendicular mirror or a second axis).  Sites (and subgroups) whose
# point group is S4 are excluded from the vector comparison while the flag is True.
EXCLUDE_S4_VECTOR = False  # repaired in /repo (4ee315e)

ORDERS = ["sorted", "reversed", "rot1", "rot2", "evenodd"]

# lattices for the bounded-exhaustive part: name -> (lattice spec, expected holohedry order, expected number of subgroups)
S3 = float(np.sqrt(3.0))
EXH = {
    "cP": ({"system": "cP", "p": [1.0]}, 48, 98),
    "cF": ({"system": "cF", "p": [1.0]}, 48, 98),
    "cI": ({"system": "cI", "p": [1.0]}, 48, 98),
    "hP": ({"system": "hP", "p": [1.0, 1.1]}, 24, 54),
    "sq": ({"system": "sq", "p": [1.0]}, 8, 10),
    "hx": ({"system": "hx", "p": [1.0]}, 12, 16),
}


@functools.lru_cache(maxsize=None)
def exh_lattice(name, rot):
    spec = dict(EXH[name][0])
    spec["rot"] = rot
    L = cs.make_lattice(spec)
    H = sorted(geom.holohedry(L), key=geom2.rotkey)
    if len(H) != EXH[name][1]:
        raise HarnessError("holohedry of %s has %d elements, expected %d" % (name, len(H), EXH[name][1]))
    return L, H


@functools.lru_cache(maxsize=None)
def exh_subgroups(name):
    L, H = exh_lattice(name, 0)
    subs = geom2.all_subgroups(H)
    if len(subs) != EXH[name][2]:
        raise HarnessError("found %d subgroups of the %s holohedry, expected %d" % (len(subs), name, EXH[name][2]))
    return subs


def exh_cases():
    out = []
    for name in sorted(EXH):
        for rot in (0, 1):
            for sub in exh_subgroups(name):
                for order in ORDERS:
                    out.append({"kind": "subgroup", "lattice": name, "rot": rot, "elements": list(sub), "order": order})
    return out


@st.composite
def cases(draw):
    rec = draw(cs.recipes(max_species=3, max_mobile=6, max_other=4))
    d = len(rec["lattice"])
    probes = []
    for _ in range(3):
        vals = cs.SPECIAL if draw(st.booleans()) else cs.SEEDVALS
        probes.append([draw(st.sampled_from(vals)) for _ in range(d)])
    case = {"kind": "crystal", "recipe": {"name": rec["name"], "lattice": rec["lattice"], "basis": rec["basis"]}, "probes": probes}
    if draw(st.floats(0, 1)) < 0.2:
        # the same crystal described with positions carrying noise ~1e-6 and analysed with threshold 1e-4 (the documented
        # purpose of the threshold argument); only the symmetry-preservation clause of addbasis is checked on it
        case["kind"] = "noisy"
        case["noise"] = [[[draw(st.sampled_from([-1e-6, -3e-7, 0., 4e-7, 1e-6])) for _ in range(d)] for _ in sp] for sp in rec["basis"]]
    return case


# ------------------------------------------------------------------------------------------------
# comparison of the library's bases with the invariant subspaces
# ------------------------------------------------------------------------------------------------
def c2_only_2d(carts):
    """2D group that contains the two-fold rotation (-1) but no rotation of higher order"""
    if carts[0].shape[0] != 2:
        return False
    has2 = any(np.allclose(C, -np.eye(2), atol=1e-7) for C in carts)
    higher = any(np.linalg.det(C) > 0 and abs(np.trace(C)) < 2 - 1e-6 for C in carts)
    return has2 and not higher


def s4_only(carts):
    """3D cyclic group generated by a four-fold roto-inversion (order 4, contains an operation with det -1 and trace -1)"""
    return carts[0].shape[0] == 3 and len(carts) == 4 and any(np.linalg.det(C) < 0 and abs(np.trace(C) + 1) < 1e-6 for C in carts)


def check_vector_basis(vb, carts, d, label):
    from onsager import crystal
    require(isinstance(vb, tuple) and len(vb) == 2, lambda: "%sVectorBasis is not a (dim, vect) pair: %r" % (label, vb))
    inv = geom.invariant_subspace(carts)  # d x n
    n = inv.shape[1]
    dim = int(vb[0])
    require(dim == n, lambda: "%svector basis has dimension %d, the invariant subspace of the %d operations has dimension %d" % (label, dim, len(carts), n))
    v = np.asarray(vb[1], dtype=float)
    require(v.shape == (d,), lambda: "%svector of the basis has shape %s" % (label, v.shape))
    if dim in (0, d):
        require(np.abs(v).max() < TOL, lambda: "%svector of a %d-dimensional basis should be zero: %s" % (label, dim, v.tolist()))
    else:
        require(abs(np.linalg.norm(v) - 1) < TOL, lambda: "%sdefining vector is not normalised: %s" % (label, v.tolist()))
    vl = crystal.Crystal.vectlist(vb)
    require(len(vl) == n, lambda: "%svectlist has %d vectors for a %d-dimensional basis" % (label, len(vl), n))
    if n == 0:
        return n
    V = np.array([np.asarray(x, dtype=float) for x in vl]).T  # d x n
    require(np.abs(V.T @ V - np.eye(n)).max() < TOL, lambda: "%sbasis vectors are not orthonormal: %s" % (label, V.T.tolist()))
    for C in carts:
        require(np.abs(C @ V - V).max() < TOL, lambda: "%sbasis vector is not invariant under the site operation %s: %s" % (label, np.round(C, 6).tolist(), V.T.tolist()))
    require(np.abs(V @ V.T - inv @ inv.T).max() < 1e-6, lambda: "%svector basis %s does not span the invariant subspace %s" % (label, V.T.tolist(), inv.T.tolist()))
    return n


def check_tensor_basis(tb, carts, d, label):
    reps = [geom.sym_tensor_rep(C) for C in carts]
    E = reps[0][1]
    inv = geom.invariant_subspace([M for M, _ in reps])  # d(d+1)/2 x n
    n = inv.shape[1]
    require(isinstance(tb, list), lambda: "%sSymmTensorBasis is not a list" % label)
    require(len(tb) == n, lambda: "%stensor basis has %d elements, the space of invariant symmetric tensors has dimension %d (%d operations)" % (label, len(tb), n, len(carts)))
    if n == 0:
        return n
    T = [np.asarray(t, dtype=float) for t in tb]
    for t in T:
        require(t.shape == (d, d) and np.abs(t - t.T).max() < TOL, lambda: "%sbasis tensor is not a symmetric %dx%d matrix: %s" % (label, d, d, t.tolist()))
        for C in carts:
            require(np.abs(C @ t @ C.T - t).max() < TOL, lambda: "%sbasis tensor %s is not invariant under the site operation %s" % (label, np.round(t, 6).tolist(), np.round(C, 6).tolist()))
    Gm = np.array([[np.sum(a * b) for b in T] for a in T])
    require(np.abs(Gm - np.eye(n)).max() < TOL, lambda: "%stensor basis is not orthonormal (Gram matrix %s)" % (label, np.round(Gm, 8).tolist()))
    X = np.array([geom2.sym_tensor_coords(t, E) for t in T]).T
    require(np.abs(X @ X.T - inv @ inv.T).max() < 1e-6, lambda: "%stensor basis does not span the invariant symmetric tensors" % label)
    return n


# ------------------------------------------------------------------------------------------------
# (b) subgroups
# ------------------------------------------------------------------------------------------------
def reorder(seq, order):
    n = len(seq)
    if order == "sorted":
        return list(seq)
    if order == "reversed":
        return list(seq)[::-1]
    if order == "rot1":
        k = max(1, n // 3) % n
        return list(seq[k:]) + list(seq[:k])
    if order == "rot2":
        k = (2 * n // 3 + 1) % n
        return list(seq[k:]) + list(seq[:k])
    if order == "evenodd":
        return list(seq[1::2]) + list(seq[0::2])
    raise HarnessError("unknown order %s" % order)


def check_subgroup(case, exclude):
    from onsager import crystal
    L, H = exh_lattice(case["lattice"], int(case["rot"]))
    d = L.shape[0]
    el = [int(i) for i in case["elements"]]
    mats = [H[i] for i in el]
    keys = set(geom2.rotkey(m) for m in mats)
    if not all(geom2.rotkey(a @ b) in keys for a in mats for b in mats) or geom2.rotkey(np.eye(d, dtype=int)) not in keys:
        raise HarnessError("case elements do not form a group")
    ops = [crystal.GroupOp(rot=R.copy(), trans=np.zeros(d), cartrot=geom.cartrot(L, R), indexmap=((0,),)) for R in mats]
    seq = reorder(ops, case["order"])
    carts = [geom.cartrot(L, R) for R in mats]
    label = "subgroup of order %d of %s(frame %d), order %s: " % (len(mats), case["lattice"], case["rot"], case["order"])
    classes = ["exh_%s" % case["lattice"], "order%d" % len(mats)]
    excluded = None
    nv = nt = None
    if s4_only(carts) and exclude[1]:
        classes += ["S4_region", "vector_check_excluded"]
        excluded = "S4-vector"
    else:
        vb = functools.reduce(crystal.CombineVectorBasis, [crystal.VectorBasis(*g.eigen()) for g in seq])
        nv = check_vector_basis(vb, carts, d, label)
        classes.append("vdim%d" % nv)
    if c2_only_2d(carts) and exclude[0]:
        classes += ["2D_C2_region", "tensor_check_excluded"]
        excluded = "2D-C2-tensor"
    else:
        tb = functools.reduce(crystal.CombineTensorBasis, [crystal.SymmTensorBasis(*g.eigen()) for g in seq])
        nt = check_tensor_basis(tb, carts, d, label)
        classes.append("tdim%d" % nt)
    info = {"key": canon(case), "nontrivial": len(mats) >= 2, "classes": classes,
            "sample": {"lattice": case["lattice"], "frame": case["rot"], "order_of_subgroup": len(mats), "sequence": case["order"], "vector_dim": nv, "tensor_dim": nt}}
    if excluded:
        info["excluded"] = [excluded]
    return info


# ------------------------------------------------------------------------------------------------
# (a) crystals
# ------------------------------------------------------------------------------------------------
def check_crystal(case, exclude):
    rec = case["recipe"]
    try:
        crys = cs.build(rec)
    except ArithmeticError as e:
        # a non-primitive recipe goes through Crystal.reduce: its failure (R12) is C19's subject, the crystal cannot be built here
        if "Reduction did not produce" in str(e):
            return {"excluded": ["R12"], "classes": ["reduce_arith_error(C19 domain)"], "nontrivial": False}
        raise
    d = crys.dim
    L, atoms = cs.atoms_of(crys)
    Linv = np.linalg.inv(L)
    ops = geom.space_group(L, atoms)
    ok, why = geom.is_group(ops, L)
    if not ok:
        raise HarnessError("brute-force space group is not a group: %s" % why)
    minlen = np.linalg.norm(L, axis=0).min()
    excl = []
    # --- the library's group is exactly the brute-force group
    libG = sorted(crys.G, key=lambda g: (geom2.rotkey(g.rot), tuple(np.round(np.mod(g.trans, 1.0), 6))))
    require(len(libG) == len(ops), lambda: "crystal has %d operations, brute force finds %d" % (len(libG), len(ops)))
    for g in libG:
        require(any(np.all(np.asarray(g.rot) == R) and np.linalg.norm(L @ geom.wrap(np.asarray(g.trans) - t)) < 1e-6 * max(1., minlen) for R, t, p in ops),
                lambda: "operation rot %s trans %s is not a symmetry found by brute force" % (np.asarray(g.rot).tolist(), np.asarray(g.trans).tolist()))
    # --- Wyckoff sets are exactly the orbits
    orbits = geom.atom_orbits(ops, len(atoms))
    want = frozenset(frozenset(crys.atomindices[n] for n in orb) for orb in orbits)
    have = frozenset(frozenset(tuple(x) for x in s) for s in crys.Wyckoff)
    require(have == want, lambda: "Wyckoff sets %s differ from the symmetry orbits %s" % (sorted(sorted(s) for s in have), sorted(sorted(s) for s in want)))
    # --- per site: point group = stabiliser, fixes the site, bases
    maxstab = 1
    vdims, tdims = set(), set()
    for n, (c, i) in enumerate(crys.atomindices):
        u = np.asarray(crys.basis[c][i])
        stab = geom2.stabilizer(ops, u, L)
        maxstab = max(maxstab, len(stab))
        pg = sorted(crys.pointG[c][i], key=lambda g: geom2.rotkey(g.rot))
        label = "site (%d,%d) at %s: " % (c, i, np.round(u, 6).tolist())
        require(sorted(geom2.rotkey(g.rot) for g in pg) == sorted(geom2.rotkey(op[0]) for op in stab),
                lambda: "%spoint group has %d operations, the brute-force stabiliser has %d (or different rotations)" % (label, len(pg), len(stab)))
        for g in pg:
            require(np.abs(np.asarray(g.rot) @ u + np.asarray(g.trans) - u).max() < TOL,
                    lambda: "%spoint-group operation rot %s trans %s does not leave the site in place" % (label, np.asarray(g.rot).tolist(), np.asarray(g.trans).tolist()))
            require(np.abs(np.asarray(g.cartrot) - L @ np.asarray(g.rot) @ Linv).max() < TOL, lambda: "%scartrot is not L rot L^-1" % label)
            require(g.indexmap[c][i] == i, lambda: "%sindexmap of a point-group operation moves the site" % label)
        carts = [geom.cartrot(L, op[0]) for op in stab]
        if s4_only(carts) and exclude[1]:
            excl.append("S4-vector")
        else:
            vdims.add(check_vector_basis(crys.VectorBasis((c, i)), carts, d, label))
        if c2_only_2d(carts) and exclude[0]:
            excl.append("2D-C2-tensor")
        else:
            tdims.add(check_tensor_basis(crys.SymmTensorBasis((c, i)), carts, d, label))
    # --- Wyckoffpos: complete orbit without duplicates
    probes = [np.asarray(crys.basis[crys.atomindices[orb[0]][0]][crys.atomindices[orb[0]][1]]) for orb in orbits[:3]]
    probes += [np.array(p, dtype=float) for p in case["probes"]]
    orbit_sizes = set()
    for u in probes:
        lib = crys.Wyckoffpos(np.array(u))
        ref = geom.orbit_positions(ops, u, L)
        label = "Wyckoffpos(%s): " % np.round(u, 6).tolist()
        require(isinstance(lib, list) and len(lib) == len(ref), lambda: "%s%d positions, the orbit under the space group has %d" % (label, len(lib), len(ref)))
        for a, v in enumerate(lib):
            v = np.asarray(v)
            require(v.shape == (d,) and np.all(v > -1e-7) and np.all(v < 1 + 1e-7), lambda: "%sposition %s is not inside the unit cell" % (label, v.tolist()))
            require(any(geom.same_pos(L, v, r) for r in ref), lambda: "%sposition %s is not in the orbit" % (label, v.tolist()))
            require(not any(geom.same_pos(L, v, lib[b]) for b in range(a)), lambda: "%sduplicate position %s" % (label, v.tolist()))
        orbit_sizes.add(len(ref))
    # --- addbasis of a full orbit keeps the symmetry
    classes = cs.describe(crys) + ["maxsite%d" % maxstab, "wyckoff%d" % min(len(orbits), 5)] + ["vdim%d" % x for x in sorted(vdims)] + ["tdim%d" % x for x in sorted(tdims)]
    added = False
    for p in case["probes"]:
        u = np.array(p, dtype=float)
        ref = geom.orbit_positions(ops, u, L)
        if len(ref) > 24:
            continue
        # by symmetry the distance of the whole orbit to the atoms is the distance of its first point
        if min(np.linalg.norm(L @ (geom.wrap(np.asarray(au) - ref[0]) + np.array(R))) for _, au in atoms for R in itertools.product((-1, 0, 1), repeat=d)) < 0.1 * minlen:
            continue
        try:
            new = crys.addbasis(crys.Wyckoffpos(u))
        except ArithmeticError as e:
            if "Reduction did not produce" in str(e):
                excl.append("R12")
                classes.append("addbasis_reduce_arith_error(C19 domain)")
                continue
            raise
        label = "addbasis(Wyckoffpos(%s)): " % np.round(u, 6).tolist()
        require(len(new.G) == len(crys.G), lambda: "%sthe new crystal has %d operations, the old one %d" % (label, len(new.G), len(crys.G)))
        require([len(b) for b in new.basis] == [len(b) for b in crys.basis] + [len(ref)], lambda: "%sbasis sizes %s, expected %s" % (label, [len(b) for b in new.basis], [len(b) for b in crys.basis] + [len(ref)]))
        for g in crys.G:
            require(any(np.abs(np.asarray(h.cartrot) - np.asarray(g.cartrot)).max() < TOL for h in new.G), lambda: "%sold rotation %s is no longer a symmetry" % (label, np.round(g.cartrot, 6).tolist()))
        L2, atoms2 = cs.atoms_of(new)
        require(len(geom.space_group(L2, atoms2)) == len(ops), lambda: "%sbrute-force group of the new crystal has a different order" % label)
        # the new sites form one Wyckoff set
        newc = len(new.basis) - 1
        require(any(set(s) == set((newc, k) for k in range(len(ref))) for s in new.Wyckoff), lambda: "%sthe added sites are not one Wyckoff set" % label)
        classes.append("addbasis_orbit%d" % min(len(ref), 12))
        added = True
        break
    if not added:
        classes.append("addbasis_skipped")
    classes += ["probe_orbit%d" % min(x, 48) for x in sorted(orbit_sizes)][:4]
    info = {"key": canon([rec["lattice"], rec["basis"], case["probes"]]), "nontrivial": maxstab >= 2, "classes": classes,
            "sample": {"crystal": rec["name"], "lattice": rec["lattice"], "basis": rec["basis"], "probes": case["probes"], "order_G": len(ops),
                       "orbits": [[list(crys.atomindices[n]) for n in orb] for orb in orbits], "max_site_group": maxstab}}
    if excl:
        info["excluded"] = excl
        info["classes"] = classes + sorted(set("site_check_excluded_" + e for e in excl))
    return info


def check_noisy(case):
    from onsager import crystal
    rec = case["recipe"]
    d = len(rec["lattice"])
    try:
        exact = cs.build(rec)
        basis = [[np.array(u) + np.array(n) for u, n in zip(sp, ns)] for sp, ns in zip(rec["basis"], case["noise"])]
        noisy = crystal.Crystal(np.array(rec["lattice"]), basis, threshold=1e-4)
    except ArithmeticError as e:
        if "Reduction did not produce" in str(e):
            return {"classes": ["reduce_arith_error(C19 domain)"], "nontrivial": False}
        raise
    classes = cs.describe(noisy) + ["noisy_threshold"]
    if len(noisy.G) != len(exact.G) or noisy.N != exact.N:
        # whether 1e-4 recovers the exact symmetry is not part of C20's statement; only counted
        classes.append("noisy_group_differs_from_exact")
    L = np.array(noisy.lattice)
    nprobe = 0
    for u in case["probes"]:
        u = np.array(u, dtype=float)
        if min(np.linalg.norm(L @ geom.wrap(u - np.array(v))) for sp in noisy.basis for v in sp) < 0.1 * np.linalg.norm(L, axis=0).min():
            continue
        orb = noisy.Wyckoffpos(u)
        for a_ in range(len(orb)):
            for b_ in range(a_ + 1, len(orb)):
                dist = np.linalg.norm(L @ geom.wrap(np.array(orb[a_]) - np.array(orb[b_])))
                require(dist > 1e-3 * np.linalg.norm(L, axis=0).min(), lambda: "Wyckoffpos(%s) on a crystal built with threshold=1e-4 returns the same position twice "
                        "(modulo the lattice): %s and %s (%d positions)" % (np.round(u, 4).tolist(), np.asarray(orb[a_]).tolist(), np.asarray(orb[b_]).tolist(), len(orb)))
        try:
            new = noisy.addbasis(orb)
        except ArithmeticError as e:
            if "Reduction did not produce" in str(e):
                continue
            raise
        nprobe += 1
        require(len(new.G) == len(noisy.G), lambda: "addbasis(Wyckoffpos(%s)) on a crystal built with threshold=1e-4 changes the group order from %d to %d"
                % (np.round(u, 4).tolist(), len(noisy.G), len(new.G)))
        old_rots = set(tuple(np.asarray(g.rot).flatten()) for g in noisy.G)
        require(old_rots == set(tuple(np.asarray(g.rot).flatten()) for g in new.G), "addbasis on a noisy crystal changes the set of rotations")
        require(len(new.Wyckoff) == len(noisy.Wyckoff) + 1, lambda: "the added orbit does not form exactly one new Wyckoff set on a crystal built with threshold=1e-4 (%d -> %d sets)"
                % (len(noisy.Wyckoff), len(new.Wyckoff)))
    return {"nontrivial": bool(nprobe and len(noisy.G) > 1), "classes": classes + ["noisy_probes%d" % nprobe],
            "sample": {"kind": "noisy", "crystal": rec["name"], "basis": rec["basis"], "order": len(noisy.G)}}


def check(case, exclude=None):
    ex = (EXCLUDE_2D_C2_TENSOR, EXCLUDE_S4_VECTOR) if exclude is None else (exclude, exclude)
    if case.get("kind") == "subgroup":
        return check_subgroup(case, ex)
    if case.get("kind") == "noisy":
        return check_noisy(case)
    return check_crystal(case, ex)


def run(ctx):
    def fn(case):
        info = check(case)
        for e in info.get("excluded", ()):
            ctx.exclude(e)
        return info
    ctx.known(replay)
    ctx.note("EXCLUDE_2D_C2_TENSOR", bool(EXCLUDE_2D_C2_TENSOR))
    ctx.note("EXCLUDE_S4_VECTOR", bool(EXCLUDE_S4_VECTOR))
    ctx.corpus(fn)
    # (b) bounded-exhaustive: all subgroups x frames x orders, split over the shards
    allcases = exh_cases()
    ctx.note("exhaustive_part", {"cases": len(allcases), "subgroups": {k: v[2] for k, v in sorted(EXH.items())}, "frames": 2, "orders": ORDERS})
    done = ctx.cases([c for i, c in enumerate(allcases) if ctx.mine(i)], fn, label="subgroups", stop_after=5)
    if done:
        ctx.exhaustive = True
    # (a) catalogue and search
    cat = [{"kind": "crystal", "recipe": {"name": r["name"], "lattice": r["lattice"], "basis": r["basis"]},
            "probes": [[0.5, 0.5, 0.5][:len(r["lattice"])], [1. / 3, 2. / 3, 0.125][:len(r["lattice"])], [0.13, 0.29, 0.41][:len(r["lattice"])]]} for r in cs.catalogue()]
    ctx.cases([c for i, c in enumerate(cat) if ctx.mine(i)], fn, label="catalogue")
    ctx.given(cases(), fn, quick=100, thorough=6000)


def replay(case):
    """replay never excludes: a witness of a known finding must show its failure"""
    return check(case, exclude=False)
