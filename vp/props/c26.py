"""C26  Solute-vacancy jump networks classify every transition exactly once."""
import os

import numpy as np
from hypothesis import strategies as st

from ..core import Violation, HarnessError, require, canon
from ..strategies import crystals as cs, networks as nw, pairs
from ..oracles import pairstates_ref as ref

ID = "C26"
RULE = ("Hypothesis draws a crystal recipe (2D/3D, generated or catalogue, <= 3 vacancy sites), vacancy species, cutoff shell k in 1..3, a raw "
        "star-set range N in 1..3 with origin states on/off (lowered by construction until <= 320 brute-force states) and, when the network "
        "satisfies the Green-function precondition, a thermodynamic range Nthermo in 1..2 for a full VacancyMediated calculator (kinetic set "
        "<= 220 states). Oracle: brute-force list of all ordered pairs of non-zero states with the same solute whose vacancies are one network "
        "jump apart (swing jumps) and of all states whose vacancy can jump onto the solute (exchanges), their orbits under (rot, trans, "
        "indexmap) with own integer arithmetic and reversal. StarSet.jumpnetwork_omega1/omega2 must list every such transition exactly once "
        "and nothing else, every class must be exactly one orbit (closed under the group and reversal), dx must be the vacancy's "
        "displacement, jumptype must name the omega0 class of the underlying vacancy jump and starpair the stars of the end states; the pruned "
        "om1_jn of VacancyMediated must contain exactly the swing jumps that start or end in the thermodynamic set, om2_jn every exchange, and "
        "omegalist() must return a member of each class. Non-trivial: >= 2 swing-jump classes; distinct by (crystal, species, cutoff, N, origin, Nthermo).")
ASSUMPTIONS = ["the vacancy jump network is the library's own crys.jumpnetwork at a shell-midpoint cutoff (C21's subject)",
               "VacancyMediated is only built for networks that satisfy the Green-function precondition (every component percolates in all directions); "
               "it is built through its own constructor with the Green-function calculator stubbed out by a subclass (GFcalculator returns None), "
               "because that object is not involved in generate()/omegalist() and costs up to 20 s on low-symmetry crystals",
               "a class is required to be a single orbit because both docstrings call the classes 'symmetry unique jumps' and attach one jumptype and one star pair to each",
               "dx compared with the geometric vacancy displacement to 1e-9 of the lattice scale"]
SHARDS = {"quick": 4, "thorough": 16}
CAP = 320
VMCAP = 220
VMCOST = 3e6   # bound on Nv^2 x (GF stars or omega1 classes) of the calculator's dense expansion arrays (cleaned element-wise in Python)


@st.composite
def cases(draw):
    c = draw(pairs.setups())
    c["vm"] = draw(st.sampled_from([False, True, True]))
    c["Nthermo"] = draw(st.integers(1, 2))
    c["regen"] = draw(st.booleans())   # reach the range through generate() from a calculator built with range 1 (history of public calls)
    return c


def keyset(S):
    return [(int(ps.i), int(ps.j)) + tuple(int(x) for x in ps.R) for ps in S.states]


def check_network(label, pg, keys, index_of_star, jnet, jt, sp, expected, where, scale, exchange):
    """jnet/jt/sp: library lists over state indices of `keys`; expected: dict (a, b) -> vacancy jump, the complete brute-force
    list.  Returns number of classes."""
    nst = len(keys)
    require(len(jnet) == len(jt) == len(sp), lambda: "%s: %d classes, %d jump types, %d star pairs" % (label, len(jnet), len(jt), len(sp)))
    try:
        tl, orbs, oid = pg.transition_orbits(expected.keys())
    except ref.NotClosed as e:
        raise HarnessError("brute-force transition list not closed under the group (C21 domain): %s" % e)
    tindex = {t: n for n, t in enumerate(tl)}
    count = [0] * len(tl)
    owner = [None] * len(tl)
    for k, jl in enumerate(jnet):
        require(len(jl) > 0, lambda: "%s: class %d is empty" % (label, k))
        members = set()
        for (i, f), dx in jl:
            require(0 <= i < nst and 0 <= f < nst, lambda: "%s: class %d refers to state indices (%s, %s) outside the state list" % (label, k, i, f))
            a, b = keys[i], keys[f]
            require(not pg.iszero(a) and not pg.iszero(b), lambda: "%s: class %d contains a transition touching an origin state: %s -> %s" % (label, k, a, b))
            t = tindex.get((a, b))
            require(t is not None, lambda: "%s: class %d contains %s -> %s, which is not a %s of the network" % (label, k, a, b, "vacancy-solute exchange" if exchange else "single vacancy jump with the solute fixed"))
            count[t] += 1
            require(owner[t] in (None, k), lambda: "%s: transition %s -> %s belongs to classes %d and %d" % (label, a, b, owner[t], k))
            owner[t] = k
            members.add(t)
            want = pg.dx(b) - pg.dx(a) if not exchange else -pg.dx(a)
            err = np.abs(np.asarray(dx, dtype=float) - want).max()
            require(err <= 1e-9 * scale, lambda: "%s: displacement of %s -> %s is %s, the vacancy moves by %s" % (label, a, b, np.asarray(dx).tolist(), want.tolist()))
            vj = expected[(a, b)]
            require(where.get(vj) == jt[k], lambda: "%s: class %d has jump type %s but its member %s -> %s is a vacancy jump of omega0 class %s" % (label, k, jt[k], a, b, where.get(vj)))
            pair = (int(index_of_star[i]), int(index_of_star[f]))
            spk = (int(sp[k][0]), int(sp[k][1]))
            require(pair == spk or pair == spk[::-1], lambda: "%s: class %d has star pair %s but its member %s -> %s connects stars %s" % (label, k, spk, a, b, pair))
        # closed under the group and reversal, and a single orbit
        oids = set(oid[t] for t in members)
        full = set(t for o in oids for t in orbs[o])
        if full != members:
            miss = sorted(full - members)[0]
            raise Violation("%s: class %d is not closed under the space group and reversal: %s -> %s is equivalent to a member but absent" % (label, k, tl[miss][0], tl[miss][1]))
        require(len(oids) == 1, lambda: "%s: class %d merges %d inequivalent orbits of transitions" % (label, k, len(oids)))
    dup = [n for n, c in enumerate(count) if c > 1]
    require(not dup, lambda: "%s: transition %s -> %s is listed %d times" % (label, tl[dup[0]][0], tl[dup[0]][1], count[dup[0]]))
    miss = [n for n, c in enumerate(count) if c == 0]
    require(not miss, lambda: "%s: %d of %d transitions belong to no class, e.g. %s -> %s" % (label, len(miss), len(tl), tl[miss[0]][0], tl[miss[0]][1]))
    require(len(jnet) == len(orbs), lambda: "%s: %d classes for %d orbits" % (label, len(jnet), len(orbs)))
    return len(jnet)


_calc = {}


def _calculator(OnsagerCalc):
    """VacancyMediated with the Green-function calculator left out: its construction costs up to 20 s on low-symmetry crystals
    (unreduced k-point mesh) and plays no role in generate()/omegalist(); everything else is the library's own constructor"""
    if "cls" not in _calc:
        class NoGF(OnsagerCalc.VacancyMediated):
            def GFcalculator(self, NGFmax=0):
                self.NGFmax = NGFmax
                self.clearcache()
                return None
        _calc["cls"] = NoGF
    return _calc["cls"]


def check(case):
    from onsager import crystalStars as stars
    crys, chem, sl, jn, pg, jcl, where = pairs.prepare(case)
    classes = cs.describe(crys)
    if not jn:
        return {"classes": classes + ["empty_network"], "nontrivial": False}
    jumps = [t for cl in jcl for t in cl]
    origin = bool(case["origin"])
    N, expected = ref.capped_range(pg, jumps, case["N"], CAP, origin)
    scale = float(np.linalg.norm(pg.L, axis=0).max()) * (N + 2)

    # ---- raw star-set networks ---------------------------------------------------------------------
    S = stars.StarSet(jn, crys, chem, N, originstates=origin)
    keys = keyset(S)
    if set(keys) != set(expected) or len(set(keys)) != len(keys):
        raise HarnessError("star set states differ from the brute-force set (C24 domain)")
    r1 = S.jumpnetwork_omega1()
    r2 = S.jumpnetwork_omega2()
    require(len(r1) == 3 and len(r2) == 3, "jumpnetwork_omega1/2 must return (jumpnetwork, jumptype, starpair)")
    E1 = pg.swing_jumps(keys, jumps)
    E2 = pg.exchanges(keys, jumps)
    n1 = check_network("jumpnetwork_omega1(N=%d)" % N, pg, keys, S.index, r1[0], r1[1], r1[2], E1, where, scale, False)
    n2 = check_network("jumpnetwork_omega2(N=%d)" % N, pg, keys, S.index, r2[0], r2[1], r2[2], E2, where, scale, True)
    classes += ["N%d" % N, "origin" if origin else "noorigin", "sites%d" % pg.n,
                "om1classes_%s" % ("0" if n1 == 0 else "1" if n1 == 1 else "le10" if n1 <= 10 else "le40" if n1 <= 40 else "gt40"),
                "om2classes_%s" % ("1" if n2 == 1 else "le3" if n2 <= 3 else "gt3"),
                "states_%s" % ("le20" if len(keys) <= 20 else "le100" if len(keys) <= 100 else "gt100")]
    if N < case["N"]:
        classes.append("range_capped")
    nthermo_done = None
    npruned = None

    # ---- pruned lists of the calculator ----------------------------------------------------------------
    if case["vm"]:
        if not nw.gf_ok(crys, chem, sl, jn):
            classes.append("vm_skipped_not_percolating")
        else:
            nth = case["Nthermo"]
            K = pg.reachable(jumps, nth + 1, True)
            if (len(K) > VMCAP or pairs.basis_cost(pg, K, jumps)[1] > VMCOST) and nth > 1:
                nth = 1
                K = pg.reachable(jumps, nth + 1, True)
            if len(K) > VMCAP or pairs.basis_cost(pg, K, jumps)[1] > VMCOST:
                classes.append("vm_skipped_size")
            else:
                from onsager import OnsagerCalc
                T = pg.reachable(jumps, nth, False)
                if case.get("regen") and nth == 2:
                    # the documented way to change the range of an existing calculator; the lists below must be those of the new range
                    vm = _calculator(OnsagerCalc)(crys, chem, sl, jn, 1)
                    vm.generate(nth)
                    classes.append("vm_range_reached_by_generate")
                else:
                    vm = _calculator(OnsagerCalc)(crys, chem, sl, jn, nth)
                tk, kk = keyset(vm.thermo), keyset(vm.kinetic)
                require(set(tk) == T and len(tk) == len(T), lambda: "VacancyMediated(Nthermo=%d): thermodynamic states differ from the brute-force set (%d vs %d)" % (nth, len(tk), len(T)))
                require(set(kk) == K and len(kk) == len(K), lambda: "VacancyMediated(Nthermo=%d): kinetic states differ from the brute-force set with origin states (%d vs %d)" % (nth, len(kk), len(K)))
                allK = pg.swing_jumps(kk, jumps)
                want1 = {t: v for t, v in allK.items() if t[0] in T or t[1] in T}
                # the pruned list: every swing jump that starts or ends in the thermodynamic set, exactly once, and nothing else
                listed = set((kk[i], kk[f]) for jl in vm.om1_jn for (i, f), dx in jl)
                outer = sorted(t for t in listed if t in allK and t not in want1)
                require(not outer, lambda: "VacancyMediated(Nthermo=%d).om1_jn keeps %d jumps between states outside the thermodynamic range, e.g. %s -> %s" % (nth, len(outer), outer[0][0], outer[0][1]))
                np1 = check_network("VacancyMediated(Nthermo=%d).om1_jn" % nth, pg, kk, vm.kinetic.index, vm.om1_jn, vm.om1_jt, vm.om1_SP, want1, where, scale, False)
                np2 = check_network("VacancyMediated(Nthermo=%d).om2_jn" % nth, pg, kk, vm.kinetic.index, vm.om2_jn, vm.om2_jt, vm.om2_SP, pg.exchanges(kk, jumps), where, scale, True)
                for five, jl_, jt_ in ((1, vm.om1_jn, vm.om1_jt), (2, vm.om2_jn, vm.om2_jt)):
                    ol, ojt = vm.omegalist(five)
                    require(len(ol) == len(jl_) and list(ojt) == list(jt_), lambda: "omegalist(%d) has %d entries / types %s for %d classes / types %s" % (five, len(ol), list(ojt), len(jl_), list(jt_)))
                    for k, (p1, p2) in enumerate(ol):
                        a = (int(p1.i), int(p1.j)) + tuple(int(x) for x in p1.R)
                        b = (int(p2.i), int(p2.j)) + tuple(int(x) for x in p2.R)
                        mem = set((kk[i], kk[f]) for (i, f), dx in jl_[k])
                        require((a, b) in mem, lambda: "omegalist(%d)[%d] = %s -> %s is not a member of class %d" % (five, k, a, b, k))
                classes += ["vm_checked", "Nthermo%d" % nth, "pruned_%s" % ("none" if np1 == len(set(pg.transition_orbits(allK.keys())[2])) else "some")]
                nthermo_done, npruned = nth, np1
    return {"key": canon([case["recipe"]["lattice"], case["recipe"]["basis"], chem, case["k"], N, origin, nthermo_done]),
            "nontrivial": n1 >= 2, "classes": classes,
            "sample": {"crystal": case["recipe"]["name"], "lattice": case["recipe"]["lattice"], "basis": case["recipe"]["basis"], "chem": chem,
                       "shell": case["k"], "N": N, "origin": origin, "Nstates": len(keys), "omega1_classes": n1, "omega2_classes": n2,
                       "Nthermo": nthermo_done, "pruned_omega1_classes": npruned}}


def catalogue_cases():
    out = []
    for name in pairs.NAMES:
        rec = cs.CATALOGUE[name]
        crys = cs.build(rec)
        chem = pairs.choose_chem(rec, 0)
        # smallest shell whose network satisfies the Green-function precondition, so that the calculator part runs
        k = next((k for k in (1, 2, 3) if nw.gf_ok(crys, chem, *nw.network(crys, chem, k)[:2])), 1)
        for N, origin, nth in ((1, False, 1), (2, True, 1), (3, True, 2)):
            out.append({"recipe": rec, "chem_pick": 0, "k": k, "N": N, "origin": origin, "vm": N >= 2, "Nthermo": nth})
    return out


def run(ctx):
    ctx.corpus(check)
    base = catalogue_cases()
    if ctx.quick:
        base = [c for c in base if c["N"] <= 2]
    ctx.cases([c for i, c in enumerate(base) if ctx.mine(i)], check, label="catalogue")
    ctx.given(cases(), check, quick=140, thorough=4000, shrink=os.environ.get('VERIF_NOSHRINK') is None)


def replay(case):
    check(case)
