"""C19  Cell reduction recovers the same crystal from any supercell description."""
import functools
import itertools
import math
import os
import sys

import numpy as np
from hypothesis import strategies as st

from .. import core
from ..core import Violation, HarnessError, require, canon
from ..strategies import crystals as cs
from ..oracles import geom, geom2

ID = "C19"
RULE = ("Hypothesis draws a crystal recipe (all 2D/3D lattice systems, catalogue + orbit decorations); the oracle's own "
        "Minkowski-reduced primitive cell P of it is computed by brute force (pure translations removed, primitivity re-verified), "
        "then an integer supercell matrix M = H.U with |det| in 2..6 (H a Hermite normal form with a drawn factorisation, U a product of "
        "drawn column shears/swaps/sign flips), a per-species atom order, an origin shift and noise <= 1e-10 per coordinate. "
        "Crystal(P.M, atoms) with reduction enabled must have P's volume per atom and per-species atom counts, a right-handed lattice that "
        "satisfies the conditions of the minlattice docstring, generate the same point lattice and atom set as P up to an origin shift, and "
        "a group of the order of the brute-force space group of P (and of the library's own Crystal(P)). "
        "Non-trivial: det(M) composite or M not diagonal; distinct by (P, M, order, shift, noise).")
ASSUMPTIONS = ["'reduced lattice' is read as the definition in the docstring of Crystal.minlattice restricted to what a pairwise reduction can promise: "
               "right-handed, ordered by length, |a_i.a_j| <= min(|a_i|^2,|a_j|^2)/2 (tolerance 1e-7 relative); full Minkowski reducedness is measured as a class only",
               "'recovers the same crystal' (title) is additionally checked as: same point lattice, same atoms up to one origin shift (1e-6 absolute, noise is 1e-10)",
               "noise is at most 1e-10 in supercell unit coordinates, two orders below threshold=1e-8; lattice parameters come from coarse sets",
               "R12 (Crystal.reduce selects a translation whose numerators give a non-integer change of basis) is excluded from the search by a model of the "
               "documented scan order while EXCLUDE_R12 is True; its witness is corpus/C19/known-R12-*.json",
               "R14b (minlattice stops on a tie description, group incomplete) is excluded while EXCLUDE_R14B is True by the input-only predicate 'the point lattice of P "
               "admits a pairwise-reduced, non-Minkowski description in which the {-1,0,1} holohedry is incomplete' (all primitive hexagonal lattices); witness corpus/C19/known-R14b-*.json"]
SHARDS = {"quick": 4, "thorough": 16}

# set to False once Crystal.reduce is repaired (VERIF_C19_NO_EXCLUDE=1 switches the exclusion off for one run,
# e.g. to validate a candidate repair in a scratch copy through ONSAGER_REPO)
EXCLUDE_R12 = False  # repaired in /repo (75d79ac)

# Regression of the R14 repair (b3cdd79): Crystal.minlattice stops on descriptions whose pairwise projections are all
# exactly 1/2 although a_3 +- a_1 +- a_2 is shorter; Crystal.gengroup then misses the operations whose matrices need
# entries outside {-1,0,1}.  Predicate (input only): the point lattice of P admits such a description.  Set to False once repaired.
EXCLUDE_R14B = False  # repaired in /repo (ef2d9d4)

SHIFTS = [0., 0., 0.1, 0.37, -0.23, 0.5, 0.123456789, 0.25]
NKEYS = 24

# factorisations d1*d2*d3 of the determinant (3D) / d1*d2 (2D)
FACT3 = {D: [f for f in itertools.product(range(1, 7), repeat=3) if f[0] * f[1] * f[2] == D] for D in range(2, 7)}
FACT2 = {D: [f for f in itertools.product(range(1, 7), repeat=2) if f[0] * f[1] == D] for D in range(2, 7)}


@st.composite
def supermatrices(draw, d):
    """integer d x d matrix with |det| in 2..6: column Hermite normal form (all superlattices of that index) times a unimodular matrix"""
    if draw(st.booleans()):
        # dense presentation: every entry drawn from -2..2 (the cell reduction starts from the basis it is given, so how oblique the
        # presentation is matters as much as which superlattice it spans)
        M = draw(st.lists(st.lists(st.integers(-2, 2), min_size=d, max_size=d), min_size=d, max_size=d)
                 .filter(lambda m: 2 <= abs(int(round(np.linalg.det(np.array(m))))) <= 6))
        return M
    D = draw(st.sampled_from([2, 3, 4, 4, 5, 6, 6]))
    f = draw(st.sampled_from(FACT3[D] if d == 3 else FACT2[D]))
    H = np.zeros((d, d), dtype=int)
    for i in range(d):
        H[i, i] = f[i]
        for j in range(i):
            H[i, j] = draw(st.integers(0, f[i] - 1))
    U = np.eye(d, dtype=int)
    for _ in range(draw(st.integers(0, 4))):
        kind = draw(st.sampled_from(["shear", "shear", "swap", "neg"]))
        i = draw(st.integers(0, d - 1))
        j = (i + draw(st.integers(1, d - 1))) % d
        if kind == "shear":
            U[:, j] = U[:, j] + draw(st.sampled_from([1, -1, 2, -2])) * U[:, i]
        elif kind == "swap":
            U[:, [i, j]] = U[:, [j, i]]
        else:
            U[:, i] = -U[:, i]
    return (H @ U).tolist()


@st.composite
def cases(draw):
    if draw(st.integers(0, 3)) == 0:
        # hexagonal family with c > a and c < a: the reduction of an oblique supercell can end on a3 = c +- a1 +- a2, where every
        # pairwise projection is exactly 1/2 and only the three-vector step of minlattice makes progress (R14b)
        rec = dict(draw(st.sampled_from(cs.catalogue(["HCP", "HCPoct", "omega", "romega"]))))
        f = draw(st.sampled_from([1.0, 1.0, 0.8, 1.25, 1.7]))
        L = np.array(rec["lattice"], dtype=float)
        L[:, 2] = L[:, 2] * f
        rec["lattice"] = L.tolist()
    else:
        rec = draw(cs.recipes(max_species=3, max_mobile=4, max_other=3))
    d = len(rec["lattice"])
    return {"recipe": {"name": rec["name"], "lattice": rec["lattice"], "basis": rec["basis"]},
            "M": draw(supermatrices(d)),
            "order": draw(st.lists(st.integers(0, 999), min_size=NKEYS, max_size=NKEYS)),
            "shift": [draw(st.sampled_from(SHIFTS)) for _ in range(d)],
            "noise": draw(st.lists(st.integers(-10, 10), min_size=NKEYS, max_size=NKEYS))}


# ------------------------------------------------------------------------------------------------
# R12: model of the translation that Crystal.reduce selects (used only to EXCLUDE, never to accept)
# ------------------------------------------------------------------------------------------------
def _incell(v):
    return v - np.floor(v + 1.0e-8)


def _inhalf(v):
    return v - np.floor(v + 0.5)


def r12_predicted(basis, thr=1e-8):
    """Follows the documented scan of Crystal.reduce (least populous species, first site as reference, sites in input
    order, numerators T = round(M t) with M the gcd of the site counts, m = index of the smallest non-zero |T|) through
    the recursion and returns a description of the first stage at which M/T[m] or T[i]/T[m] is not an integer (the new
    'lattice' (L t, a_i, a_j) then does not contain a_m: region R12); None when every stage is integral."""
    basis = [[_incell(np.array(u, dtype=float)) for u in sp] for sp in basis]
    dim = len(basis[0][0])
    for stage in range(12):
        counts = [len(sp) for sp in basis]
        M = functools.reduce(math.gcd, counts)
        if M == 1:
            return None
        a = min(range(len(counts)), key=counts.__getitem__)
        init = basis[a][0]
        T = None
        for new in basis[a]:
            t = new - init
            if np.allclose(t, 0):
                continue
            Tt = np.around(M * t).astype(int)
            if not np.allclose(t, Tt / M, atol=thr):
                continue
            tt = Tt / M
            if all(any(np.allclose(_inhalf(u + tt - v), 0, atol=thr) for v in sp) for sp in basis for u in sp):
                T = [int(x) for x in Tt]
                break
        if T is None:
            return None
        m = min([i for i, v in enumerate(T) if v != 0], key=lambda n: abs(T[n]))
        if dim == 3:
            i, j = ((m + 1) % 3, (m + 2) % 3) if T[m] > 0 else ((m + 2) % 3, (m + 1) % 3)
            rest = [i, j]
        else:
            rest = [(m + 1) % 2]
        if M % abs(T[m]) != 0 or any(T[k] % T[m] != 0 for k in rest):
            return {"stage": stage, "M": M, "T": T, "m": m}
        mult = [M / T[m]] + [T[k] / T[m] for k in rest]
        thr *= abs(mult[0])
        newbasis = []
        for sp in basis:
            nl = []
            for u in sp:
                v = _incell(np.array([u[m] * mult[0]] + [u[k] - u[m] * mult[n + 1] for n, k in enumerate(rest)]))
                if not any(np.allclose(_inhalf(v - v1), 0, atol=thr) for v1 in nl):
                    nl.append(v)
            newbasis.append(nl)
        basis = newbasis
    return None


# ------------------------------------------------------------------------------------------------
_prim = {}


def primitive_of(rec):
    key = canon([rec["lattice"], rec["basis"]])
    if key not in _prim:
        if len(_prim) > 300:
            _prim.clear()
        L0 = np.array(rec["lattice"], dtype=float)
        atoms0 = [(c, np.array(u, dtype=float)) for c, sp in enumerate(rec["basis"]) for u in sp]
        try:
            Lp, ap, nrem = geom2.primitive_reduced(L0, atoms0)
        except RuntimeError as e:
            raise HarnessError("oracle failed to build the primitive cell: %s" % e)
        GP = geom.space_group(Lp, ap)
        if sum(1 for (R, t, p) in GP if np.all(R == np.eye(len(Lp), dtype=int))) != 1:
            raise HarnessError("oracle's primitive cell has a pure translation")
        ok, why = geom.is_group(GP, Lp)
        if not ok:
            raise HarnessError("oracle's space group of the primitive cell is not a group: %s" % why)
        nH = len(geom.holohedry(Lp))
        stall = any(len(geom.holohedry(Lp @ U)) < nH for U in geom2.pairwise_stall_bases(Lp))
        _prim[key] = (Lp, ap, nrem, GP, stall)
    return _prim[key]


_libprim = {}


def library_primitive(rec, Lp, ap, nspec):
    """the library's own Crystal of the primitive description (cached: building a 3D Crystal costs ~0.5 s in genBZG)"""
    from onsager import crystal
    key = canon([rec["lattice"], rec["basis"]])
    if key not in _libprim:
        if len(_libprim) > 300:
            _libprim.clear()
        _libprim[key] = crystal.Crystal(np.array(Lp), [[np.array(u) for c, u in ap if c == k] for k in range(nspec)])
    return _libprim[key]


def build_supercell(case):
    """(Lp, atoms_p, nremoved, GP, Ls, basis) with basis = list per species of unit positions in the supercell L M"""
    Lp, ap, nrem, GP, stall = primitive_of(case["recipe"])
    d = Lp.shape[0]
    M = np.array(case["M"], dtype=int)
    Ls, as_ = geom2.supercell(Lp, ap, M)
    nspec = 1 + max(c for c, _ in as_)
    shift = np.array(case["shift"], dtype=float)
    keys, noise = case["order"], case["noise"]
    basis = []
    a = 0
    for c in range(nspec):
        sp = [u for cc, u in as_ if cc == c]
        order = sorted(range(len(sp)), key=lambda n: (keys[(5 * n + 11 * c) % len(keys)], n))
        lst = []
        for n in order:
            dz = np.array([noise[(d * a + k) % len(noise)] for k in range(d)], dtype=float) * 1e-11
            lst.append(sp[n] + shift + dz)
            a += 1
        basis.append(lst)
    return Lp, ap, nrem, GP, Ls, basis, stall


def match_atoms(Lp, ap, crys, tol=1e-6):
    """True when the atoms of crys coincide with those of (Lp, ap) after one common origin shift (Cartesian)"""
    L = np.array(crys.lattice)
    mine = [(c, L @ np.asarray(crys.basis[c][i])) for (c, i) in crys.atomindices]
    Linv = np.linalg.inv(Lp)
    c0, x0 = mine[0]
    for cp, up in ap:
        if cp != c0:
            continue
        s = Lp @ np.asarray(up) - x0
        hit = set()
        for c, x in mine:
            n = geom.find_atom(Lp, ap, c, Linv @ (x + s), tol)
            if n is None:
                break
            hit.add(n)
        else:
            if len(hit) == len(ap):
                return True
    return False


def check(case, exclude=None):
    from onsager import crystal
    ex12 = EXCLUDE_R12 if exclude is None else exclude
    ex14 = EXCLUDE_R14B if exclude is None else exclude
    Lp, ap, nrem, GP, Ls, basis, stall = build_supercell(case)
    d = Lp.shape[0]
    M = np.array(case["M"], dtype=int)
    det = int(round(np.linalg.det(M)))
    classes = ["dim%d" % d, "det%+d" % det, "P_atoms%d" % min(len(ap), 9), "P_G%d" % len(GP), case["recipe"]["name"].split(":")[-1][:8]]
    if nrem > 1:
        classes.append("recipe_was_nonprimitive")
    if stall:
        classes.append("R14b_region")
        if ex14:
            return {"excluded": "R14b", "classes": classes + ["excluded_R14b"], "nontrivial": False}
    pred = r12_predicted(basis)
    if pred is not None:
        classes.append("R12_region")
        if ex12:
            return {"excluded": "R12", "classes": classes + ["excluded_R12"], "nontrivial": False}
    crys = crystal.Crystal(np.array(Ls), [[np.array(u) for u in sp] for sp in basis])
    # --- the statement
    nP = len(ap)
    vP = abs(np.linalg.det(Lp)) / nP
    countsP = [sum(1 for c, _ in ap if c == k) for k in range(len(basis))]
    counts = [len(sp) for sp in crys.basis]
    require(counts == countsP, lambda: "atoms per cell %s after reduction of a det %d supercell, the primitive cell has %s (M=%s)" % (counts, det, countsP, M.tolist()))
    vol = abs(np.linalg.det(crys.lattice)) / crys.N
    require(abs(vol - vP) <= 1e-9 * vP and abs(crys.volume / crys.N - vP) <= 1e-9 * vP,
            lambda: "volume per atom %.12g differs from the primitive cell's %.12g" % (vol, vP))
    bad = geom2.pairwise_reduced(crys.lattice)
    require(not bad, lambda: "lattice %s is not reduced/right-handed: %s" % (np.array(crys.lattice).tolist(), "; ".join(bad)))
    require(geom2.same_lattice(Lp, crys.lattice), lambda: "reduced lattice %s does not generate the point lattice of the primitive cell %s" % (np.array(crys.lattice).tolist(), Lp.tolist()))
    require(match_atoms(Lp, ap, crys), "atoms of the reduced cell are not the atoms of the primitive cell up to an origin shift")
    # --- symmetry order: brute-force space group of P, and the library's own primitive description
    require(len(crys.G) == len(GP), lambda: "reduced supercell has %d operations, the primitive description has %d (brute force); lattice %s" % (len(crys.G), len(GP), np.array(crys.lattice).tolist()))
    cP = library_primitive(case["recipe"], Lp, ap, len(basis))
    require(len(cP.G) == len(crys.G), lambda: "Crystal(primitive) has %d operations but Crystal(supercell) has %d" % (len(cP.G), len(crys.G)))
    require([len(sp) for sp in cP.basis] == countsP, lambda: "Crystal(primitive description) changed the atom counts to %s" % [len(sp) for sp in cP.basis])
    classes.append("minkowski" if geom2.is_minkowski(crys.lattice) else "pairwise_only")
    offdiag = bool(np.any(M != np.diag(np.diag(M))))
    classes.append("M_nondiagonal" if offdiag else "M_diagonal")
    if any(x != 0 for x in case["noise"]):
        classes.append("noisy")
    nt = offdiag or abs(det) in (4, 6)
    return {"key": canon([case["recipe"]["lattice"], case["recipe"]["basis"], case["M"], case["order"], case["shift"], case["noise"]]),
            "nontrivial": nt, "classes": classes,
            "sample": {"crystal": case["recipe"]["name"], "P_lattice": Lp.tolist(), "P_atoms": [[c, u.tolist()] for c, u in ap], "M": case["M"],
                       "shift": case["shift"], "supercell_atoms": sum(len(sp) for sp in basis), "order_G": len(crys.G), "reduced_lattice": np.array(crys.lattice).tolist()}}


def run(ctx):
    def fn(case):
        info = check(case)
        if info.get("excluded"):
            ctx.exclude(info["excluded"])
        return info
    ctx.known(replay)
    ctx.corpus(fn)
    ctx.note("EXCLUDE_R12", bool(EXCLUDE_R12))
    ctx.note("EXCLUDE_R14B", bool(EXCLUDE_R14B))
    # catalogue: every structure of the test-suite in three fixed supercells, atoms in construction order, no shift, no noise
    cat = []
    for r in cs.catalogue():
        d = len(r["lattice"])
        for M3 in ([[2, 0, 0], [0, 1, 0], [0, 0, 1]], [[1, 1, 0], [-1, 1, 0], [0, 0, 1]], [[2, 1, 0], [0, 2, 0], [0, 0, 1]]):
            cat.append({"recipe": {"name": r["name"], "lattice": r["lattice"], "basis": r["basis"]}, "M": [row[:d] for row in M3[:d]],
                        "order": [0] * NKEYS, "shift": [0.] * d, "noise": [0] * NKEYS})
    ctx.cases([c for i, c in enumerate(cat) if ctx.mine(i)], fn, label="catalogue")
    # hexagonal family x dense presentations: Hypothesis re-uses most of a previous example when it draws the next one, so the number
    # of DISTINCT supercell matrices per run is small; this family enumerates matrices from a PRNG that is a pure function of
    # VERIF_SEED (entries -2..2, |det| 2..6), for lattices where the reduction has to take the three-vector step (R14b).
    rng = np.random.default_rng(1000 + ctx.seed)
    hexfam = []
    per = 10 if ctx.quick else 120
    for r in cs.catalogue(["HCP", "HCPoct", "omega", "romega"]):
        for f in (1.0, 1.25, 0.8):
            L = np.array(r["lattice"], dtype=float)
            L[:, 2] *= f
            got = 0
            while got < per:
                M = rng.integers(-2, 3, size=(3, 3))
                if not 2 <= abs(int(round(np.linalg.det(M)))) <= 6:
                    continue
                got += 1
                hexfam.append({"recipe": {"name": r["name"], "lattice": L.tolist(), "basis": r["basis"]}, "M": M.tolist(),
                               "order": [int(x) for x in rng.integers(0, 1000, size=NKEYS)], "shift": [0.] * 3, "noise": [0] * NKEYS})
    ctx.cases([c for i, c in enumerate(hexfam) if ctx.mine(i)], fn, label="hexagonal_dense")
    ctx.given(cases(), fn, quick=200, thorough=9000)


def replay(case):
    """replay never excludes: a witness of R12 must show its failure"""
    try:
        return check(case, exclude=False)
    except (Violation, HarnessError):
        raise
    except Exception as e:
        tb = sys.exc_info()[2]
        frame = core.library_frame(tb)
        if frame is None or core.innermost_is_harness(tb):
            raise
        raise Violation("unexpected %s in %s: %s" % (type(e).__name__, frame, str(e)[:300]))
