"""C04  Results are invariant under reference choices and scale with rates."""
import numpy as np
from hypothesis import strategies as st

from ..core import Violation, HarnessError, require, canon, known_ids
from ..strategies import crystals as cs, networks as nw, vacancy as vs, data as dt
from ..oracles import geom
from . import c02

ID = "C04"
RULE = ("Hypothesis draws a base case (interstitial as C02, or vacancy-mediated: crystal, percolating network, Nthermo, prefactors and energies "
        "for all twelve input lists, kT) and one transformation with random parameters: (a) all energies of one species (interstitial / "
        "vacancy / solute) and of its transition states shifted by a constant; (b) site and transition prefactors of the species scaled "
        "together; (c) all energies and kT scaled together (vacancy-mediated); (d) every transition-state prefactor multiplied by alpha; "
        "(e) an orbit of sites displaced inside the cell along its symmetry-invariant directions (amplitude <= 0.04) with the jump network "
        "rebuilt from the same (i, j, R) topology (interstitial; for the vacancy-mediated calculator every displaceable orbit has origin "
        "states, which is known finding R11, reported under C01).  Oracle (metamorphic): results equal for (a,b,c,e), multiplied by alpha "
        "for (d).  Non-trivial: parameter not neutral (|shift| > 0.1, scale outside [0.9,1.1], |displacement| > 0.01) and, for (e), a "
        "non-empty vector basis; distinct by (base case, transformation).")
ASSUMPTIONS = ["tolerance 1e-9 (interstitial, pure linear algebra); 1e-7 x scale for vacancy-mediated (a-d) (the Green function is recomputed for shifted vacancy data), decided by "
               "mesh refinement when origin states are present",
               "(e) keeps the symmetry group: cases where the displaced crystal has a different number of operations are discarded and counted"]
SHARDS = {"quick": 4, "thorough": 16}
EXCLUDE_R11 = "R11" in known_ids("known")
KEYS = ("preV", "eneV", "preS", "eneS", "preSV", "eneSV", "preT0", "eneT0", "preT1", "eneT1", "preT2", "eneT2")


@st.composite
def cases(draw):
    kind = draw(st.sampled_from(["interstitial", "vacancy", "vacancy"]))
    par = float(np.round(draw(st.floats(0.2, 3.0)), 3))
    if draw(st.floats(0, 1)) < 0.3:
        par = draw(st.sampled_from([1e-12, 1e-9, 1e-5, 1e4, 1e9]))   # extreme but valid scalings
    shift = float(np.round(draw(st.floats(-3, 3)), 3))
    if kind == "interstitial":
        base = draw(c02.cases(max_mobile=6))
        base["kind"] = kind
        base["transform"] = draw(st.sampled_from(["a", "b", "d", "e", "e"]))
        base["par"], base["shift"] = par, shift
        base["disp"] = [float(np.round(draw(st.floats(-0.04, 0.04)), 4)) for _ in range(3)]
        base["orbit"] = draw(st.integers(0, 10))
        return base
    setup = draw(vs.setups())
    crys, sl, jn, calc = vs.calculator(setup)
    n = len(sl)
    d = {}
    d["preV"] = [draw(dt.prefactor()) for _ in range(n)]
    d["eneV"] = [draw(dt.energy(0, 1.5)) for _ in range(n)]
    d["preS"] = [draw(dt.prefactor()) for _ in range(n)]
    d["eneS"] = [draw(dt.energy(0, 1.5)) for _ in range(n)]
    d["preSV"] = [draw(dt.prefactor()) for _ in range(calc.thermo.Nstars)]
    d["eneSV"] = [draw(dt.energy(-1, 1)) for _ in range(calc.thermo.Nstars)]
    d["preT0"] = [draw(dt.prefactor()) for _ in jn]
    d["eneT0"] = [float(np.round(max(d["eneV"][a], d["eneV"][b]) + draw(dt.barrier(0.2, 2)), 4)) for (a, b) in calc.omega0vacancyWyckoff]
    tot = np.array([d["eneS"][s] + d["eneV"][v] for (s, v) in calc.kineticsvWyckoff])
    for t, k in enumerate(calc.thermo2kin):
        tot[k] += d["eneSV"][t]
    d["preT1"] = [draw(dt.prefactor()) for _ in calc.om1_jn]
    d["eneT1"] = [float(np.round(max(tot[a], tot[b]) + draw(dt.barrier(0.2, 2)), 4)) for (a, b) in calc.om1_SP]
    d["preT2"] = [draw(dt.prefactor()) for _ in calc.om2_jn]
    d["eneT2"] = [float(np.round(max(tot[a], tot[b]) + draw(dt.barrier(0.2, 2)), 4)) for (a, b) in calc.om2_SP]
    return {"kind": kind, "setup": setup, "d": d, "kT": draw(st.sampled_from([0.5, 1.0, 2.0])),
            "transform": draw(st.sampled_from(["aV", "aS", "bV", "bS", "c", "d"])), "par": par, "shift": shift}


def vm_eval(calc, d, kT):
    dd = {k: np.array(d[k], dtype=float) for k in KEYS}
    return calc.Lij(*calc.preene2betafree(kT, **dd))


def vm_transform(d, kT, tr, par, shift):
    e = {k: list(v) for k, v in d.items()}
    factor = 1.0
    if tr == "aV":
        for k in ("eneV", "eneT0", "eneT1", "eneT2"):
            e[k] = [x + shift for x in e[k]]
    elif tr == "aS":
        for k in ("eneS", "eneT1", "eneT2"):
            e[k] = [x + shift for x in e[k]]
    elif tr == "bV":
        for k in ("preV", "preT0", "preT1", "preT2"):
            e[k] = [x * par for x in e[k]]
    elif tr == "bS":
        for k in ("preS", "preT1", "preT2"):
            e[k] = [x * par for x in e[k]]
    elif tr == "c":
        for k in KEYS:
            if k.startswith("ene"):
                e[k] = [x * par for x in e[k]]
        kT = kT * par
    elif tr == "d":
        for k in ("preT0", "preT1", "preT2"):
            e[k] = [x * par for x in e[k]]
        factor = par
    return e, kT, factor


def displaced(case, crys, sl, jn):
    """crystal with one orbit of the diffusing species displaced along its invariant directions; None if not applicable"""
    from onsager import crystal
    chem = case["chem"]
    orbit = sl[case["orbit"] % len(sl)]
    i0 = orbit[0]
    L, atoms = cs.atoms_of(crys)
    ops = geom.space_group(L, atoms)
    idx = [n for n, (c, u) in enumerate(atoms) if c == chem]
    stab = [geom.cartrot(L, op[0]) for op in ops if op[2][idx[i0]] == idx[i0] and
            np.abs(geom.wrap(op[0] @ atoms[idx[i0]][1] + op[1] - atoms[idx[i0]][1])).max() < 1e-6]
    # ops whose permutation fixes the atom (translation included): the site stabiliser
    V = geom.invariant_subspace(stab)
    if V.shape[1] == 0:
        return None
    amp = np.array(case["disp"][:V.shape[1]])
    dcart = V @ amp
    if np.linalg.norm(dcart) < 1e-4:
        return None
    Linv = np.linalg.inv(L)
    newbasis = [[np.array(u) for u in sp] for sp in crys.basis]
    delta = [np.zeros(crys.dim) for _ in crys.basis[chem]]   # Cartesian displacement applied to every site of the species
    for op in ops:
        tgt = op[2][idx[i0]]
        k = idx.index(tgt)
        delta[k] = geom.cartrot(L, op[0]) @ dcart
        newbasis[chem][k] = np.array(crys.basis[chem][k]) + Linv @ delta[k]
    c2 = crystal.Crystal(np.array(crys.lattice), newbasis, chemistry=list(crys.chemistry), noreduce=True)
    return c2, float(np.linalg.norm(dcart)), delta


def check(case):
    tr = case["transform"]
    if case["kind"] == "interstitial":
        from onsager import OnsagerCalc
        crys, sl, jn, diff = c02.diffuser(case)
        if not jn:
            return {"classes": ["empty_network"], "nontrivial": False}
        if len(case["pre"]) != len(sl) or len(case["preT"]) != len(jn):
            raise HarnessError("stale case")
        pre, ene, preT, eneT = [list(case[k]) for k in ("pre", "ene", "preT", "eneT")]
        D = diff.diffusivity(pre, ene, preT, eneT)
        from ..oracles import interstitial_ref as ref
        rho, jumps = ref.rates_from_data(jn, nw.invmap(sl), pre, ene, preT, eneT)
        scale = max(np.abs(D).max(), np.abs(ref.assemble(rho, jumps, crys.dim)[2]).max())
        classes = cs.describe(crys) + ["interstitial", "transform_" + tr, "NV%d" % min(diff.NV, 3)]
        factor, nt = 1.0, False
        if tr == "a":
            D2 = diff.diffusivity(pre, [x + case["shift"] for x in ene], preT, [x + case["shift"] for x in eneT])
            nt = abs(case["shift"]) > 0.1
        elif tr == "b":
            D2 = diff.diffusivity([x * case["par"] for x in pre], ene, [x * case["par"] for x in preT], eneT)
            nt = not (0.9 <= case["par"] <= 1.1)
        elif tr == "d":
            D2 = diff.diffusivity(pre, ene, [x * case["par"] for x in preT], eneT)
            factor = case["par"]
            nt = not (0.9 <= case["par"] <= 1.1)
        else:
            out = displaced(case, crys, sl, jn)
            if out is None:
                return {"classes": classes + ["e_not_applicable"], "nontrivial": False}
            c2, amp, delta = out
            if len(c2.G) != len(crys.G) or c2.N != crys.N:
                return {"classes": classes + ["e_symmetry_changed_discarded"], "nontrivial": False}
            chem = case["chem"]
            # same (i, j, cell) topology: every jump vector changes by the difference of the two site displacements
            # (the constructor may wrap a displaced site back into the cell; that is a relabelling of the cell only)
            jn2 = [[((i, j), dx + delta[j] - delta[i]) for (i, j), dx in jl] for jl in jn]
            for jl in jn2:
                for (i, j), dx in jl:
                    u = c2.invlatt @ dx - c2.basis[chem][j] + c2.basis[chem][i]
                    if np.abs(u - np.round(u)).max() > 1e-8:
                        raise HarnessError("displaced jump vector does not connect sites of the displaced crystal")
            diff2 = OnsagerCalc.Interstitial(c2, chem, sl, jn2)
            D2 = diff2.diffusivity(pre, ene, preT, eneT)
            # physical displacement changes D through the jump vectors; the statement is about connectivity and rates only for
            # the *correlated* walk's topology: compare with the exact reference on the displaced geometry instead
            rho2, jumps2 = ref.rates_from_data(jn2, nw.invmap(sl), pre, ene, preT, eneT)
            Dref2 = ref.diffusivity(rho2, jumps2, crys.dim)
            e = np.abs(D2 - Dref2).max() / scale
            require(e <= 1e-9, lambda: "after displacing an orbit by %.4f inside the cell (same connectivity and rates) the diffusivity differs from the exact one by %.3e" % (amp, e))
            # and the invariance itself: long-time diffusivity depends only on the net displacements between periodic images
            e2 = np.abs(D2 - D).max() / scale
            require(e2 <= 1e-9, lambda: "displacing an orbit by %.4f inside the cell without changing connectivity or rates changes the diffusivity by %.3e: %s vs %s"
                    % (amp, e2, np.asarray(D).tolist(), np.asarray(D2).tolist()))
            return {"nontrivial": bool(amp > 0.01 and diff.NV > 0), "classes": classes + ["e_applied"],
                    "sample": {"kind": "interstitial", "transform": "e", "crystal": case["recipe"]["name"], "basis": case["recipe"]["basis"], "amplitude": amp}}
        e = np.abs(np.asarray(D2) - factor * np.asarray(D)).max() / (scale * max(factor, 1.0))
        require(e <= 1e-9, lambda: "interstitial diffusivity not %s under transformation %s (parameter %s): relative change %.3e" %
                ("invariant" if factor == 1 else "scaled by alpha", tr, case["par"] if tr != "a" else case["shift"], e))
        return {"nontrivial": bool(nt), "classes": classes,
                "sample": {"kind": "interstitial", "transform": tr, "par": case["par"], "shift": case["shift"], "crystal": case["recipe"]["name"]}}
    crys, sl, jn, calc = vs.calculator(case["setup"])
    d = case["d"]
    if len(d["preV"]) != len(sl) or len(d["preT1"]) != len(calc.om1_jn) or len(d["preT2"]) != len(calc.om2_jn) or len(d["preSV"]) != calc.thermo.Nstars:
        raise HarnessError("stale case")
    e2, kT2, factor = vm_transform(d, case["kT"], tr, case["par"], case["shift"])
    classes = cs.describe(crys) + vs.describe(calc) + ["vacancy", "transform_" + tr]

    def resid(c):
        A = vm_eval(c, d, case["kT"])
        B = vm_eval(c, e2, kT2)
        sc = max(np.abs(np.asarray(x)).max() for x in A) * max(factor, 1.0)
        return max(np.abs(np.asarray(b) - factor * np.asarray(a)).max() for a, b in zip(A, B)) / sc
    r = resid(calc)
    if r > 1e-7:
        ok, r8 = (False, None)
        if vs.has_originstates(calc):
            ok, r8 = vs.within_integration_accuracy(case["setup"], resid, r, 1e-7)
            if ok:
                classes.append("integration_limited")
        require(ok, lambda: "vacancy-mediated coefficients not %s under transformation %s (shift %s, factor %s): relative change %.3e (refined mesh: %s)"
                % ("invariant" if factor == 1 else "scaled by alpha", tr, case["shift"], case["par"], r, r8))
    nt = abs(case["shift"]) > 0.1 if tr in ("aV", "aS") else not (0.9 <= case["par"] <= 1.1)
    return {"nontrivial": bool(nt), "classes": classes,
            "sample": {"kind": "vacancy", "transform": tr, "par": case["par"], "shift": case["shift"], "crystal": case["setup"]["recipe"]["name"], "Nthermo": case["setup"]["Nthermo"], "residual": r}}


def run(ctx):
    ctx.corpus(check)
    ctx.given(cases(), check, quick=100, thorough=3000, shrink=not ctx.quick)


def replay(case):
    check(case)
