"""C34  Kinetic barriers obey detailed balance."""
import collections

import numpy as np
from hypothesis import strategies as st

from ..core import Violation, HarnessError, require, canon
from ..strategies import clusterexp as cx

ID = "C34"
RULE = ("Hypothesis draws a sampler setup with a jump network (3D catalogue/generated crystal, optional spectators with random occupation, "
        "supercell matrices incl. non-diagonal / negative determinant with 2..16 mobile sites, cluster shell/order, values and KRA values "
        "from a pool of distinct irrational-offset floats, scalar or per-class KRA, optional TS clusters, optional vacancy with vacancy "
        "clusters) and 1-4 occupations. For every transition ((i,j),Q,dx) the sampler reports, the harness builds the final configuration "
        "itself (atom i->j; with a vacancy: vacancy i->j, occupant of j -> i and a sampler rebuilt on a supercell whose vacancy sits at j, "
        "as the test-suite does), starts a second sampler on it, and requires exactly the reverse transition ((j,i), -dx) to be reported "
        "there with Q - Q_rev = E(final) - E(initial), energies taken from freshly started samplers; reported transitions must be allowed "
        "by the occupation (i occupied, j empty; with a vacancy i is the vacancy) and all allowed jumps must be reported. "
        "quick/thorough also run ALL occupations of catalogue supercells with <=10 mobile sites. Non-trivial: at least one checked "
        "transition has E(final) != E(initial); distinct by (setup, occupations).")
ASSUMPTIONS = ["a supercell with a vacancy and a jump network always carries the vacancy clusters of makeVacancyClusters (every caller does; "
               "jumpnetworkevaluator_vacancy raises KeyError otherwise), TS clusters for a vacancy are made from the vacancy clusters",
               "tolerance 1e-9 * max(1, sum |interaction values|): barriers and energies are sums of <= few thousand floats of magnitude <= 10",
               "energies E(initial), E(final) are MonteCarloSampler.E of freshly started samplers (their agreement with brute force is C32's subject)"]
SHARDS = {"quick": 4, "thorough": 16}

# Known finding (witnesses corpus/C34/known-selfaliased-*.json): when a supercell period is shorter than the cluster cutoff, so that
# a cluster contains a site together with its own periodic image, the barriers of jumpnetworkevaluator(_vacancy) violate detailed
# balance (all failures found lie in this region; supercells that alias only different sites of a cluster pass).  While the flag is
# set the generators reduce the cluster range of such setups until the predicate (own geometry, clusterexp.selfaliased) is false.
EXCLUDE_SELFALIASED = True
_excluded = collections.Counter()


@st.composite
def cases(draw, max_sites=16):
    setup = draw(cx.setups(max_sites=max_sites, jn="always", vacancy="maybe"))
    if EXCLUDE_SELFALIASED and cx.selfaliased(setup):
        _excluded["selfaliased-supercell"] += 1
        setup = cx.unalias(setup)
    b = cx.build(setup)
    nocc = draw(st.integers(1, 4))
    occs = [[draw(st.integers(0, 1)) for _ in range(b.nsites)] for _ in range(nocc)]
    return {"kind": "occs", "setup": setup, "occs": occs}


def dxkey(dx):
    return tuple(int(x) for x in np.round(np.asarray(dx, dtype=float) * 1e6))


class Tables(object):
    """(E, transitions) of freshly started samplers, memoised per (vacancy site, occupation); one sampler per vacancy site"""

    def __init__(self, b):
        self.b = b
        self.samplers = {}
        self.memo = {}

    def sampler(self, vac):
        if vac not in self.samplers:
            self.samplers[vac] = self.b.sampler(vac=vac)
        return self.samplers[vac]

    def get(self, vac, occ):
        key = (vac, tuple(int(x) for x in occ))
        if key not in self.memo:
            mc = self.sampler(vac)
            mc.start(np.array(occ, dtype=np.int64))
            ijlist, Qlist, dxlist = mc.transitions()
            require(len(ijlist) == len(Qlist) == len(dxlist), "transitions() returns lists of different lengths")
            self.memo[key] = (mc.E(), [((int(i), int(j)), float(Q), np.array(dx, dtype=float)) for (i, j), Q, dx in zip(ijlist, Qlist, dxlist)])
        return self.memo[key]


def check_occupation(b, T, occ, stats):
    """all transitions out of one occupation; occ already carries -1 at the vacancy"""
    vac = b.vacancy
    E1, trans = T.get(vac, occ)
    mc = T.sampler(vac)
    tol = 1e-9 * max(1., float(np.abs(mc.interactvalue).sum()))
    # allowed <=> reported
    if vac is None:
        allowed = [n for n, ((i, j), dx) in enumerate(mc.jumps) if occ[i] == 1 and occ[j] == 0]
    else:
        allowed = list(range(len(mc.jumps)))
        require(all(i == vac for (i, j), dx in mc.jumps), "a vacancy sampler lists a jump that does not start at the vacancy")
    require(len(trans) == len(allowed), lambda: "occupation %s: %d transitions reported but %d jumps are allowed by the occupation" % (list(occ), len(trans), len(allowed)))
    for ((i, j), Q, dx), n in zip(trans, allowed):
        (i0, j0), dx0 = mc.jumps[n]
        require((i, j) == (int(i0), int(j0)) and dxkey(dx) == dxkey(dx0), lambda: "occupation %s: reported transition %s is not the allowed jump %s" % (list(occ), ((i, j), dx.tolist()), ((i0, j0), np.asarray(dx0).tolist())))
    pairs = {}
    for (i, j), Q, dx in trans:
        require(np.isfinite(Q), lambda: "occupation %s: barrier of transition %s is not finite" % (list(occ), (i, j)))
        occ2 = list(occ)
        if vac is None:
            occ2[i], occ2[j] = 0, 1
            vac2 = None
        else:
            occ2[i], occ2[j] = occ[j], occ[i]
            vac2 = j
        E2, trans2 = T.get(vac2, occ2)
        rev = [(Q2, dx2) for (a, c), Q2, dx2 in trans2 if (a, c) == (j, i) and np.abs(dx2 + dx).max() < 1e-8]
        require(len(rev) == 1, lambda: "occupation %s, transition %s dx %s: the final configuration %s reports %d reverse transitions (%s -> %s with displacement %s); transitions there: %s"
                % (list(occ), (i, j), dx.tolist(), occ2, len(rev), j, i, (-dx).tolist(), [(ij, d.tolist()) for ij, _, d in trans2 if ij == (j, i)]))
        Q2 = rev[0][0]
        err = abs((Q - Q2) - (E2 - E1))
        require(err <= tol, lambda: "occupation %s, transition %s dx %s: Q_forward - Q_reverse = %r - %r = %r but E_final - E_initial = %r - %r = %r (difference %.3e)"
                % (list(occ), (i, j), dx.tolist(), Q, Q2, Q - Q2, E2, E1, E2 - E1, err))
        stats["checked"] += 1
        if abs(E2 - E1) > 1e-9:
            stats["nonzero"] += 1
        if i == j:
            stats["selfimage"] += 1
        pairs[(i, j)] = pairs.get((i, j), 0) + 1
    if any(v > 1 for v in pairs.values()):
        stats["multi_dx"] += 1


def check(case):
    b = cx.build(case["setup"])
    classes = cx.describe(b)
    if b.jumpnetwork is None:
        return {"classes": classes + ["no_jumpnetwork"], "nontrivial": False}
    T = Tables(b)
    stats = {"checked": 0, "nonzero": 0, "selfimage": 0, "multi_dx": 0}
    if case.get("kind") == "all":
        free = b.free_sites()
        n = len(free)
        if n > 10:
            raise HarnessError("exhaustive case with %d free sites" % n)
        for s in range(1 << n):
            occ = [0] * b.nsites
            for k, i in enumerate(free):
                occ[i] = (s >> k) & 1
            if b.vacancy is not None:
                occ[b.vacancy] = -1
            check_occupation(b, T, occ, stats)
        classes += ["all_occupations", "all_sites%02d" % n]
        nocc = 1 << n
    else:
        for bits in case["occs"]:
            occ = [int(x) for x in b.blank(bits)]
            check_occupation(b, T, occ, stats)
        nocc = len(case["occs"])
    mc = T.sampler(b.vacancy)
    if len(mc.jumps) == 0:
        classes.append("no_jumps_from_vacancy_site")
    if stats["selfimage"]:
        classes.append("jump_onto_own_image")
    if stats["multi_dx"]:
        classes.append("same_pair_several_displacements")
    classes.append("transitions%03d+" % (10 * min(stats["checked"] // 10, 20)))
    return {"key": canon([case.get("kind"), case["setup"], case.get("occs")]), "nontrivial": stats["nonzero"] > 0, "classes": classes,
            "sample": {"crystal": case["setup"]["recipe"]["name"], "super": case["setup"]["super"], "sites": b.nsites, "vacancy": b.vacancy, "occupations": nocc,
                       "jumps": len(mc.jumps), "TSclusters": cx.nclusters(b.tsclusters), "transitions_checked": stats["checked"], "with_energy_change": stats["nonzero"]}}


def all_cases(ctx):
    step = 2 if ctx.quick else 1
    out = [{"kind": "all", "setup": s} for s in cx.small_setups(max_sites=10, jn=True, select=lambda n: n % step == 0 and ctx.mine(n // step)) if s["jn_shell"]]
    if EXCLUDE_SELFALIASED:
        _excluded["selfaliased-supercell"] += sum(1 for c in out if cx.selfaliased(c["setup"]))
        out = [c for c in out if not cx.selfaliased(c["setup"])]
    if ctx.quick:
        out = [c for c in out if cx.build(c["setup"]).nsites <= 8]
    return out


def run(ctx):
    ctx.corpus(check)
    ctx.known(check)
    ctx.cases(all_cases(ctx), check, label="all-occupations")
    ctx.note("bounded_exhaustive", "catalogue supercells (<=10 mobile sites; quick: every second, <=8 sites), with and without vacancy: every occupation, every reported transition")
    ctx.given(cases(max_sites=16), check, quick=300, thorough=6000)
    if not ctx.quick:
        ctx.given(cases(max_sites=24), check, quick=1, thorough=1200, salt=1)
    for k, v in _excluded.items():
        ctx.exclude(k, v)


def replay(case):
    check(case)
