"""C28  Supercell occupancy bookkeeping stays consistent over any edit history."""
import itertools

import numpy as np
from hypothesis import strategies as st

from ..core import Violation, HarnessError, require, canon
from ..strategies import crystals as cs, supercells as sc
from ..oracles import supercell_model as sm

ID = "C28"
RULE = ("A case is a small supercell setup (3D crystal recipe or catalogue structure, integer supercell matrix with |det|<=4 and <=12 sites, "
        "interstitial species set, 0..2 solutes) plus a history: a list of op dicts (set a site by index through setocc / __setitem__ / by a "
        "displaced periodic-image position, undeclared species, fillperiodic with and without Wyckoff expansion, valid and non-bijective "
        "reorder, multiplication by a supercell operation in place / left / right, copy, POSCAR written and read back into a newly built, "
        "copied or dirty supercell).  Hypothesis draws histories (indices taken modulo the current sizes); the thorough tier also enumerates "
        "every history of length <=4 over a ~20-letter alphabet on two 2-site supercells (quick: length <=2).  The history is interpreted "
        "against the real Supercell and against a dictionary model written from scratch (site->species, per-species ordered site lists; "
        "operations act through brute-force geometry: nearest-site images, orbits by union-find); after every step occ, chemorder, __sane__(), "
        "occposlist() and indexing must equal the model, every species -1..Nchem-1 must be accepted, anything else must raise IndexError "
        "and change nothing, a non-bijective reorder must raise ValueError and change nothing, earlier copies must stay untouched, and a "
        "POSCAR round trip must reproduce occupation and ordering.  Non-trivial: a solute was actually placed and a non-identity reorder or "
        "a POSCAR round trip happened; distinct by (setup, history).")
ASSUMPTIONS = ["site indices are non-negative (python's negative indices alias sites; the library does not normalise them and no caller uses them)",
               "reorder is only called with one list per species of the right length (the documented failure mode is a non-permutation)",
               "the order in which fillperiodic visits the sites of an orbit is unspecified; any order of the newly converted sites is accepted",
               "same-position tolerance 1e-6 of the longest cell vector: generated sites are >= 0.2 shortest-lattice-vector apart, round-off is ~1e-15",
               "the position key is displaced by 0.3 x the smallest site separation measured in direct coordinates (the metric Supercell.index uses)"]
SHARDS = {"quick": 4, "thorough": 16}

# known finding R7 (setocc range check): see strategies/supercells.py.  While True, no species from the region where
# the library's range check disagrees with the declared range is requested by the generators of this module.
EXCLUDE_R7 = sc.EXCLUDE_R7

SIG_RANGE = "species range"


# ----------------------------------------------------------------------------------------------------------
# per-setup context (geometry by brute force, computed once per setup and process)
# ----------------------------------------------------------------------------------------------------------
class Context(object):
    pass


_ctx = {}


def context(setup):
    key = canon([setup["recipe"]["lattice"], setup["recipe"]["basis"], setup["M"], setup["interstitial"], setup["nsolute"]])
    if key in _ctx:
        return _ctx[key]
    if len(_ctx) > 300:
        _ctx.clear()
    C = Context()
    C.setup = setup
    C.crys = cs.build(setup["recipe"])
    C.atoms = sc.crystal_atoms(C.crys)
    C.M = np.array(setup["M"], dtype=int)
    C.pristine = sc.build(setup)
    sup = C.pristine
    C.ncrys = len(C.crys.basis)
    C.nchem = C.ncrys + setup["nsolute"]
    C.nsites = len(C.atoms) * abs(sm.int_det(C.M))
    C.suplattice = np.array(C.crys.lattice, dtype=float) @ C.M
    require(sup.Nchem == C.nchem, lambda: "Nchem is %s for %d crystal species and %d solutes" % (sup.Nchem, C.ncrys, setup["nsolute"]))
    require(len(sup.chemorder) == C.nchem and all(len(l) == 0 for l in sup.chemorder) and len(sup.occ) == C.nsites and all(int(x) == -1 for x in sup.occ),
            "a newly constructed supercell is not empty with one (empty) ordering list per species")
    err = sm.layout_error(C.crys.lattice, C.atoms, C.M, sup.pos)
    require(err is None, lambda: "site layout: " + err)
    C.pos = np.array(sup.pos, dtype=float)
    C.dmin = sm.min_direct_separation(C.pos)
    ops = [(np.asarray(g.rot), np.asarray(g.trans)) for g in C.crys.G]
    labels, err = sm.atom_orbits(C.crys.lattice, C.atoms, ops)
    if err is not None:
        raise HarnessError("crystal group is not a symmetry of the crystal (C18's subject): " + err)
    C.orbit = labels
    C.G = sc.sorted_ops(sup)
    C.perms = {}
    _ctx[key] = C
    return C


def geometric_perm(C, k):
    """where every site goes under operation k, from its rotation and translation only (nearest-site search)"""
    if k not in C.perms:
        g = C.G[k]
        p = sm.op_perm(C.pos, C.suplattice, np.asarray(g.rot), np.asarray(g.trans))
        require(p is not None, lambda: "operation (rot %s, trans %s) of the supercell does not map the sites onto the sites"
                % (np.asarray(g.rot).tolist(), np.asarray(g.trans).tolist()))
        C.perms[k] = p
    return C.perms[k]


def fresh(C, how):
    """an empty supercell: 'new' runs the constructor, 'copy' copies the per-setup pristine object (checked to be still pristine)"""
    if how == "new":
        return sc.build(C.setup)
    p = C.pristine
    require(all(int(x) == -1 for x in p.occ) and all(len(l) == 0 for l in p.chemorder) and len(p.chemorder) == C.nchem,
            "an empty supercell changed although only copies of it were edited (copy shares state)")
    return p.copy()


# ----------------------------------------------------------------------------------------------------------
# observation and comparison
# ----------------------------------------------------------------------------------------------------------
def observe(sup):
    return [int(x) for x in sup.occ], [[int(i) for i in l] for l in sup.chemorder]


def compare(C, sup, model, where):
    occ, order = observe(sup)
    mocc, morder = model.state()
    require(occ == mocc, lambda: "%s: occupation is %s, the edit history gives %s" % (where, occ, mocc))
    require(order == morder, lambda: "%s: per-species ordering is %s, the edit history gives %s (occupation %s)" % (where, order, morder, occ))
    require(bool(sup.__sane__()), lambda: "%s: __sane__() is False for occ %s chemorder %s" % (where, occ, order))
    opl = sup.occposlist()
    require(len(opl) == C.nchem, lambda: "%s: occposlist has %d species lists, Nchem = %d" % (where, len(opl), C.nchem))
    for c, (pl, l) in enumerate(zip(opl, morder)):
        require(len(pl) == len(l) and all(np.array_equal(np.asarray(u), C.pos[i]) for u, i in zip(pl, l)),
                lambda: "%s: occposlist()[%d] does not list the positions of the sites %s" % (where, c, l))
    for i in range(C.nsites):
        require(int(sup[i]) == mocc[i], lambda: "%s: sup[%d] is %s, expected %d" % (where, i, sup[i], mocc[i]))
    if C.nsites:
        i = (len(morder[0]) + 3 * sum(len(l) for l in morder)) % C.nsites  # some site, chosen from the state only
        require(int(sup[C.pos[i].copy()]) == mocc[i], lambda: "%s: indexing by the position of site %d gives %s, expected %d" % (where, i, sup[C.pos[i]], mocc[i]))


def unchanged(kept, where):
    for obj, snap, label in kept:
        now = observe(obj)
        require(now == snap, lambda: "%s: %s changed from %s to %s although it was not touched" % (where, label, snap, now))


# ----------------------------------------------------------------------------------------------------------
# interpretation of one history
# ----------------------------------------------------------------------------------------------------------
def _mapping(model, code, valid):
    """reorder argument from a list of ints: a permutation per species; when valid is False the first species list with
    >= 2 entries gets a repeated entry (not a bijection).  Returns (mapping, really_valid, identity)"""
    mapping, off = [], 0
    for l in model.order:
        mapping.append(sm.lehmer(code, len(l), off))
        off += len(l)
    ok = True
    if not valid:
        for mp in mapping:
            if len(mp) >= 2:
                mp[1] = mp[0]
                ok = False
                break
    ident = all(mp == list(range(len(mp))) for mp in mapping)
    return mapping, ok, ident


def check(case):
    setup, ops = case["setup"], case["ops"]
    C = context(setup)
    cur = fresh(C, case.get("start", "copy"))
    model = sm.OccModel(C.nsites, C.nchem)
    kept = []
    classes = set(sc.describe(setup, cur))
    flags = {"solute": False, "reorder": False, "poscar": False}
    compare(C, cur, model, "start")
    for step, op in enumerate(ops):
        kind = op["op"]
        where = "step %d (%s)" % (step, canon(op))
        if kind == "set":
            i, c, via = op["i"] % C.nsites, int(op["c"]), op.get("via", "setocc")
            declared = model.declared(c)
            before = model.occ[i]
            try:
                if via == "setocc":
                    cur.setocc(i, c)
                elif via == "item":
                    cur[i] = c
                else:
                    d = np.array(op.get("d", [0, 0, 0]), dtype=float)
                    if np.linalg.norm(d) > 0:
                        d *= 0.3 * C.dmin / np.linalg.norm(d)
                    cur[C.pos[i] + d + np.array(op.get("shift", [0, 0, 0]), dtype=float)] = c
            except IndexError as e:
                if declared:
                    raise Violation("%s: %s: declared species %d (Nchem=%d: %d crystal species + %d solutes) is rejected on a site holding %d: IndexError %s"
                                    % (where, SIG_RANGE, c, C.nchem, C.ncrys, setup["nsolute"], before, e))
                classes.add("undeclared_refused")
                classes.add("undeclared_refused_on_occupied" if before >= 0 else "undeclared_refused_on_vacant")
                try:
                    compare(C, cur, model, where)
                except Violation as v:
                    raise Violation("%s: undeclared species %d was refused but the state changed; %s" % (SIG_RANGE, c, v))
            else:
                if not declared:
                    raise Violation("%s: %s: undeclared species %d (declared: -1..%d) is accepted on a site holding %d; now occ %s chemorder %s sane %s"
                                    % (where, SIG_RANGE, c, C.nchem - 1, before, observe(cur)[0], observe(cur)[1], cur.__sane__()))
                changed = model.set(i, c)
                classes.add("set_" + via)
                if c >= C.ncrys and changed:
                    flags["solute"] = True
                    classes.add("solute%d_placed" % (c - C.ncrys + 1))
                if c == -1 and changed:
                    classes.add("site_vacated")
                if changed and before >= 0 and c >= 0:
                    classes.add("species_replaced")
        elif kind == "fill":
            a = op["k"] % len(C.atoms)
            ci = C.crys.atomindices[a]
            wy = bool(op.get("wyckoff", True))
            ret = cur.fillperiodic(ci) if (wy and op.get("default", False)) else cur.fillperiodic(ci, Wyckoff=wy)
            require(ret is cur, "%s: fillperiodic does not return the supercell" % where)
            N = len(C.atoms)
            members = [b for b in range(N) if (C.orbit[b] == C.orbit[a] if wy else b == a)]
            sites = [n * N + b for n in range(C.nsites // N) for b in members]
            err = model.fill(sites, ci[0], observe(cur)[1][ci[0]])
            require(err is None, lambda: "%s: %s" % (where, err))
            classes.add("fill_wyckoff" if wy else "fill_single")
            if len(members) > 1:
                classes.add("fill_multi_atom_orbit")
        elif kind == "reorder":
            mapping, ok, ident = _mapping(model, op.get("code", []), bool(op.get("valid", True)))
            if ok:
                ret = cur.reorder(mapping)
                require(ret is cur, "%s: reorder does not return the supercell" % where)
                require(model.reorder(mapping), "model refused a permutation")  # cannot happen
                classes.add("reorder_identity" if ident else "reorder_valid")
                if not ident:
                    flags["reorder"] = True
            else:
                try:
                    cur.reorder(mapping)
                except ValueError:
                    classes.add("reorder_invalid_refused")
                else:
                    raise Violation("%s: reorder accepted the non-bijective mapping %s; ordering now %s" % (where, mapping, observe(cur)[1]))
        elif kind == "mul":
            k = op["k"] % len(C.G)
            g = C.G[k]
            perm = geometric_perm(C, k)
            mode = op.get("mode", "imul")
            snap = observe(cur)
            if mode == "imul":
                old = cur
                cur *= g
                require(cur is old, "%s: in-place multiplication returned a different object" % where)
            else:
                new = cur * g if mode == "mul" else g * cur
                require(new is not cur, "%s: multiplication returned the same object" % where)
                kept.append((cur, snap, "the supercell that was multiplied (not in place) at step %d" % step))
                cur = new
            model.permute(perm)
            classes.add("mul_" + mode)
            if perm != list(range(C.nsites)):
                classes.add("mul_moves_sites")
        elif kind == "copy":
            cp = cur.copy()
            require(cp is not cur, "%s: copy returned the same object" % where)
            require(cp == cur and not (cp != cur), "%s: a copy does not compare equal to its original" % where)
            compare(C, cp, model, where + " [the copy]")
            if op.get("keep", "copy") == "copy":
                kept.append((cur, observe(cur), "the original copied at step %d" % step))
                cur = cp
            else:
                kept.append((cp, observe(cp), "the copy made at step %d" % step))
            classes.add("copy")
        elif kind == "poscar":
            name = op.get("name", None)
            stoich = bool(op.get("stoich", True))
            text = cur.POSCAR(name, stoich) if (name is not None or not stoich) else cur.POSCAR()
            check_poscar_text(C, text, model, where)
            target = op.get("target", "copy")
            if target == "dirty":
                tgt = fresh(C, "copy")
                for j in range(C.nsites):  # some other occupation, through the crystal's own species only
                    if j % 2 == 0:
                        tgt.setocc(j, C.crys.atomindices[j % len(C.atoms)][0])
            else:
                tgt = fresh(C, target)
            back = tgt.POSCAR_occ(text)
            require(back == text.split("\n")[0], lambda: "%s: POSCAR_occ returned the name %r, the first line is %r" % (where, back, text.split("\n")[0]))
            compare(C, tgt, model, where + " [supercell read back from the POSCAR]")
            require(tgt == cur and cur == tgt, "%s: the supercell read back from the POSCAR does not compare equal to the one written" % where)
            if op.get("keep", "read") == "read":
                kept.append((cur, observe(cur), "the supercell written as POSCAR at step %d" % step))
                cur = tgt
            else:
                kept.append((tgt, observe(tgt), "the supercell read from the POSCAR at step %d" % step))
            classes.add("poscar_into_" + target)
            if sum(model.counts()) > 0:
                flags["poscar"] = True
                if len([n for n in model.counts() if n > 0]) > 1:
                    classes.add("poscar_multispecies")
                if any(n == 0 for n in model.counts()[:-1]) and any(n > 0 for n in model.counts()[1:]):
                    classes.add("poscar_with_empty_species_before_filled")
        else:
            raise HarnessError("unknown op %r" % (kind,))
        if not model.consistent():
            raise HarnessError("model became inconsistent at " + where)
        compare(C, cur, model, where)
        kept = kept[-4:]
        unchanged(kept, where)
    n = len(ops)
    classes.add("len<=2" if n <= 2 else "len<=4" if n <= 4 else "len<=8" if n <= 8 else "len>8")
    nt = flags["solute"] and (flags["reorder"] or flags["poscar"])
    return {"key": canon([setup["recipe"]["lattice"], setup["recipe"]["basis"], setup["M"], setup["interstitial"], setup["nsolute"], case.get("start", "copy"), ops]),
            "nontrivial": nt, "classes": sorted(classes),
            "sample": {"crystal": setup["recipe"]["name"], "M": setup["M"], "interstitial": setup["interstitial"], "nsolute": setup["nsolute"],
                       "ops": ops, "final_occ": model.state()[0], "final_order": model.state()[1]}}


def check_poscar_text(C, text, model, where):
    """what was written: VASP layout with the supercell vectors, one count per species, the occupied positions in presentation order"""
    try:
        name, latt, counts, pos, rest = sm.parse_poscar(text)
    except (ValueError, IndexError) as e:
        raise Violation("%s: the POSCAR text is not in the VASP layout (%s): %r" % (where, e, text[:400]))
    require(text.endswith("\n") and not rest, "%s: POSCAR has trailing content or no final newline" % where)
    require(counts == model.counts(), lambda: "%s: POSCAR lists the species counts %s, the ordering has %s" % (where, counts, model.counts()))
    scale = np.abs(C.suplattice).max()
    require(latt.shape == (3, 3) and np.abs(latt - C.suplattice).max() < 1e-12 * max(scale, 1.), "%s: POSCAR lattice vectors are not the supercell vectors" % where)
    want = [i for l in model.order for i in l]
    require(len(pos) == len(want) and (len(want) == 0 or np.abs(pos - C.pos[want]).max() < 1e-14),
            lambda: "%s: POSCAR positions are not the positions of the sites %s in this order" % (where, want))


# ----------------------------------------------------------------------------------------------------------
# generators
# ----------------------------------------------------------------------------------------------------------
_small = st.integers(0, 23)


@st.composite
def op_dicts(draw, ncrys, nsol, counter):
    kind = draw(st.sampled_from(["set", "set", "set", "set", "set", "badset", "fill", "reorder", "reorder", "badreorder", "mul", "mul", "copy", "poscar", "poscar"]))
    if kind in ("set", "badset"):
        pool = list(range(-1, ncrys + nsol)) if kind == "set" else [-2, -3, -7, ncrys + nsol, ncrys + nsol + 1, ncrys + nsol + 5]
        if kind == "set" and nsol:
            pool = pool + list(range(ncrys, ncrys + nsol)) * 2  # solutes are the interesting species
        c = sc.substitute(ncrys, nsol, draw(st.sampled_from(pool)), counter)
        op = {"op": "set", "i": draw(_small), "c": c, "via": draw(st.sampled_from(["setocc", "setocc", "item", "pos"]))}
        if op["via"] == "pos":
            op["d"] = [draw(st.integers(-1, 1)) for _ in range(3)]
            op["shift"] = [draw(st.integers(-2, 2)) for _ in range(3)]
        return op
    if kind == "fill":
        return {"op": "fill", "k": draw(_small), "wyckoff": draw(st.booleans()), "default": draw(st.booleans())}
    if kind in ("reorder", "badreorder"):
        return {"op": "reorder", "valid": kind == "reorder", "code": draw(st.lists(st.integers(0, 7), min_size=1, max_size=4).map(lambda l: [1 + l[0] % 7] + l[1:]))}
    if kind == "mul":
        return {"op": "mul", "k": draw(st.integers(0, 400)), "mode": draw(st.sampled_from(["imul", "imul", "mul", "rmul"]))}
    if kind == "copy":
        return {"op": "copy", "keep": draw(st.sampled_from(["copy", "orig"]))}
    return {"op": "poscar", "target": draw(st.sampled_from(["copy", "copy", "new", "dirty"])), "name": draw(st.sampled_from([None, "x", "two words"])),
            "stoich": draw(st.booleans()), "keep": draw(st.sampled_from(["read", "orig"]))}


@st.composite
def cases(draw, max_len=12):
    setup = draw(sc.setups(max_sites=12, max_det=4, max_mobile=3, max_other=2, nsolutes=(0, 1, 2, 2)))
    ncrys, nsol = len(setup["recipe"]["basis"]), setup["nsolute"]
    counter = [0]
    ops = draw(st.lists(op_dicts(ncrys, nsol, counter), min_size=1, max_size=max_len))
    if draw(st.integers(0, 2)) > 0:  # most histories start from a (partly) filled supercell, so that the ordering lists are long
        ops = [{"op": "fill", "k": draw(st.integers(0, 5)), "wyckoff": True}] + ops
    case = {"setup": setup, "start": draw(st.sampled_from(["copy", "copy", "new"])), "ops": ops}
    if counter[0]:
        case["excluded"] = {"R7": counter[0]}
    return case


# ---- bounded-exhaustive part -------------------------------------------------------------------------------
def tiny_setups():
    return [
        {"recipe": cs.CATALOGUE["SC"], "M": [[2, 0, 0], [0, 1, 0], [0, 0, 1]], "interstitial": [], "nsolute": 2},
        {"recipe": cs.CATALOGUE["B2o"], "M": [[1, 0, 0], [0, 1, 0], [0, 0, 1]], "interstitial": [1], "nsolute": 1},
    ]


def alphabet(setup, exclude_r7=None):
    """the letters of the bounded-exhaustive enumeration on a 2-site supercell; returns (letters, number of letters removed by the R7 exclusion)"""
    if exclude_r7 is None:
        exclude_r7 = sc.EXCLUDE_R7
    C = context(setup)
    ncrys, nsol = C.ncrys, setup["nsolute"]
    letters = []
    full = 0
    for i in range(C.nsites):
        for c in list(range(-1, C.nchem)) + [-2, C.nchem]:
            full += 1
            if exclude_r7 and sc.r7_region(ncrys, nsol, c):
                continue
            letters.append({"op": "set", "i": i, "c": c, "via": "setocc"})
    removed = full - len(letters)
    if not (exclude_r7 and sc.r7_region(ncrys, nsol, ncrys)):
        letters.append({"op": "set", "i": 1, "c": ncrys, "via": "pos", "d": [1, 0, -1], "shift": [1, 0, -1]})
    seen_orbits = set()
    for a in range(len(C.atoms)):
        if C.orbit[a] not in seen_orbits:
            seen_orbits.add(C.orbit[a])
            letters.append({"op": "fill", "k": a, "wyckoff": True})
    letters.append({"op": "reorder", "valid": True, "code": [1]})
    letters.append({"op": "reorder", "valid": False, "code": [0]})
    seen = set()
    for k in range(len(C.G)):  # one operation per distinct site permutation (first in canonical order)
        p = tuple(geometric_perm(C, k))
        if p not in seen:
            seen.add(p)
            letters.append({"op": "mul", "k": k, "mode": "imul"})
    letters.append({"op": "copy", "keep": "copy"})
    letters.append({"op": "poscar", "target": "copy", "name": "x", "stoich": True, "keep": "read"})
    return letters, removed


def enumerate_histories(setup, maxlen):
    letters, _ = alphabet(setup)
    for n in range(1, maxlen + 1):
        for word in itertools.product(letters, repeat=n):
            yield {"setup": setup, "start": "copy", "ops": list(word)}


def run(ctx):
    def counted(case):
        for k, n in case.get("excluded", {}).items():
            ctx.exclude(k, n)
        return check(case)

    ctx.corpus(check)
    ctx.known(check)
    maxlen = 2 if ctx.quick else 4
    for t, setup in enumerate(tiny_setups()):
        letters, removed = alphabet(setup)
        if removed:
            full = len(letters) + removed
            ctx.exclude("R7", sum(full ** n - len(letters) ** n for n in range(1, maxlen + 1)) if ctx.shard == 0 else 0)
        ctx.note("exhaustive_alphabet_%d" % t, {"letters": len(letters), "maxlen": maxlen, "setup": [setup["recipe"]["name"], setup["M"], setup["interstitial"], setup["nsolute"]]})
        ok = ctx.cases((c for i, c in enumerate(enumerate_histories(setup, maxlen)) if ctx.mine(i)), check, label="exhaustive%d" % t)
        if not ok:
            return
    if not ctx.quick:
        ctx.exhaustive = True
    ctx.given(cases(max_len=12), counted, quick=600, thorough=16000)


def replay(case):
    check(case)
