"""C33  Monte Carlo sampler state is a function of the occupation."""
import itertools

import numpy as np
from hypothesis import strategies as st

from ..core import Violation, HarnessError, require, canon
from ..strategies import clusterexp as cx

ID = "C33"
RULE = ("Hypothesis draws a sampler setup (3D catalogue/generated crystal with optional spectator species, supercell matrix with 1..24 mobile "
        "sites incl. non-diagonal and negative-determinant ones, cluster cutoff shell and order, values from a pool of distinct "
        "irrational-offset floats, optional constant term, optional jump network with KRA values and TS clusters, optional vacancy "
        "with vacancy clusters) and a history of ops (start with an occupation, single/multi-site update, trial) whose site indices are "
        "taken modulo the current occupied/unoccupied/free site lists; spawn = a compiled sampler is built from the history sampler's parameters (MonteCarloSampler_param) and updated on its own, which must leave the history sampler untouched. After every op the history sampler's E, occupied/unoccupied sets, "
        "occupation and clustercount are compared with (a) a second sampler instance started from scratch on a copy of the model "
        "occupation kept by the harness and (b) an independent recount of unoccupied sites per interaction; every trial and every update "
        "is compared with E(after)-E(before) of freshly started samplers. Thorough/quick also walk ALL occupations of catalogue "
        "supercells with <=10 mobile sites along a Gray path of single-site updates and, from every occupation, try and perform every "
        "multi-site update to every occupation within Hamming distance 2 (all occupations when <=6 sites) and its inverse, comparing the "
        "complete state each time. Non-trivial: at least one update changed a site and at least one trial/update energy change is "
        "non-zero; distinct by (setup, ops).")
ASSUMPTIONS = ["occsites and unoccsites of one call are disjoint lists of distinct non-vacancy sites (the docstring trusts the caller for this); "
               "sites that already have the requested occupation are allowed (the code guards them explicitly)",
               "tolerance 1e-9 * max(1, sum |interaction values|) for energy differences (sums of <= few thousand floats of magnitude <= 10); "
               "fresh-vs-history energies of the same occupation are required to be equal to the same tolerance",
               "ClusterSupercell is 3D only (documented 3x3 supercell matrix)"]
SHARDS = {"quick": 4, "thorough": 16}


# ------------------------------------------------------------------------------------------------
# generator
# ------------------------------------------------------------------------------------------------
_idx = st.integers(0, 63)


@st.composite
def op_strategy(draw, nsites):
    kind = draw(st.sampled_from(["update", "update", "update", "trial", "trial", "start"] + ["update", "trial", "spawn"]))
    if kind == "start":
        return {"op": "start", "bits": [draw(st.integers(0, 1)) for _ in range(nsites)]}
    mode = draw(st.sampled_from(["proper", "proper", "proper", "any"]))
    shape = draw(st.sampled_from(["on", "off", "swap", "multi", "multi"]))
    if shape == "on":
        on, off = [draw(_idx)], []
    elif shape == "off":
        on, off = [], [draw(_idx)]
    elif shape == "swap":
        on, off = [draw(_idx)], [draw(_idx)]
    else:
        on = draw(st.lists(_idx, min_size=0, max_size=4))
        off = draw(st.lists(_idx, min_size=0, max_size=4))
    return {"op": kind, "mode": mode, "on": on, "off": off}


@st.composite
def cases(draw, max_sites=16):
    setup = draw(cx.setups(max_sites=max_sites, jn="maybe", vacancy="maybe"))
    b = cx.build(setup)
    n = b.nsites
    first = {"op": "start", "bits": [draw(st.integers(0, 1)) for _ in range(n)]}
    ops = [first] + draw(st.lists(op_strategy(n), min_size=1, max_size=24))
    return {"kind": "history", "setup": setup, "ops": ops}


# ------------------------------------------------------------------------------------------------
# oracle helpers
# ------------------------------------------------------------------------------------------------
def incidence(mc, nsites):
    """A[m, i] = how often interaction m is listed for site i (independent reading of the sampler's static tables)"""
    A = np.zeros((len(mc.interactvalue), nsites), dtype=int)
    for i in range(nsites):
        for m in mc.siteinteract[i][:mc.Ninteract[i]]:
            A[int(m), i] += 1
    return A


def recount(A, occ):
    return A @ (np.asarray(occ) == 0).astype(int)


def model_E(mc, count):
    ne = mc.Nenergy
    return float(np.sum(np.asarray(mc.interactvalue[:ne])[count[:ne] == 0]))


def sites_from(op, occ, free):
    """interpret the op's indices against the current model occupation -> disjoint lists of distinct sites"""
    on, off = [], []
    if op["mode"] == "proper":
        un = [i for i in free if occ[i] == 0]
        oc = [i for i in free if occ[i] == 1]
        for k in op["on"]:
            if un and un[k % len(un)] not in on:
                on.append(un[k % len(un)])
        for k in op["off"]:
            if oc and oc[k % len(oc)] not in off:
                off.append(oc[k % len(oc)])
    else:
        for k in op["on"]:
            if free[k % len(free)] not in on:
                on.append(free[k % len(free)])
        for k in op["off"]:
            s = free[k % len(free)]
            if s not in off and s not in on:
                off.append(s)
    return on, off


def apply_model(occ, on, off):
    new = list(occ)
    for i in on:
        new[i] = 1
    for i in off:
        new[i] = 0
    return new


def compare_state(H, R, A, occ, vac, tol, where):
    """H: history sampler; R: sampler started from scratch on a copy of the model occupation occ"""
    occ = np.asarray(occ)
    require(np.array_equal(np.asarray(H.occ), occ), lambda: "%s: sampler occupation %s differs from the occupation produced by the history %s"
            % (where, np.asarray(H.occ).tolist(), occ.tolist()))
    want_occ = set(int(i) for i in np.nonzero(occ == 1)[0])
    want_un = set(int(i) for i in np.nonzero(occ == 0)[0])
    require(set(int(i) for i in H.occupied_set) == want_occ, lambda: "%s: occupied_set %s != sites with occupation 1 %s" % (where, sorted(H.occupied_set), sorted(want_occ)))
    require(set(int(i) for i in H.unoccupied_set) == want_un, lambda: "%s: unoccupied_set %s != sites with occupation 0 %s" % (where, sorted(H.unoccupied_set), sorted(want_un)))
    require(set(R.occupied_set) == want_occ and set(R.unoccupied_set) == want_un, lambda: "%s: freshly started sampler has wrong site sets" % where)
    if vac is not None:
        require(vac not in H.occupied_set and vac not in H.unoccupied_set, "%s: vacancy site listed in a site set" % where)
    cnt = recount(A, occ)
    require(np.array_equal(np.asarray(R.clustercount), cnt), lambda: "%s: freshly started sampler's clustercount differs from a recount of unoccupied sites per interaction at %s"
            % (where, np.nonzero(np.asarray(R.clustercount) != cnt)[0][:5].tolist()))
    require(np.array_equal(np.asarray(H.clustercount), cnt), lambda: "%s: clustercount after the history differs from that of a freshly started sampler at interactions %s (history %s, fresh %s)"
            % (where, np.nonzero(np.asarray(H.clustercount) != cnt)[0][:5].tolist(), np.asarray(H.clustercount)[np.asarray(H.clustercount) != cnt][:5].tolist(), cnt[np.asarray(H.clustercount) != cnt][:5].tolist()))
    EH, ER, EM = H.E(), R.E(), model_E(H, cnt)
    require(abs(EH - ER) <= tol and abs(EH - EM) <= tol, lambda: "%s: energy after the history %r differs from the freshly started sampler's %r (recount %r)" % (where, EH, ER, EM))
    return EH


def fresh_E(R, occ):
    R.start(np.array(occ, dtype=np.int64))
    return R.E()


# ------------------------------------------------------------------------------------------------
# history check
# ------------------------------------------------------------------------------------------------
def check_history(case):
    b = cx.build(case["setup"])
    n, vac = b.nsites, b.vacancy
    free = b.free_sites()
    H = b.sampler(jn=bool(case.get("jn", True)))
    R = b.sampler(jn=bool(case.get("jn", True)))  # second instance, only ever (re)started from scratch
    A = incidence(H, n)
    tol = 1e-9 * max(1., float(np.abs(H.interactvalue).sum()))
    classes = cx.describe(b)
    if A.max() > 1:
        classes.append("aliased_interactions")
    occ = None
    nchanged = nonzero = ntrial = nupdate = 0
    for k, op in enumerate(case["ops"]):
        where = "op %d (%s)" % (k, op["op"])
        if op["op"] == "start" or occ is None:
            bits = op.get("bits", [0])
            occ = [int(x) for x in b.blank(bits)]
            H.start(np.array(occ, dtype=np.int64))
            if k > 0:
                classes.append("restart")
        else:
            on, off = sites_from(op, occ, free)
            new = apply_model(occ, on, off)
            changed = sum(1 for x, y in zip(occ, new) if x != y)
            Ebefore = fresh_E(R, occ)
            Eafter = fresh_E(R, new)
            dE = H.deltaE_trial(on, off)
            require(abs(dE - (Eafter - Ebefore)) <= tol, lambda: "%s: deltaE_trial(occ=%s, unocc=%s) = %r but fresh samplers give E(after)-E(before) = %r - %r = %r on occupation %s"
                    % (where, on, off, dE, Eafter, Ebefore, Eafter - Ebefore, occ))
            if abs(Eafter - Ebefore) > 1e-9:
                nonzero += 1
            if len(on) + len(off) > 1:
                classes.append("multi_site")
            if on and off:
                classes.append("mixed_on_off")
                if np.any((A[:, on].sum(axis=1) > 0) & (A[:, off].sum(axis=1) > 0)):
                    classes.append("on_off_share_interaction")
            if changed < len(on) + len(off):
                classes.append("noop_sites")
            if op["op"] == "trial":
                ntrial += 1
                # a trial must not change anything
            elif op["op"] == "spawn":
                # a second (compiled) sampler is created from this one's parameters and updated on its own; the history
                # sampler has seen no update, so its state must still be that of a fresh sampler on the unchanged occupation
                from onsager import cluster
                un = [i for i in free if occ[i] == 0]
                oc = [i for i in free if occ[i] == 1]
                if un and oc:
                    J = cluster.MonteCarloSampler_jit(**cluster.MonteCarloSampler_param(H))
                    J.update(int(un[sum(op["on"]) % len(un)]), int(oc[sum(op["off"]) % len(oc)]))   # the compiled sampler swaps one pair
                    classes.append("spawned_compiled_sampler")
            else:
                nupdate += 1
                EH0 = H.E()
                H.update(on, off)
                EH1 = H.E()
                require(abs((EH1 - EH0) - dE) <= tol, lambda: "%s: trial energy change %r but performing the update changed E by %r" % (where, dE, EH1 - EH0))
                occ = new
                nchanged += changed
        R.start(np.array(occ, dtype=np.int64))
        compare_state(H, R, A, occ, vac, tol, where)
    classes.append("ops%02d+" % (10 * (len(case["ops"]) // 10)))
    classes.append("jn_sampler" if H.jumps is not None else "plain_sampler")
    nt = nchanged > 0 and nonzero > 0
    return {"key": canon([cx.canon(case["setup"]), case["ops"]]), "nontrivial": nt, "classes": sorted(set(classes)),
            "sample": {"crystal": case["setup"]["recipe"]["name"], "super": case["setup"]["super"], "sites": n, "vacancy": vac, "nops": len(case["ops"]),
                       "updates": nupdate, "trials": ntrial, "sites_changed": nchanged, "nonzero_dE": nonzero, "ops_head": case["ops"][:3]}}


# ------------------------------------------------------------------------------------------------
# bounded-exhaustive reachable-state exploration
# ------------------------------------------------------------------------------------------------
def check_bfs(case):
    b = cx.build(case["setup"])
    free = b.free_sites()
    n, vac = len(free), b.vacancy
    if n > 10:
        raise HarnessError("bfs case with %d free sites" % n)
    H, R = b.sampler(), b.sampler()
    A = incidence(H, b.nsites)
    tol = 1e-9 * max(1., float(np.abs(H.interactvalue).sum()))
    maxdist = n if n <= 6 else 2

    def occ_of(s):
        occ = np.zeros(b.nsites, dtype=np.int64)
        for k, i in enumerate(free):
            occ[i] = (s >> k) & 1
        if vac is not None:
            occ[vac] = -1
        return occ

    # table of freshly started states
    nstate = 1 << n
    Etab = np.zeros(nstate)
    ctab = []
    for s in range(nstate):
        occ = occ_of(s)
        R.start(occ.copy())
        cnt = recount(A, occ)
        require(np.array_equal(np.asarray(R.clustercount), cnt), lambda: "fresh start on %s: clustercount differs from a recount" % occ.tolist())
        Etab[s] = R.E()
        require(abs(Etab[s] - model_E(R, cnt)) <= tol, lambda: "fresh start on %s: E differs from the recount energy" % occ.tolist())
        ctab.append(cnt)
    masks = [m for d in range(1, maxdist + 1) for m in (sum(1 << k for k in comb) for comb in itertools.combinations(range(n), d))]

    def same(s, where):
        occ = occ_of(s)
        if not (np.array_equal(np.asarray(H.occ), occ) and np.array_equal(np.asarray(H.clustercount), ctab[s])
                and set(H.occupied_set) == set(int(i) for i in np.nonzero(occ == 1)[0])
                and set(H.unoccupied_set) == set(int(i) for i in np.nonzero(occ == 0)[0])):
            raise Violation("%s: state (occ %s) differs from a freshly started sampler on %s; clustercount differs at %s" % (
                where, np.asarray(H.occ).tolist(), occ.tolist(), np.nonzero(np.asarray(H.clustercount) != ctab[s])[0][:5].tolist()))
        if abs(H.E() - Etab[s]) > tol:
            raise Violation("%s: E %r differs from the freshly started sampler's %r" % (where, H.E(), Etab[s]))

    nedges = nonzero = 0
    s = 0
    H.start(occ_of(0))
    for g in range(nstate):
        t = g ^ (g >> 1)  # Gray code: one site flips per step
        if g > 0:
            k = (s ^ t).bit_length() - 1
            if (t >> k) & 1:
                H.update([free[k]], [])
            else:
                H.update([], [free[k]])
            s = t
            if g % 97 == 0:  # interleave restarts into the walk
                H.start(occ_of(s))
        same(s, "Gray walk at state %d" % s)
        for m in masks:
            t2 = s ^ m
            on = [free[k] for k in range(n) if (m >> k) & 1 and not (s >> k) & 1]
            off = [free[k] for k in range(n) if (m >> k) & 1 and (s >> k) & 1]
            dE = H.deltaE_trial(on, off)
            want = Etab[t2] - Etab[s]
            if abs(dE - want) > tol:
                raise Violation("deltaE_trial(occ=%s, unocc=%s) on occupation %s = %r but E(after)-E(before) = %r" % (on, off, occ_of(s).tolist(), dE, want))
            H.update(on, off)
            same(t2, "update occ=%s unocc=%s from %s" % (on, off, occ_of(s).tolist()))
            H.update(off, on)
            same(s, "inverse update occ=%s unocc=%s from %s" % (off, on, occ_of(t2).tolist()))
            nedges += 2
            if abs(want) > 1e-9:
                nonzero += 1
    classes = cx.describe(b) + ["bfs", "bfs_sites%02d" % n, "bfs_all_pairs" if maxdist == n else "bfs_hamming2"]
    if A.max() > 1:
        classes.append("aliased_interactions")
    return {"key": canon(["bfs", case["setup"]]), "nontrivial": nonzero > 0 and nedges > 0, "classes": classes,
            "sample": {"bfs": case["setup"]["recipe"]["name"], "super": case["setup"]["super"], "free_sites": n, "vacancy": vac, "states": nstate,
                       "updates_checked": nedges, "nonzero_dE": nonzero}}


def check(case):
    if case.get("kind") == "bfs":
        return check_bfs(case)
    return check_history(case)


def bfs_cases(ctx):
    """catalogue entries of this shard (quick: every third base entry, <= 8 free sites)"""
    step = 3 if ctx.quick else 1
    out = [{"kind": "bfs", "setup": s} for s in cx.small_setups(max_sites=10, jn=True, select=lambda n: n % step == 0 and ctx.mine(n // step))]
    if ctx.quick:
        out = [c for c in out if len(cx.build(c["setup"]).free_sites()) <= 8]
    return out


def run(ctx):
    ctx.corpus(check)
    ctx.cases(bfs_cases(ctx), check, label="bfs")
    ctx.note("bounded_exhaustive", "catalogue supercells (<=10 mobile sites; quick: every third, <=8 sites): every occupation visited by single-site updates, "
             "every update to every occupation within Hamming distance 2 (all, when <=6 sites) tried, performed and inverted")
    ctx.given(cases(max_sites=16), check, quick=260, thorough=6000)
    if not ctx.quick:
        ctx.given(cases(max_sites=24), check, quick=1, thorough=1500, salt=1)


def replay(case):
    check(case)
