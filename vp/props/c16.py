"""C16  Taylor-expansion arithmetic commutes with evaluation (Taylor3D / Taylor2D)."""
import collections, itertools, math

import numpy as np
from hypothesis import strategies as st

from ..core import Violation, HarnessError, require, canon
from ..oracles import taylor_ref as tr
from ..strategies import taylor as ts

ID = "C16"
RULE = ("Hypothesis draws a dimension (2/3), a value shape (scalar, vector, matrix up to 3x3), a coefficient list in collected or "
        "separated form (n in -2..4, l <= 4, integer/8 real or complex coefficients, dense / sparse / r^2-multiple / zero blocks, any "
        "order) and a history of 1-5 operations (+, -, in-place +=/-=, + array, unary -/+, scalar and per-order scalar products "
        "incl. in place, ldot/rdot with matrices or per-order dictionaries incl. in place, expansion products on either side with "
        "l1+l2 <= 4, slicing and block assignment into zeros(), truncate, reduce, collect, separate, copy, addterms), each with its "
        "own operand. After every step the library object is evaluated through __call__ (per order with constant radial factors, "
        "in total with |u|^n callables and through the dictionary form) at 2-4 drawn points (plus the origin when the function is "
        "continuous there) and compared with the same operation applied to the values of an independent evaluator (own monomial "
        "enumeration). constructexpansion is compared with the direct power series sum_b pre_n C_b (v_b.u)^n. All index tables "
        "(pow2ind/ind2pow, powlrange, Ylm/FC indices, directmult, powercoeff, powexp, Ylmpow/FCpow against scipy sph_harm_y / e^{il theta}, "
        "powYlm/powFC against quadrature overlaps and as inverse, Lproj idempotent/orthogonal/complete/pure-l/degree-bounded) are "
        "checked exhaustively for Lmax=4; the entries produced by separate() are also checked to hold a single l (quadrature against true harmonics, as its docstring promises). Non-trivial: >=2 input terms with different (n,l), non-scalar shape and at least one "
        "binary or structural operation; distinct by the whole case.")
ASSUMPTIONS = ["the storage order of the monomials (by total degree, then exponent of x, then y) is taken from the class documentation as part of the input format",
               "the radial factor of order n is |u|^n (the only choice for which products of expansions are products of values); per-order comparison is equivalent to comparison for all |u|",
               "tolerance 1e-10 * max(1, B_n) per order and 1e-10 * max(1, sum_n |u|^n B_n) for the value, B_n = sum of the coefficient magnitudes of order n propagated through the operations (direction independent, because projected representations cancel between monomials); coefficients are multiples of 1/8 (or exactly 0), far above the 1e-10 threshold below which reduce/separate discard blocks",
               "the origin is used as an evaluation point only when the function is continuous there (no negative orders, isotropic order-0 terms)",
               "all coefficient arrays of one case share one dtype (complex as produced by constructexpansion/zeros, or real)"]
SHARDS = {"quick": 4, "thorough": 16}
TOL = 1e-10
LMAX = tr.LMAX

# Known finding (not repaired): sumcoeff/collectcoeff accumulate with in-place "+=", so adding a complex expansion and a
# real one raises numpy's UFuncTypeError whenever the complex block has to be added into the real array (witness:
# corpus/C16/known-real-complex-sum.json).  With the flag set, operands are built with the dtype of the running
# expansion (complex as soon as a product / ldot / zeros() made it complex), so the two dtypes never meet.
EXCLUDE_REAL_COMPLEX_MIX = False  # R29 repaired in /repo (50df220)
_EXCLUDED = collections.Counter()

SHAPES = [(), (), (1,), (2,), (3,), (1, 1), (2, 2), (2, 2), (3, 3), (2, 3), (3, 2), (1, 2)]


# ---- generator -------------------------------------------------------------------------------------------------
def _mul_shapes(s, side):
    """operand shapes compatible with a state of shape s, and the resulting shape"""
    out = [((), s)]
    if s == ():
        return [(b, b) for b in [(), (2,), (2, 2), (1, 3)]]
    if side == "r":  # state * B
        k = s[-1]
        out.append(((k,), s[:-1]))
        out += [((k, m), s[:-1] + (m,)) for m in (1, 2, 3)]
    else:  # B * state
        k = s[0]
        out.append(((k,), s[1:]))
        out += [((m, k), (m,) + s[1:]) for m in (1, 2, 3)]
    return out


def _key_for(draw, s):
    """index key into a non-scalar shape: list of ints or [start, stop] pairs; returns key, new shape"""
    key, new = [], []
    nkeys = draw(st.integers(1, len(s)))
    for ax in range(nkeys):
        k = s[ax]
        if draw(st.booleans()):
            key.append(draw(st.integers(0, k - 1)))
        else:
            a = draw(st.integers(0, k - 1))
            b = draw(st.integers(a + 1, k))
            key.append([a, b])
            new.append(b - a)
    new += list(s[nkeys:])
    return key, tuple(new)


@st.composite
def algebra_cases(draw, dim):
    cplx = draw(st.sampled_from([True, True, True, False]))
    shape = draw(st.sampled_from(SHAPES))
    A = draw(ts.expansion(dim, shape, cplx=cplx, maxterms=4))
    lnom = max(t["l"] for t in A["terms"])
    nlo, nhi = min(t["n"] for t in A["terms"]), max(t["n"] for t in A["terms"])
    ops = []
    nops = draw(st.integers(1, 5))
    small = dict(maxterms=3)
    for _ in range(nops):
        choices = ["add", "sub", "iadd", "isub", "sumbuiltin", "addarr", "neg", "pos", "copy", "scalar", "scalardict", "mul", "mul",
                   "truncate", "reduce", "reduce", "collect", "separate", "separate", "embed", "addterms"]
        if shape != ():
            choices += ["ldot", "rdot", "ldot", "rdot", "slice", "slice"]
        name = draw(st.sampled_from(choices))
        op = {"op": name}
        if name in ("add", "sub", "iadd", "isub", "sumbuiltin"):
            op["B"] = draw(ts.expansion(dim, shape, cplx=cplx, **small))
            lnom = max(lnom, max(t["l"] for t in op["B"]["terms"]))
            nlo = min(nlo, min(t["n"] for t in op["B"]["terms"]))
            nhi = max(nhi, max(t["n"] for t in op["B"]["terms"]))
        elif name == "addarr":
            op["M"] = draw(ts.tensor(shape, cplx))
            op["sub"], op["inplace"] = draw(st.booleans()), draw(st.booleans())
            nlo, nhi = min(nlo, 0), max(nhi, 0)
        elif name == "scalar":
            op["s"] = [draw(st.integers(-VS, VS)), draw(st.integers(-VS, VS)) if cplx else 0]
            op["form"] = draw(st.sampled_from(["mul", "rmul", "imul", "coeff_inplace"]))
        elif name == "scalardict":
            op["s"] = [[draw(st.integers(-VS, VS)), draw(st.integers(-VS, VS)) if cplx else 0] for _ in range(5)]
            op["form"] = draw(st.sampled_from(["mul", "imul", "coeff_inplace", "ldot"]))
        elif name in ("ldot", "rdot"):
            k = shape[0] if name == "ldot" else shape[-1]
            m = draw(st.sampled_from([None, 1, 2, 3]))
            op["M"] = draw(ts.matrix(m, k, cplx) if name == "ldot" else ts.matrix(k, m, cplx))
            op["inplace"], op["bydict"] = draw(st.booleans()), draw(st.booleans())
            if m is None:
                shape = shape[1:] if name == "ldot" else shape[:-1]
            else:
                shape = ((m,) + shape[1:]) if name == "ldot" else (shape[:-1] + (m,))
        elif name == "mul":
            op["side"] = draw(st.sampled_from(["r", "l"]))
            bshape, newshape = draw(st.sampled_from(_mul_shapes(shape, op["side"])))
            op["B"] = draw(ts.expansion(dim, bshape, lcap=LMAX - lnom, cplx=cplx, **small))
            lnom += max(t["l"] for t in op["B"]["terms"])
            nlo += min(t["n"] for t in op["B"]["terms"])
            nhi += max(t["n"] for t in op["B"]["terms"])
            shape = newshape
        elif name == "slice":
            op["key"], shape = _key_for(draw, shape)
            op["copy"] = draw(st.booleans())
        elif name == "truncate":
            op["N"] = draw(st.integers(nlo - 1, nhi + 1))
            op["form"] = draw(st.sampled_from(["new", "inplace", "coeff"]))
        elif name in ("reduce", "collect", "separate"):
            op["form"] = draw(st.sampled_from(["method", "coeff", "coeff_inplace"]))
        elif name == "embed":
            if shape == ():
                big = draw(st.sampled_from([(2,), (2, 2), (3, 3)]))
                off = [draw(st.integers(0, k - 1)) for k in big]
            else:
                big = tuple(k + draw(st.integers(0, 2)) for k in shape)
                off = [draw(st.integers(0, K - k)) for K, k in zip(big, shape)]
            op["big"], op["off"] = list(big), off
            shape = big
            lnom = LMAX  # zeros() declares every l up to Lmax
            nlo, nhi = min(nlo, 0), max(nhi, 0)  # ... and the check lets its order range include 0
        elif name == "addterms":
            k = draw(st.integers(1, 2))
            ns = [nhi + 1 + j for j in range(k)]
            op["B"] = draw(ts.expansion(dim, shape, cplx=cplx, ns=ns))
            lnom = max(lnom, max(t["l"] for t in op["B"]["terms"]))
            nhi += k
        ops.append(op)
    pts = draw(ts.points(dim))
    return {"kind": "algebra", "dim": dim, "complex": cplx, "A": A, "ops": ops, "pts": pts, "origin": draw(st.booleans())}


VS = 20


@st.composite
def construct_cases(draw):
    dim = draw(st.sampled_from([2, 3]))
    shape = draw(st.sampled_from(SHAPES))
    cplx = draw(st.booleans())
    nb = draw(st.integers(1, 4))
    basis = []
    for _ in range(nb):
        vec = draw(st.lists(st.integers(-12, 12), min_size=dim, max_size=dim))  # units of 1/8; the zero vector is allowed
        basis.append({"vec": vec, "coeff": draw(ts.tensor(shape, cplx))})
    N = draw(st.sampled_from([-1, 0, 1, 2, 3, 4]))
    nn = LMAX if N < 0 else N
    pre = None
    if draw(st.booleans()):
        pre = [[draw(st.integers(-VS, VS)), draw(st.integers(-VS, VS)) if cplx else 0] for _ in range(nn + 1)]
    return {"kind": "construct", "dim": dim, "complex": cplx, "shape": list(shape), "basis": basis, "N": N, "pre": pre,
            "build": draw(st.sampled_from(["list", "addterms"])), "pts": draw(ts.points(dim)), "origin": draw(st.booleans())}


# ---- reference state ---------------------------------------------------------------------------------------------
class Ref(object):
    """values of the current expansion at the evaluation directions: per point a dict order -> value and a dict
    order -> magnitude bound; the last point may be the origin (uhat None), where only the total is meaningful"""

    def __init__(self, dim, pts, shape):
        self.dim, self.pts, self.shape = dim, pts, tuple(shape)
        self.vals = [dict() for _ in pts]
        self.bnds = [dict() for _ in pts]

    @classmethod
    def of_terms(cls, dim, pts, shape, terms):
        r = cls(dim, pts, shape)
        for i, (uhat, rad) in enumerate(pts):
            if uhat is None:
                z = np.zeros(dim)
                r.vals[i] = tr.orders(dim, [t for t in terms if t[0] == 0], z)
                r.bnds[i] = tr.bounds(dim, [t for t in terms if t[0] == 0], z)
            else:
                r.vals[i] = tr.orders(dim, terms, uhat)
                r.bnds[i] = tr.bounds(dim, terms, uhat)
        return r

    def copy(self):
        r = Ref(self.dim, self.pts, self.shape)
        r.vals = [dict((n, np.array(v)) for n, v in d.items()) for d in self.vals]
        r.bnds = [dict(d) for d in self.bnds]
        return r

    def map(self, fv, fb, shape=None):
        r = Ref(self.dim, self.pts, self.shape if shape is None else shape)
        r.vals = [dict((n, fv(n, v)) for n, v in d.items()) for d in self.vals]
        r.bnds = [dict((n, fb(n, b)) for n, b in d.items()) for d in self.bnds]
        return r

    def lincomb(self, other, a, b):
        r = Ref(self.dim, self.pts, self.shape)
        for i in range(len(self.pts)):
            for n in set(self.vals[i]) | set(other.vals[i]):
                r.vals[i][n] = a * self.vals[i].get(n, 0) + b * other.vals[i].get(n, 0)
                r.bnds[i][n] = abs(a) * self.bnds[i].get(n, 0.) + abs(b) * other.bnds[i].get(n, 0.)
        return r

    def product(self, other, shape):
        """self * other (matrix product over the last/first axis, plain product if either is scalar-shaped)"""
        r = Ref(self.dim, self.pts, shape)
        scal = self.shape == () or other.shape == ()
        for i in range(len(self.pts)):
            for (n, a), (m, b) in itertools.product(self.vals[i].items(), other.vals[i].items()):
                v = a * b if scal else np.tensordot(a, b, axes=1)
                r.vals[i][n + m] = r.vals[i][n + m] + v if (n + m) in r.vals[i] else v
                r.bnds[i][n + m] = r.bnds[i].get(n + m, 0.) + self.bnds[i][n] * other.bnds[i][m]
        return r

    def truncate(self, N):
        r = Ref(self.dim, self.pts, self.shape)
        r.vals = [dict((n, v) for n, v in d.items() if n <= N) for d in self.vals]
        r.bnds = [dict((n, v) for n, v in d.items() if n <= N) for d in self.bnds]
        return r


def compare(T, ref, what, totals_only=False):
    """library evaluation of T (through __call__) against the reference values"""
    shape = ref.shape
    nl = T.nl()
    dup = len(set(nl)) != len(nl)
    for i, (uhat, rad) in enumerate(ref.pts):
        origin = uhat is None
        u = np.zeros(ref.dim) if origin else rad * uhat
        vals, bnds = ref.vals[i], ref.bnds[i]
        if not origin and not totals_only:
            got = ts.lib_orders(T, u.copy())
            for n in sorted(set(got) | set(vals)):
                g = np.asarray(got.get(n, 0))
                e = np.asarray(vals.get(n, np.zeros(shape)))
                require(n not in got or g.shape == e.shape, lambda: "%s: order %d evaluates to shape %s, expected %s" % (what, n, g.shape, e.shape))
                tol = TOL * max(1., bnds.get(n, 0.))
                err = float(np.abs(g - e).max()) if e.size else 0.
                require(err <= tol, lambda: "%s: order-%d part at direction %s is %s, reference %s (difference %.3e > %.1e)"
                        % (what, n, np.round(uhat, 6).tolist(), np.asarray(g).tolist(), np.asarray(e).tolist(), err, tol))
        # total with the callables |u|^n, and through the dictionary form
        rr = 0. if origin else rad
        e = np.asarray(tr.total(vals, rr)) + np.zeros(shape)
        bound = sum((1. if n == 0 else 0.) * b if origin else rad ** n * b for n, b in bnds.items())
        tol = TOL * max(1., bound)
        g = np.asarray(ts.lib_total(T, u.copy()))
        err = float(np.abs(g - e).max()) if e.size else 0.
        require(err <= tol, lambda: "%s: value at u=%s is %s, reference %s (difference %.3e > %.1e)"
                % (what, u.tolist(), g.tolist(), e.tolist(), err, tol))
        if not dup and not totals_only:
            d = T(u.copy())
            g2 = sum((((1. if n == 0 else 0.) if origin else rad ** n) * v for (n, l), v in d.items()), np.zeros(shape))
            err = float(np.abs(np.asarray(g2) - e).max()) if e.size else 0.
            require(err <= tol, lambda: "%s: dictionary-form value at u=%s is %s, reference %s" % (what, u.tolist(), np.asarray(g2).tolist(), e.tolist()))


def _scalar(s):
    return complex(s[0], s[1]) / ts.UNIT if s[1] else s[0] / ts.UNIT


def _key(key):
    return tuple(k if isinstance(k, int) else slice(k[0], k[1]) for k in key)


def check_algebra(case):
    dim, cplx = case["dim"], case["complex"]
    Taylor = ts.library(dim)
    pts = [ts.point(p) for p in case["pts"]]
    shape = tuple(case["A"]["shape"])
    # the origin is a legitimate evaluation point only when every operand is continuous there
    operands = [case["A"]] + [op["B"] for op in case["ops"] if "B" in op]
    cont = all(t["n"] > 0 or (t["n"] == 0 and t["l"] == 0) for e in operands for t in e["terms"])
    if case.get("origin") and cont:
        pts.append((None, 0.))
    if case["A"].get("cplx") is not None:
        cplx = bool(case["A"]["cplx"])
    T = Taylor(ts.terms(dim, case["A"], cplx))
    ref = Ref.of_terms(dim, pts, shape, ts.terms(dim, case["A"], cplx))
    compare(T, ref, "input expansion")
    classes = ["dim%d" % dim, "complex" if cplx else "real", "shape_rank%d" % len(shape), "origin_point" if pts[-1][0] is None else "no_origin"]
    nlin = [(t["n"], t["l"]) for t in case["A"]["terms"]]
    classes.append("separated_input" if len(set(n for n, l in nlin)) < len(nlin) else "collected_input")
    structural = 0
    cmplx_state = cplx
    for k, op in enumerate(case["ops"]):
        name = op["op"]
        what = "step %d (%s)" % (k + 1, name)
        if "B" in op:
            bshape = tuple(op["B"]["shape"])
            bc = op["B"].get("cplx")
            if bc is None:
                bc = cplx
                if EXCLUDE_REAL_COMPLEX_MIX and cmplx_state != cplx:
                    bc = cmplx_state
                    _EXCLUDED["real_complex_mix"] += 1
            TB = Taylor(ts.terms(dim, op["B"], bc))
            refB = Ref.of_terms(dim, pts, bshape, ts.terms(dim, op["B"], bc))
            cmplx_state_after = cmplx_state or bc
        if name in ("add", "sub", "iadd", "isub", "sumbuiltin"):
            sgn = -1 if name in ("sub", "isub") else 1
            newref = ref.lincomb(refB, 1, sgn)
            if name == "add":
                Told, T = T, T + TB
            elif name == "sub":
                Told, T = T, T - TB
            elif name == "sumbuiltin":
                Told, T = T, sum([T, TB])
            elif name == "iadd":
                Told = None
                T += TB
            else:
                Told = None
                T -= TB
            compare(TB, refB, what + ": right operand afterwards", totals_only=True)
            if Told is not None:
                compare(Told, ref, what + ": left operand afterwards", totals_only=True)
            structural += 1
            cmplx_state = cmplx_state_after
        elif name == "addarr":
            mc = cplx
            if EXCLUDE_REAL_COMPLEX_MIX and cmplx_state != cplx:
                mc = cmplx_state
                _EXCLUDED["real_complex_mix"] += 1
            M = ts.array(op["M"], shape, mc)
            sgn = -1 if op["sub"] else 1
            const = Ref(dim, pts, shape)
            for i in range(len(pts)):
                const.vals[i][0] = M.copy()
                const.bnds[i][0] = float(np.abs(M).sum())
            newref = ref.lincomb(const, 1, sgn)
            if op["inplace"]:
                if sgn > 0:
                    T += M
                else:
                    T -= M
            else:
                T = (T + M) if sgn > 0 else (T - M)
        elif name == "neg":
            newref, T = ref.lincomb(ref, -1, 0), -T
        elif name == "pos":
            newref, T = ref.copy(), +T
        elif name == "copy":
            newref, T = ref.copy(), T.copy()
        elif name == "scalar":
            s = _scalar(op["s"])
            newref = ref.map(lambda n, v: s * v, lambda n, b: abs(s) * b)
            form = op["form"]
            if form == "mul":
                T = T * s
            elif form == "rmul":
                T = s * T
            elif form == "imul":
                T *= s
            else:
                if isinstance(s, complex) and not cmplx_state:
                    form = "mul"
                    T = T * s
                else:
                    out = Taylor.scalarproductcoeff(s, T, inplace=True)
                    require(out is T, what + ": in-place scalar product does not return its argument")
            cmplx_state = cmplx_state or isinstance(s, complex)
        elif name == "scalardict":
            sl = [_scalar(s) for s in op["s"]]
            newref = ref.map(lambda n, v: sl[n % len(sl)] * v, lambda n, b: abs(sl[n % len(sl)]) * b)
            d = dict(((n, l), sl[n % len(sl)]) for n, l in T.nl())
            form = op["form"]
            anyc = any(isinstance(s, complex) for s in sl)
            if form == "coeff_inplace" and anyc and not cmplx_state:
                form = "mul"
            if form == "ldot" and not T.nl():
                form = "mul"
            if form == "mul":
                T = T * d
            elif form == "imul":
                T *= d
            elif form == "ldot":
                T = T.ldot(d)
            else:
                Taylor.scalarproductcoeff(d, T, inplace=True)
            cmplx_state = cmplx_state or anyc
        elif name in ("ldot", "rdot"):
            M = ts.array(op["M"], op["M"]["shape"], cplx)
            m1 = float(np.abs(M).sum())
            if name == "ldot":
                newshape = M.shape[:-1] + shape[1:]
                newref = ref.map(lambda n, v: np.tensordot(M, v, axes=1), lambda n, b: m1 * b, newshape)
            else:
                newshape = shape[:-1] + M.shape[1:]
                newref = ref.map(lambda n, v: np.tensordot(v, M, axes=(-1, 0)), lambda n, b: m1 * b, newshape)
            arg = M
            if op["bydict"] and T.nl():
                arg = dict(((n, l), M.copy()) for n, l in T.nl())
            if op["inplace"]:
                out = T.ildot(arg) if name == "ldot" else T.irdot(arg)
                require(out is T, what + ": in-place dot does not return self")
            else:
                Told, T = T, (T.ldot(arg) if name == "ldot" else T.rdot(arg))
                compare(Told, ref, what + ": operand afterwards", totals_only=True)
            shape = newshape
            cmplx_state = True if name == "ldot" else cmplx_state
            structural += 1
        elif name == "mul":
            lcur = max([l for n, l in T.nl()] + [0])
            lB = max(t["l"] for t in op["B"]["terms"])
            if lcur + lB > LMAX:
                raise HarnessError("case violates the precondition l1+l2 <= Lmax (%d+%d)" % (lcur, lB))
            if op["side"] == "r":
                newshape = bshape if shape == () else (shape if bshape == () else shape[:-1] + bshape[1:])
                newref = ref.product(refB, newshape)
                Told, T = T, T * TB
            else:
                newshape = bshape if shape == () else (shape if bshape == () else bshape[:-1] + shape[1:])
                newref = refB.product(ref, newshape)
                Told, T = T, TB * T
            compare(TB, refB, what + ": operand afterwards", totals_only=True)
            compare(Told, ref, what + ": operand afterwards", totals_only=True)
            shape = newshape
            cmplx_state = True
            structural += 1
            classes.append("product_l%d" % min(lcur + lB, LMAX))
        elif name == "slice":
            key = _key(op["key"])
            newshape = np.zeros(shape)[key].shape
            newref = ref.map(lambda n, v: np.asarray(v)[key], lambda n, b: b, newshape)
            T = T[key]
            if op["copy"]:
                T = T.copy()
            shape = newshape
            structural += 1
        elif name == "truncate":
            N = op["N"]
            newref = ref.truncate(N)
            if op["form"] == "new":
                Told, T = T, T.truncate(N)
                compare(Told, ref, what + ": operand afterwards", totals_only=True)
            elif op["form"] == "inplace":
                out = T.truncate(N, inplace=True)
                require(out is T, what + ": in-place truncate does not return self")
            else:
                T = Taylor(Taylor.truncatecoeff(T, N))
            require(all(n <= N for n, l in T.nl()), lambda: what + ": orders above %d remain: %s" % (N, T.nl()))
            structural += 1
        elif name in ("reduce", "collect", "separate"):
            newref = ref.copy()
            nl_before = T.nl()
            fcoeff = {"reduce": None, "collect": Taylor.collectcoeff, "separate": Taylor.separatecoeff}[name]
            if name == "reduce":
                if op["form"] == "method":
                    out = T.reduce()
                    require(out is T, what + ": reduce does not return self")
                elif op["form"] == "coeff":
                    Told, T = T, Taylor(Taylor.collectcoeff(Taylor.reducecoeff(T)))
                    compare(Told, ref, what + ": operand afterwards", totals_only=True)
                else:
                    Taylor.reducecoeff(T.coefflist, inplace=True)
                    Taylor.collectcoeff(T.coefflist, inplace=True)
                nl = T.nl()
                require(len(set(n for n, l in nl)) == len(nl), lambda: what + ": reduced expansion still has several entries of one order: %s" % nl)
            else:
                if op["form"] == "method" and name == "separate":
                    out = T.separate()
                    require(out is T, what + ": separate does not return self")
                elif op["form"] == "coeff_inplace" or (op["form"] == "method" and name == "collect"):
                    fcoeff(T.coefflist, inplace=True)
                else:
                    Told, T = T, Taylor(fcoeff(T))
                    compare(Told, ref, what + ": operand afterwards", totals_only=True)
            if name == "separate":
                # every entry of the separated form holds a single angular momentum (checked with true harmonics)
                for n, l, c in T.coefflist:
                    hc = tr.harmonic_content(dim, np.asarray(c).reshape(c.shape[0], -1))
                    mag = max(1., float(np.abs(c).sum()))
                    bad = [ll for ll, v in hc.items() if ll != l and v > 1e-9 * mag]
                    require(not bad, lambda: what + ": entry (n=%d,l=%d) of the separated form has l=%s content %s" % (n, l, bad, hc))
            structural += 1
            classes.append(name)
            nl_after = T.nl()
            if name == "reduce":
                lb = dict()
                for n, l in nl_before:
                    lb[n] = max(lb.get(n, 0), l)
                la = dict(nl_after)
                if any(n in la and la[n] < l for n, l in lb.items()):
                    classes.append("reduce_lowered_l")
                if any(n not in la for n in lb):
                    classes.append("reduce_dropped_order")
                if len(nl_before) > len(lb):
                    classes.append("reduce_collected_orders")
            if name == "separate" and len(nl_after) > len(nl_before):
                classes.append("separate_split_entries")
            if not nl_after:
                classes.append("empty_expansion")
        elif name == "embed":
            big, off = tuple(op["big"]), op["off"]
            nl = T.nl()
            if len(set(nl)) != len(nl):
                T.reduce()  # assignment needs one entry per (n,l), as every caller provides
                nl = T.nl()
            if shape == ():
                key = tuple(off)
            else:
                key = tuple(slice(o, o + k) for o, k in zip(off, shape))

            def put(n, v, key=key, big=big):
                z = np.zeros(big, dtype=complex)
                z[key] = v
                return z
            newref = ref.map(put, lambda n, b: b, big)
            ns = [n for n, l in nl]
            Z = Taylor.zeros(min(ns + [0]), max(ns + [0]), big)
            Z[key] = T
            T = Z
            shape = big
            cmplx_state = True
            structural += 1
        elif name == "addterms":
            newref = ref.lincomb(refB, 1, 1)
            if set(n for n, l in T.nl()) & set(t["n"] for t in op["B"]["terms"]):
                raise HarnessError("case violates the documented precondition of addterms (orders must be new)")
            T.addterms(TB if k % 2 else TB.coefflist)
            compare(TB, refB, what + ": operand afterwards", totals_only=True)
            structural += 1
            cmplx_state = cmplx_state_after
        else:
            raise HarnessError("unknown operation %r" % name)
        ref = newref
        if ref.shape != tuple(shape):
            ref.shape = tuple(shape)
        compare(T, ref, what)
        classes.append("op_" + name)
    nt = len(set(nlin)) >= 2 and len(case["A"]["shape"]) >= 1 and structural >= 1
    return {"key": canon(case), "nontrivial": nt, "classes": classes,
            "sample": {"dim": dim, "shape": case["A"]["shape"], "input_nl": nlin, "ops": [op["op"] for op in case["ops"]],
                       "final_nl": [list(x) for x in T.nl()], "points": case["pts"]}}


def check_construct(case):
    dim, cplx = case["dim"], case["complex"]
    Taylor = ts.library(dim)
    shape = tuple(case["shape"])
    pts = [ts.point(p) for p in case["pts"]]
    if case.get("origin"):
        pts.append((None, 0.))
    N = case["N"]
    nn = LMAX if N < 0 else N
    pre = [1.] * (nn + 1) if case["pre"] is None else [_scalar(s) for s in case["pre"]]
    basis = [(ts.array(b["coeff"], shape, cplx), np.array(b["vec"], dtype=float) / ts.UNIT) for b in case["basis"]]
    args = [(c.copy(), v.copy()) for c, v in basis]
    if case["pre"] is None:
        res = Taylor.constructexpansion(args, N) if N >= 0 else Taylor.constructexpansion(args)
    else:
        res = Taylor.constructexpansion(args, N, pre=list(pre))
    require(len(res) == nn + 1, "constructexpansion returned %d orders, expected %d" % (len(res), nn + 1))
    if case["build"] == "list":
        T = Taylor([c[0] for c in res])
    else:
        T = Taylor()
        for c in res:
            T.addterms(c)
    for n, l in T.nl():
        require(n == l, "constructexpansion produced an (n,l)=(%d,%d) entry" % (n, l))
    ref = Ref(dim, pts, shape)
    for i, (uhat, rad) in enumerate(pts):
        for n in range(nn + 1):
            if uhat is None and n > 0:
                continue
            x = np.zeros(dim) if uhat is None else uhat
            ref.vals[i][n] = sum(pre[n] * c * float(np.dot(v, x)) ** n for c, v in basis)
            ref.bnds[i][n] = sum(abs(pre[n]) * float(np.abs(c).sum()) * float(np.linalg.norm(v)) ** n for c, v in basis)
    compare(T, ref, "constructexpansion")
    # direct power series at the full vector as well: sum_n pre_n C (v.u)^n
    for uhat, rad in pts:
        if uhat is None:
            continue
        u = rad * uhat
        direct = sum(pre[n] * c * float(np.dot(v, u)) ** n for c, v in basis for n in range(nn + 1))
        got = np.asarray(ts.lib_total(T, u.copy()))
        scale = max(1., sum(abs(pre[n]) * float(np.abs(c).sum()) * (float(np.linalg.norm(v)) * rad) ** n for c, v in basis for n in range(nn + 1)))
        require(np.abs(got - direct).max() <= TOL * scale, lambda: "constructexpansion: value at %s is %s, direct series %s" % (u.tolist(), got.tolist(), np.asarray(direct).tolist()))
    nt = len(basis) >= 2 and nn >= 2 and len(shape) >= 1
    return {"key": canon(case), "nontrivial": nt, "classes": ["construct", "dim%d" % dim, "construct_N%d" % nn, "construct_pre" if case["pre"] is not None else "construct_nopre"],
            "sample": {"kind": "construct", "dim": dim, "shape": list(shape), "vectors": [b["vec"] for b in case["basis"]], "N": N}}


# ---- index tables (bounded-exhaustive for Lmax = 4) ------------------------------------------------------------------
TABLES3 = ["counts", "pow2ind", "powlrange", "harmindex", "directmult", "powercoeff", "powexp", "harm2pow", "pow2harm", "inverse",
           "Lproj_algebra", "Lproj_function", "Lproj_harmonic", "static_index"]
TABLES2 = list(TABLES3)


def table_cases():
    return [{"kind": "table", "dim": d, "table": t} for d in (3, 2) for t in (TABLES3 if d == 3 else TABLES2)]


def _degree(t):
    return int(sum(t))


def check_table(case):
    dim, name = case["dim"], case["table"]
    T = ts.library(dim)
    L = LMAX
    P = tr.powers(dim, L)
    NP = len(P)
    deg = [_degree(t) for t in P]
    pts = tr.sphere_points() if dim == 3 else tr.circle_points()
    labels, H = tr.harmonic_matrix(dim)  # H[k, p] = <harmonic k | monomial p>
    if dim == 3:
        hidx = lambda lab: int(T.Ylm2ind[lab[0], lab[1]])
        h2p, p2h, NH = T.Ylmpow, T.powYlm, T.NYlm
        harm = lambda lab, u: tr.sph_harm(lab[0], lab[1], u)
        norm = 1.0
    else:
        hidx = lambda lab: int(T.FC2ind[lab[1]])
        h2p, p2h, NH = T.FCpow, T.powFC, T.NFC
        harm = lambda lab, u: tr.fourier(lab[1], u)
        norm = math.sqrt(2 * math.pi)  # the library's Fourier functions are exp(i l theta), the oracle's are orthonormal
    checked = 0
    if name == "counts":
        require(T.Npower == NP == math.comb(L + dim, dim), "Npower = %s, expected %d" % (T.Npower, NP))
        require(NH == ((L + 1) ** 2 if dim == 3 else 2 * L + 1), "number of harmonics = %s" % NH)
        require(T.Lmax == L, "Lmax")
        for attr, shp in (("ind2pow", (NP, dim)), ("pow2ind", (L + 1,) * dim), ("directmult", (NP, NP)), ("powercoeff", (L + 1, NP)),
                          ("Lproj", (L + 2, NP, NP)), ("powlrange", (L + 2,))):
            require(tuple(np.asarray(getattr(T, attr)).shape) == shp, lambda: "%s has shape %s, expected %s" % (attr, np.asarray(getattr(T, attr)).shape, shp))
            checked += 1
        require(tuple(h2p.shape) == (NH, NP) and tuple(p2h.shape) == (NP, NH), "harmonic/power matrices have wrong shapes")
    elif name == "pow2ind":
        for t in itertools.product(range(L + 1), repeat=dim):
            exp = P.index(t) if sum(t) <= L else -1
            require(int(T.pow2ind[t]) == exp, lambda: "pow2ind%s = %d, expected %d" % (t, T.pow2ind[t], exp))
            checked += 1
        for i, t in enumerate(P):
            require(tuple(int(x) for x in T.ind2pow[i]) == t, lambda: "ind2pow[%d] = %s, expected %s" % (i, T.ind2pow[i].tolist(), t))
            require(int(T.pow2ind[tuple(T.ind2pow[i])]) == i, "ind2pow/pow2ind are not inverse at %d" % i)
            checked += 1
    elif name == "powlrange":
        for l in range(L + 1):
            exp = sum(1 for d in deg if d <= l)
            require(int(T.powlrange[l]) == exp == tr.npow(dim, l), lambda: "powlrange[%d] = %d, expected %d" % (l, T.powlrange[l], exp))
            require(all(deg[p] == l for p in range(int(T.powlrange[l - 1]), int(T.powlrange[l]))), "powers between powlrange[%d] and powlrange[%d] do not all have degree %d" % (l - 1, l, l))
            checked += 1
        require(int(T.powlrange[-1]) == 0, "powlrange[-1] must be 0")
    elif name == "harmindex":
        seen = set()
        for lab in labels:
            i = hidx(lab)
            require(0 <= i < NH and i not in seen, lambda: "harmonic index of %s is %d (duplicate or out of range)" % (lab, i))
            seen.add(i)
            if dim == 3:
                require(lab[0] ** 2 <= i < (lab[0] + 1) ** 2, lambda: "Ylm2ind%s = %d is outside the block of l" % (lab, i))
                require(tuple(int(x) for x in T.ind2Ylm[i]) == tuple(lab), lambda: "ind2Ylm[%d] = %s, expected %s" % (i, T.ind2Ylm[i].tolist(), lab))
            else:
                require(int(T.ind2FC[i]) == lab[1], lambda: "ind2FC[%d] = %d, expected %d" % (i, T.ind2FC[i], lab[1]))
            checked += 1
        require(len(seen) == NH, "harmonic indices do not cover 0..N-1")
    elif name == "directmult":
        for p, q in itertools.product(range(NP), repeat=2):
            t = tuple(a + b for a, b in zip(P[p], P[q]))
            exp = P.index(t) if sum(t) <= L else -1
            require(int(T.directmult[p, q]) == exp, lambda: "directmult[%d,%d] = %d, expected %d (%s*%s)" % (p, q, T.directmult[p, q], exp, P[p], P[q]))
            checked += 1
    elif name == "powercoeff":
        for n in range(L + 1):
            for p, t in enumerate(P):
                exp = 0
                if sum(t) == n:
                    exp = math.factorial(n)
                    for e in t:
                        exp //= math.factorial(e)
                require(abs(T.powercoeff[n, p] - exp) < 1e-12, lambda: "powercoeff[%d,%d] = %s, expected %d" % (n, p, T.powercoeff[n, p], exp))
                checked += 1
    elif name == "powexp":
        vecs = [u * s for u in pts for s in (1.0, 0.37, 2.5)]
        for v in vecs:
            up, mag = T.powexp(v.copy())
            r = math.sqrt(float(np.dot(v, v)))
            require(abs(mag - r) <= 1e-13 * r, "powexp magnitude")
            require(np.abs(up - tr.monomials(dim, v / r, NP)).max() < 1e-13, lambda: "powexp(%s) (normalised) differs from the monomials" % v.tolist())
            un = T.powexp(v.copy(), normalize=False)
            ex = tr.monomials(dim, v, NP)
            require(np.abs(un - ex).max() <= 1e-13 * max(1., np.abs(ex).max()), lambda: "powexp(%s, normalize=False) differs from the monomials" % v.tolist())
            checked += 1
        up, mag = T.powexp(np.zeros(dim))
        require(mag == 0 and up[0] == 1 and not up[1:].any(), "powexp(0) must be the constant monomial with magnitude 0")
    elif name == "harm2pow":
        for lab in labels:
            row = h2p[hidx(lab)]
            for u in pts:
                got = complex(np.dot(row, tr.monomials(dim, u, NP)))
                exp = harm(lab, u)
                require(abs(got - exp) < 1e-12, lambda: "power expansion of harmonic %s at %s gives %s, true value %s" % (lab, u.tolist(), got, exp))
                checked += 1
            require(not np.abs(row[[p for p in range(NP) if deg[p] > lab[0]]]).any(), lambda: "harmonic %s uses powers above its degree" % (lab,))
    elif name == "pow2harm":
        for p in range(NP):
            for k, lab in enumerate(labels):
                exp = H[k, p] / norm
                got = p2h[p, hidx(lab)]
                require(abs(got - exp) < 1e-12, lambda: "coefficient of harmonic %s in power %s is %s, quadrature overlap %s" % (lab, P[p], got, exp))
                checked += 1
            for u in pts[::3]:
                got = sum(p2h[p, hidx(lab)] * harm(lab, u) for lab in labels)
                exp = tr.monomials(dim, u, NP)[p]
                require(abs(got - exp) < 1e-12, lambda: "harmonic expansion of power %s at %s gives %s, expected %s" % (P[p], u.tolist(), got, exp))
    elif name == "inverse":
        prod = h2p @ p2h
        require(np.abs(prod - np.eye(NH)).max() < 1e-12, lambda: "harmonics->powers->harmonics is not the identity (max deviation %.2e)" % np.abs(prod - np.eye(NH)).max())
        checked += NH * NH
    elif name == "Lproj_algebra":
        Pl = [np.asarray(T.Lproj[l]) for l in range(L + 1)]
        for l in range(L + 1):
            for m in range(L + 1):
                exp = Pl[l] if l == m else np.zeros((NP, NP))
                require(np.abs(Pl[l] @ Pl[m] - exp).max() < 1e-12, "Lproj[%d].Lproj[%d] is not %s" % (l, m, "Lproj[%d]" % l if l == m else "0"))
                checked += 1
        require(np.abs(sum(Pl) - np.asarray(T.Lproj[-1])).max() < 1e-12, "Lproj[-1] is not the sum of the l-projections")
        require(np.abs(T.Lproj[-1] @ T.Lproj[-1] - T.Lproj[-1]).max() < 1e-12, "Lproj[-1] is not idempotent")
        for l in range(L + 1):
            for p, q in itertools.product(range(NP), repeat=2):
                if deg[p] > deg[q] or deg[p] > l:
                    require(abs(T.Lproj[l][p, q]) < 1e-13, lambda: "Lproj[%d][%d,%d] is non-zero above the degree bound" % (l, p, q))
    elif name == "Lproj_function":
        Pm = np.asarray(T.Lproj[-1])
        for u in pts:
            mon = tr.monomials(dim, u, NP)
            require(np.abs(mon @ Pm - mon).max() < 1e-12, lambda: "the full projection changes function values at %s" % u.tolist())
            for lcut in range(L + 1):  # the truncated blocks used by reduce/collect
                n = tr.npow(dim, lcut)
                require(np.abs(mon[:n] @ Pm[:n, :n] - mon[:n]).max() < 1e-12, "the degree-%d block of the full projection changes function values" % lcut)
            checked += 1
    elif name == "Lproj_harmonic":
        lab_l = np.array([lab[0] for lab in labels])
        for l in range(L + 1):
            Pl = np.asarray(T.Lproj[l])
            for q in range(NP):
                amp = H @ Pl[:, q]  # harmonic amplitudes of the projected monomial
                exp = np.where(lab_l == l, H[:, q], 0)
                require(np.abs(amp - exp).max() < 1e-12, lambda: "Lproj[%d] applied to power %s has harmonic amplitudes %s, expected %s" % (l, P[q], amp.tolist(), exp.tolist()))
                checked += 1
    elif name == "static_index":
        # the index constructors are static functions of Lmax: check them for every small order
        f = T.makeindexPowerYlm if dim == 3 else T.makeindexPowerFC
        for Lx in range(0, 7):
            NHx, NPx, p2i, i2p, h2i, i2h, plr = f(Lx)
            Px = tr.powers(dim, Lx)
            require(NPx == len(Px) and NHx == ((Lx + 1) ** 2 if dim == 3 else 2 * Lx + 1), "counts for Lmax=%d" % Lx)
            for i, t in enumerate(Px):
                require(int(p2i[t]) == i and tuple(int(x) for x in i2p[i]) == t, lambda: "Lmax=%d: power %s has index %d" % (Lx, t, p2i[t]))
                checked += 1
            for l in range(Lx + 1):
                require(int(plr[l]) == tr.npow(dim, l), "Lmax=%d: powlrange[%d]" % (Lx, l))
            require(int(plr[-1]) == 0, "Lmax=%d: powlrange[-1]" % Lx)
    else:
        raise HarnessError("unknown table %r" % name)
    return {"key": "table:%d:%s" % (dim, name), "nontrivial": True, "classes": ["table", "table_dim%d" % dim],
            "sample": {"kind": "table", "dim": dim, "table": name, "entries_checked": checked}}


def check(case):
    kind = case.get("kind", "algebra")
    if kind == "algebra":
        return check_algebra(case)
    if kind == "construct":
        return check_construct(case)
    if kind == "table":
        return check_table(case)
    raise HarnessError("unknown case kind %r" % kind)


def run(ctx):
    dev = tr.selfcheck()
    if dev > 1e-11:
        raise HarnessError("oracle self-check failed: harmonics/quadrature inconsistent (%.2e)" % dev)
    ctx.note("oracle_selfcheck_max_deviation", dev)
    ctx.note("tolerance", TOL)
    ctx.corpus(check)
    tabs = table_cases()
    ok = ctx.cases([c for i, c in enumerate(tabs) if ctx.mine(i)], check, label="index tables")
    ctx.note("index_tables", {"Lmax": LMAX, "tables_per_dimension": len(TABLES3), "enumeration_complete": bool(ok)})
    ctx.given(construct_cases(), check, quick=800, thorough=15000, salt=1, label="constructexpansion")
    ctx.given(algebra_cases(3), check, quick=2400, thorough=50000, salt=2, label="algebra 3D")
    ctx.given(algebra_cases(2), check, quick=2400, thorough=50000, salt=3, label="algebra 2D")
    if _EXCLUDED["real_complex_mix"]:
        ctx.exclude("real_complex_mix", _EXCLUDED["real_complex_mix"])


def replay(case):
    check(case)
