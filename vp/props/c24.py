"""C24  Star sets are complete symmetry orbits of reachable pair states."""
import os

import numpy as np
from hypothesis import strategies as st

from ..core import Violation, HarnessError, require, canon
from ..strategies import crystals as cs, pairs
from ..oracles import pairstates_ref as ref

ID = "C24"
RULE = ("Hypothesis draws a crystal recipe (2D/3D, generated decorations or the suite's catalogue incl. crystals whose vacancy sites carry a "
        "vector basis; <= 3 vacancy sites), the vacancy species, a cutoff shell k in 1..3, a range N in 1..3 (lowered by construction until the "
        "brute-force state count is <= 600), origin states on/off, the form of the network handed to StarSet (Cartesian or lattice), a split "
        "N1+N2 for the addition law, an earlier range for re-generation and the operands of diffgenerate. Oracle: breadth-first walk of the "
        "vacancy over integer (site, cell) positions from every solute site, orbits by applying (rot, trans, indexmap) with own integer "
        "arithmetic; StarSet.states must equal that set exactly, dx must be the geometric separation, the stars must be exactly the orbits, "
        "index/indexdict/stateindex/starindex/__contains__ must agree for freshly built PairStates (and answer None outside), s1+s2 and s1+=s2 "
        "must equal generate(N1+N2) as partitions, and diffgenerate must contain every endpoint difference, partitioned into complete orbits. "
        "Non-trivial: >= 2 vacancy sites or N >= 2; distinct by (crystal, species, cutoff, N, origin).")
ASSUMPTIONS = ["the vacancy jump network is the library's own crys.jumpnetwork at a shell-midpoint cutoff (its completeness and closure are C21's subject)",
               "both operands of an addition carry the same origin-state flag",
               "dx is compared with L(R+u_j-u_i) to 1e-9 of the lattice scale (one matrix-vector product against sums of <= 3 jump vectors)"]
SHARDS = {"quick": 4, "thorough": 16}
CAP = 600
DIFFCAP = 140          # diffgenerate(S, S) is quadratic in the state count
EXCLUDE_NOGROWTH = False   # see check(): s1 + s2 raises IndexError when the sum adds no new state (confined networks)


@st.composite
def cases(draw):
    c = draw(pairs.setups())
    c["lattice_form"] = draw(st.booleans())
    c["split"] = draw(st.integers(0, 3))
    c["previous"] = draw(st.integers(0, 3))
    c["diff"] = draw(st.sampled_from(["SS", "S1", "1S", "12"]))
    return c


def keyset(S):
    return [(int(ps.i), int(ps.j)) + tuple(int(x) for x in ps.R) for ps in S.states]


def partition(S, keys=None):
    keys = keyset(S) if keys is None else keys
    return set(frozenset(keys[x] for x in star) for star in S.stars if len(star) > 0)


def make_ps(stars, pg, s):
    return stars.PairState(i=s[0], j=s[1], R=np.array(s[2:], dtype=int), dx=pg.dx(s))


def check_starset(S, expected, pg, stars, label, scale):
    """states == expected (as a set, no duplicates), dx geometric, stars == orbits, lookups consistent"""
    keys = keyset(S)
    require(S.Nstates == len(S.states), lambda: "%s: Nstates %d != len(states) %d" % (label, S.Nstates, len(S.states)))
    require(len(set(keys)) == len(keys), lambda: "%s: duplicate states in the state list" % label)
    got = set(keys)
    if got != set(expected):
        missing, extra = sorted(set(expected) - got), sorted(got - set(expected))
        raise Violation("%s: state set differs from the brute-force reachable set: %d missing (e.g. %s), %d unexpected (e.g. %s)"
                        % (label, len(missing), missing[:2], len(extra), extra[:2]))
    if keys:
        dxs = np.array([ps.dx for ps in S.states], dtype=float)
        err = np.abs(dxs - pg.dx_array(np.array(keys, dtype=int))).max()
        require(err <= 1e-9 * scale, lambda: "%s: a state's dx differs from L(R+u_j-u_i) by %.2e" % (label, err))
    # partition into complete orbits
    seen = [0] * len(keys)
    for star in S.stars:
        for x in star:
            require(0 <= x < len(keys), lambda: "%s: star refers to state index %s outside the state list" % (label, x))
            seen[x] += 1
    require(all(c == 1 for c in seen), lambda: "%s: stars do not partition the states (state %d appears in %d stars)"
            % (label, [c == 1 for c in seen].index(False), seen[[c == 1 for c in seen].index(False)]))
    require(S.Nstars == len(S.stars), lambda: "%s: Nstars %d != len(stars) %d" % (label, S.Nstars, len(S.stars)))
    if keys:
        require(all(len(star) > 0 for star in S.stars), lambda: "%s: empty star" % label)
        try:
            sl, P, orbs, oid = pg.orbits(expected)
        except ref.NotClosed as e:
            raise HarnessError("reachable set not closed under the group, the jump network is not symmetric (C21 domain): %s" % e)
        want = set(frozenset(sl[a] for a in o) for o in orbs)
        have = partition(S, keys)
        if want != have:
            bad = sorted(sorted(x) for x in (have - want))
            raise Violation("%s: %d stars are not complete symmetry orbits (library has %d stars, brute force %d orbits); e.g. star %s"
                            % (label, len(bad), len(have), len(want), bad[0][:4] if bad else None))
    # lookups
    require(len(S.index) == len(keys), lambda: "%s: index array has length %d for %d states" % (label, len(S.index), len(keys)))
    require(len(S.indexdict) == len(keys), lambda: "%s: indexdict has %d entries for %d states" % (label, len(S.indexdict), len(keys)))
    for si, star in enumerate(S.stars):
        for x in star:
            ps = make_ps(stars, pg, keys[x])
            require(int(S.index[x]) == si, lambda: "%s: index[%d] = %d but the state is in star %d" % (label, x, S.index[x], si))
            require(S.indexdict.get(ps) == (x, si), lambda: "%s: indexdict[%s] = %s, expected %s" % (label, keys[x], S.indexdict.get(ps), (x, si)))
            require(S.stateindex(ps) == x and S.starindex(ps) == si and (ps in S),
                    lambda: "%s: stateindex/starindex/__contains__ of %s give %s/%s/%s, expected %d/%d/True" % (label, keys[x], S.stateindex(ps), S.starindex(ps), ps in S, x, si))
    return keys


def outsiders(pg, expected, jumps):
    """a few states that are certainly not in the set: zero states (when absent) and one jump beyond the farthest state"""
    out = [pg.zero(i) for i in range(pg.n) if pg.zero(i) not in expected]
    if expected:
        far = max(expected, key=lambda s: (float(np.dot(pg.dx(s), pg.dx(s))), s))
        for t in jumps:
            if t[0] == far[1]:
                s = (far[0], t[1]) + tuple(a + b for a, b in zip(far[2:], t[2:]))
                if s not in expected:
                    out.append(s)
    return out[:8]


def check(case, exclude=None):
    """exclude=None: follow the module flag; False: assert the full property (replays, known-finding witnesses)"""
    from onsager import crystalStars as stars
    crys, chem, sl, jn, pg, jcl, where = pairs.prepare(case)
    classes = cs.describe(crys)
    if not jn:
        return {"classes": classes + ["empty_network"], "nontrivial": False}
    jumps = [t for cl in jcl for t in cl]
    origin = bool(case["origin"])
    N, expected = ref.capped_range(pg, jumps, case["N"], CAP, origin)
    scale = float(np.linalg.norm(pg.L, axis=0).max()) * (N + 1)
    if case["lattice_form"]:
        net = [[((t[0], t[1]), np.array(t[2:], dtype=int)) for t in cl] for cl in jcl]
        kw = {"lattice": True}
    else:
        net, kw = jn, {}

    def fresh(n, org=origin):
        return stars.StarSet(net, crys, chem, n, originstates=org, **kw)

    # 1. generation (fresh, and after an earlier generation with a different range on the same object)
    S = fresh(N)
    require(S.Nshells == N, lambda: "Nshells is %s after generating %d shells" % (S.Nshells, N))
    check_starset(S, expected, pg, stars, "generate(%d, originstates=%s)" % (N, origin), scale)
    prev = case["previous"]
    if prev != N:
        S2 = fresh(prev)
        S2.generate(N, originstates=origin)
        check_starset(S2, expected, pg, stars, "generate(%d) then generate(%d)" % (prev, N), scale)
        classes.append("regenerated")
    for s in outsiders(pg, expected, jumps):
        ps = make_ps(stars, pg, s)
        require(S.stateindex(ps) is None and S.starindex(ps) is None and ps not in S,
                lambda: "state %s is outside the star set but stateindex/starindex/__contains__ give %s/%s/%s" % (s, S.stateindex(ps), S.starindex(ps), ps in S))
    vb = pairs.has_vector_basis(pg)

    # 2. addition
    n1 = case["split"] % (N + 1)
    n2 = N - n1
    full_n1 = pg.reachable(jumps, max(n1, n2), origin) if max(n1, n2) > 0 else set()
    grows = len(expected) > len(full_n1) or min(n1, n2) == 0
    if not grows and (EXCLUDE_NOGROWTH if exclude is None else exclude):
        classes.append("sum_adds_no_state(excluded)")
    else:
        a, b = fresh(n1), fresh(n2)
        na, nb = len(a.states), len(b.states)
        c = a + b
        require(c.Nshells == N, lambda: "(%d shells) + (%d shells) reports Nshells = %s" % (n1, n2, c.Nshells))
        check_starset(c, expected, pg, stars, "StarSet(%d) + StarSet(%d)" % (n1, n2), scale)
        require(len(a.states) == na and len(b.states) == nb and a.Nshells == n1 and b.Nshells == n2, "a + b modified an operand")
        a += b
        require(a.Nshells == N, lambda: "(%d shells) += (%d shells) reports Nshells = %s" % (n1, n2, a.Nshells))
        check_starset(a, expected, pg, stars, "StarSet(%d) += StarSet(%d)" % (n1, n2), scale)
        classes.append("add_%d+%d" % (n1, n2))

    # 3. endpoint differences
    mode = case["diff"]
    if len(expected) > DIFFCAP and mode == "SS":
        mode = "S1"
    one = fresh(1)
    two = fresh(min(2, N))
    A = {"SS": S, "S1": S, "1S": one, "12": one}[mode]
    B = {"SS": S, "S1": one, "1S": S, "12": two}[mode]
    if len(A.states) * len(B.states) <= 60000:
        dS = S.copy(empty=True)
        dS.diffgenerate(A, B)
        ka, kb = keyset(A), keyset(B)
        byi = {}
        for s in kb:
            byi.setdefault(s[0], []).append(s)
        want = set()
        for s1 in ka:
            for s2 in byi.get(s1[0], ()):
                want.add(pg.endpoint_difference(s1, s2))
        got = set(keyset(dS))
        missing = sorted(want - got)
        require(not missing, lambda: "diffgenerate(%s): %d endpoint differences are missing, e.g. %s" % (mode, len(missing), missing[:2]))
        # the difference set is a star set: exact content, complete orbits, consistent lookups
        check_starset(dS, want, pg, stars, "diffgenerate(%s)" % mode, 2 * scale)
        classes.append("diff_%s" % mode)
        classes.append("diffstates_%s" % ("le50" if len(want) <= 50 else "le300" if len(want) <= 300 else "gt300"))

    nst = len(expected)
    classes += ["N%d" % N, "origin" if origin else "noorigin", "sites%d" % pg.n, "vector_basis" if vb else "no_vector_basis",
                "lattice_form" if case["lattice_form"] else "cartesian_form",
                "states_%s" % ("le20" if nst <= 20 else "le100" if nst <= 100 else "le300" if nst <= 300 else "gt300"),
                "stars_%s" % ("le3" if S.Nstars <= 3 else "le10" if S.Nstars <= 10 else "gt10")]
    if N < case["N"]:
        classes.append("range_capped")
    if origin and vb:
        classes.append("origin_states_with_vector_basis")
    return {"key": canon([case["recipe"]["lattice"], case["recipe"]["basis"], chem, case["k"], N, origin]),
            "nontrivial": pg.n >= 2 or N >= 2, "classes": classes,
            "sample": {"crystal": case["recipe"]["name"], "lattice": case["recipe"]["lattice"], "basis": case["recipe"]["basis"], "chem": chem,
                       "shell": case["k"], "N": N, "origin": origin, "Nstates": nst, "Nstars": S.Nstars}}


def catalogue_cases():
    out = []
    for name in pairs.NAMES:
        for N in (1, 2, 3):
            for origin in (False, True):
                out.append({"recipe": cs.CATALOGUE[name], "chem_pick": 0, "k": 1 if N == 3 else 2, "N": N, "origin": origin,
                            "lattice_form": origin, "split": 1, "previous": 0, "diff": "SS" if N < 3 else "1S"})
    return out


def run(ctx):
    def chk(case):
        info = check(case)
        if "sum_adds_no_state(excluded)" in info.get("classes", ()):
            ctx.exclude("C24-add-no-new-state")
        return info
    ctx.corpus(chk)
    ctx.known(lambda case: check(case, exclude=False))
    base = catalogue_cases()
    if ctx.quick:
        base = [c for c in base if c["N"] <= 2]
    ctx.cases([c for i, c in enumerate(base) if ctx.mine(i)], chk, label="catalogue")
    ctx.given(cases(), chk, quick=200, thorough=6000, shrink=os.environ.get('VERIF_NOSHRINK') is None)


def replay(case):
    check(case, exclude=False)
