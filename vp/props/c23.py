"""C23  Coordinate conversions and symmetry actions are mutually consistent."""
import os
import sys

import numpy as np
from hypothesis import strategies as st

from .. import core
from ..core import Violation, HarnessError, require, canon
from ..strategies import crystals as cs, values as vs
from ..oracles import geom

ID = "C23"
RULE = ("Hypothesis draws a crystal recipe (2D/3D, 1-3 species, catalogue included), two operations g and h (an element of the "
        "group, optionally multiplied by a second element, inverted and shifted by an integer lattice vector), atomic positions "
        "(species, index, lattice vector in +-6, Cartesian components moved by <= 4 ulp), unit-cell points (components from a list "
        "of cell-boundary values 0, 2^-53, 1-2^-53, 1-1e-9, ... or arbitrary floats in [0,1)), pair states, directions and tensors. "
        "Oracle: the affine map x -> L(rot L^-1 x + trans) evaluated from the operation's integer rotation and translation, atoms "
        "located by brute-force search; pos2cart/unit2cart/cart2unit/cart2pos/ClusterSite.fromcryscart must round-trip, "
        "g_pos/g_vect/g_cart/ClusterSite.g/PairState.g must land on the oracle's image, g_direc/g_tensor must equal explicit index "
        "sums, (g*h) must act as g after h, g.inv() must undo g, g+n must add the lattice vector n. Non-trivial: g is not the "
        "identity map; distinct by (crystal, resolved operations, points).")
ASSUMPTIONS = ["tolerance 1e-9 * (1+|x|) absolute for Cartesian comparisons (coordinates <= ~40, round-off ~1e-14); integer outputs are compared exactly",
               "cart2unit may return a unit-cell part in [-1e-8, 1) (incell's documented 1e-8 fudge): only the represented point R+u and the interval are asserted for boundary points",
               "cart2pos is asserted on points within 4 ulp of an atom; 'None for non-atomic points' only for points farther than 1e-3 from every atom"]
SHARDS = {"quick": 4, "thorough": 16}
TOL = 1e-9

# a real library defect found by this check (see final report): ClusterSite.fromcrysunit always raises TypeError
# (it calls cls.fromcryscart(cart_pos) without the crystal).  While it is unrepaired the route is not exercised.
# (C23_INCLUDE_FROMCRYSUNIT=1 in the environment switches the exclusion off to re-find it.)
EXCLUDE_FROMCRYSUNIT = False  # R20 fixed in /repo (95fc3bb)

BOUNDARY = [0., 0.5, 2. ** -53, 1 - 2. ** -53, 1e-12, 1e-9, 1 - 1e-9, 1 - 3e-8, 3e-8, 0.25, 1. / 3., 2. / 3.]


@st.composite
def cases(draw):
    rec = draw(cs.recipes(max_mobile=6, max_other=4))
    d = len(rec["lattice"])
    case = {"recipe": rec, "g": draw(vs.opspecs(d, plain_prob=0.35)), "h": draw(vs.opspecs(d, plain_prob=0.35)),
            "shift": draw(vs.lattvec(d, -3, 3))}
    case["atoms"] = [{"c": draw(st.integers(0, 2)), "i": draw(st.integers(0, 7)), "R": draw(vs.lattvec(d)), "ulps": draw(vs.ulps(d))}
                     for _ in range(draw(st.integers(1, 3)))]
    comp = st.one_of(st.sampled_from(BOUNDARY), st.floats(0, 1, exclude_max=True, allow_nan=False))
    case["units"] = [{"u": [draw(comp) for _ in range(d)], "R": draw(vs.lattvec(d))} for _ in range(draw(st.integers(1, 3)))]
    case["pairs"] = [{"c": draw(st.integers(0, 2)), "i": draw(st.integers(0, 7)), "j": draw(st.integers(0, 7)), "R": draw(vs.lattvec(d, -4, 4))}
                     for _ in range(draw(st.integers(1, 2)))]
    f = st.floats(-2, 2, allow_nan=False).map(lambda x: float(np.round(x, 6)))
    case["direc"] = [draw(f) for _ in range(d)]
    case["tensor"] = [[draw(f) for _ in range(d)] for _ in range(d)]
    if not EXCLUDE_FROMCRYSUNIT:
        case["fromcrysunit"] = True
    return case


class Ora(object):
    """the oracle's view of the crystal: lattice, basis and brute-force atom location"""

    def __init__(self, crys):
        self.L = np.array(crys.lattice, dtype=float)
        self.Linv = np.linalg.inv(self.L)
        self.d = self.L.shape[0]
        self.basis = [[np.array(u, dtype=float) for u in ul] for ul in crys.basis]
        self.atoms = [(c, u) for c, ul in enumerate(self.basis) for u in ul]
        self.index = [(c, i) for c, ul in enumerate(self.basis) for i in range(len(ul))]

    def cart(self, R, u):
        return self.L @ (np.asarray(R, dtype=float) + np.asarray(u, dtype=float))

    def apply(self, g, x):
        """image of Cartesian point x under the operation described by g.rot, g.trans"""
        return self.L @ (np.asarray(g.rot, dtype=float) @ (self.Linv @ x) + np.asarray(g.trans, dtype=float))

    def rotate(self, g):
        return self.L @ np.asarray(g.rot, dtype=float) @ self.Linv

    def locate(self, c, x):
        """(R, (c,i)) of the atom of species c at Cartesian x by brute force, None if there is none within 1e-6"""
        u = self.Linv @ x
        n = geom.find_atom(self.L, self.atoms, c, u)
        if n is None:
            return None
        ci = self.index[n]
        R = np.round(u - self.basis[ci[0]][ci[1]]).astype(int)
        return R, ci

    def nearest_atom_distance(self, x):
        u = self.Linv @ x
        return min(np.linalg.norm(self.L @ geom.wrap(u - v)) for (_, v) in self.atoms)


def close(a, b, what, scale=None):
    a, b = np.asarray(a, dtype=float), np.asarray(b, dtype=float)
    require(a.shape == b.shape, lambda: "%s: shapes %s and %s differ" % (what, a.shape, b.shape))
    s = 1. + (np.abs(b).max() if scale is None else scale)
    err = np.abs(a - b).max() if a.size else 0.
    require(err <= TOL * s, lambda: "%s: %s vs %s (difference %.3e)" % (what, a.tolist(), b.tolist(), err))


def isint(a):
    return isinstance(a, np.ndarray) and np.issubdtype(a.dtype, np.integer)


def same_site(a, b, what):
    """(R, ci) pairs compared exactly"""
    require(a[1] is not None and tuple(a[1]) == tuple(b[1]) and np.all(np.asarray(a[0]) == np.asarray(b[0])),
            lambda: "%s: got %s %s, expected %s %s" % (what, np.asarray(a[0]).tolist(), a[1], np.asarray(b[0]).tolist(), b[1]))


def is_identity(o, g):
    return np.all(np.asarray(g.rot) == np.eye(o.d, dtype=int)) and np.abs(np.asarray(g.trans)).max() < 1e-9


def check(case):
    from onsager import crystal, crystalStars, cluster
    rec = case["recipe"]
    try:
        crys = cs.build(rec)
    except ArithmeticError as e:
        if "Reduction did not produce" in str(e):   # Crystal.reduce on a non-primitive description: C19's subject (R12)
            return {"classes": ["reduce_arith_error(C19 domain)"], "nontrivial": False}
        raise
    o = Ora(crys)
    d = o.d
    G = vs.sorted_ops(crys)
    g, h = vs.build_op(crys, case["g"], G), vs.build_op(crys, case["h"], G)
    gh, gi = g * h, g.inv()
    nvec = np.array(case["shift"], dtype=int)
    gp, gm = g + nvec, g - nvec
    ops = {"g": g, "h": h}
    Cg = {k: o.rotate(op) for k, op in ops.items()}
    zero = np.zeros(d, dtype=int)
    classes = cs.describe(crys)

    # ---- operation algebra as maps -------------------------------------------------------------
    for nm, op in (("g", g), ("h", h), ("g*h", gh), ("g.inv()", gi), ("g+n", gp), ("g-n", gm)):
        require(isint(np.asarray(op.rot)), "%s.rot is not an integer array" % nm)
        close(op.cartrot, o.rotate(op), "%s.cartrot vs L rot L^-1" % nm)

    # ---- directions and tensors ------------------------------------------------------------------
    v = np.array(case["direc"], dtype=float)
    T = np.array(case["tensor"], dtype=float)
    for k, op in ops.items():
        C = Cg[k]
        close(crys.g_direc(op, v), np.array([sum(C[a, b] * v[b] for b in range(d)) for a in range(d)]), "g_direc(%s)" % k)
        ref = np.array([[sum(C[a, p] * C[b, q] * T[p, q] for p in range(d) for q in range(d)) for b in range(d)] for a in range(d)])
        close(crys.g_tensor(op, T), ref, "g_tensor(%s)" % k)
    close(crys.g_direc(gh, v), Cg["g"] @ (Cg["h"] @ v), "g_direc(g*h) vs g after h")
    close(crys.g_tensor(gh, T), Cg["g"] @ (Cg["h"] @ T @ Cg["h"].T) @ Cg["g"].T, "g_tensor(g*h) vs g after h")
    close(crys.g_direc(gi, crys.g_direc(g, v)), v, "g_direc: g.inv() does not undo g")
    close(crys.g_tensor(gi, crys.g_tensor(g, T)), T, "g_tensor: g.inv() does not undo g")
    close(crys.g_direc(g, crys.g_direc(gi, v)), v, "g_direc: g does not undo g.inv()")

    def point_checks(x, label):
        """everything that holds for an arbitrary Cartesian point"""
        for k, op in ops.items():
            close(crys.g_cart(op, x), o.apply(op, x), "g_cart(%s, %s)" % (k, label))
        ghx = o.apply(g, o.apply(h, x))
        close(crys.g_cart(gh, x), ghx, "g_cart(g*h, %s) vs g after h" % label)
        close(crys.g_cart(g, crys.g_cart(h, x)), ghx, "g_cart(g, g_cart(h, %s))" % label)
        close(crys.g_cart(gi, crys.g_cart(g, x)), x, "g_cart: g.inv() does not undo g at %s" % label)
        close(crys.g_cart(g, crys.g_cart(gi, x)), x, "g_cart: g does not undo g.inv() at %s" % label)
        close(crys.g_cart(gp, x), o.apply(g, x) + o.L @ nvec, "g_cart(g+n, %s)" % label)
        close(crys.g_cart(gm, x), o.apply(g, x) - o.L @ nvec, "g_cart(g-n, %s)" % label)
        # Cartesian -> (lattice, unit) -> Cartesian
        Rc, uc = crys.cart2unit(x)
        require(isint(Rc), "cart2unit(%s): lattice part is not an integer array" % label)
        require(np.all(uc >= -1.0000001e-8) and np.all(uc < 1.), lambda: "cart2unit(%s): unit part %s outside [-1e-8, 1)" % (label, uc.tolist()))
        close(crys.unit2cart(Rc, uc), x, "unit2cart(cart2unit(%s))" % label)
        close(o.cart(Rc, uc), x, "cart2unit(%s) does not represent the point" % label)
        return Rc, uc

    def vect_checks(R, u, x, label):
        """g_vect on (R, u) representing the Cartesian point x"""
        for nm, op, ref in (("g", g, o.apply(g, x)), ("h", h, o.apply(h, x)), ("g*h", gh, o.apply(g, o.apply(h, x))),
                            ("g+n", gp, o.apply(g, x) + o.L @ nvec)):
            R2, u2 = crys.g_vect(op, R, u)
            require(isint(R2), "g_vect(%s, %s): lattice part is not an integer array" % (nm, label))
            require(np.all(u2 >= -1.0000001e-8) and np.all(u2 < 1.), lambda: "g_vect(%s, %s): unit part %s outside [-1e-8, 1)" % (nm, label, u2.tolist()))
            close(o.cart(R2, u2), ref, "g_vect(%s, %s) vs the Cartesian image" % (nm, label))
            close(crys.unit2cart(R2, u2), crys.g_cart(op, x), "unit2cart(g_vect(%s, %s)) vs g_cart" % (nm, label), scale=np.abs(ref).max())
        R1, u1 = crys.g_vect(h, R, u)
        R2, u2 = crys.g_vect(g, R1, u1)
        close(o.cart(R2, u2), o.apply(g, o.apply(h, x)), "g_vect(g, g_vect(h, %s)) vs g after h" % label)
        R1, u1 = crys.g_vect(g, R, u)
        R2, u2 = crys.g_vect(gi, R1, u1)
        close(o.cart(R2, u2), x, "g_vect: g.inv() does not undo g at %s" % label)

    # ---- atomic positions --------------------------------------------------------------------------
    for a in case["atoms"]:
        c = a["c"] % crys.Nchem
        i = a["i"] % len(crys.basis[c])
        ci = (c, i)
        R = np.array(a["R"], dtype=int)
        label = "atom %s R=%s" % (ci, a["R"])
        x0 = o.cart(R, o.basis[c][i])
        close(crys.pos2cart(R, ci), x0, "pos2cart(%s)" % label)
        close(crys.unit2cart(R, crys.basis[c][i]), x0, "unit2cart(%s)" % label)
        x = vs.nudge(x0, a["ulps"])
        same_site(crys.cart2pos(x), (R, ci), "cart2pos(pos2cart(%s) moved by %s ulp)" % (label, a["ulps"]))
        same_site(crys.cart2pos(crys.pos2cart(R, ci)), (R, ci), "cart2pos(pos2cart(%s))" % label)
        site = cluster.ClusterSite(ci=ci, R=R)
        fs = cluster.ClusterSite.fromcryscart(crys, x)
        require(fs == site and fs.ci == ci and np.all(fs.R == R), lambda: "ClusterSite.fromcryscart(%s) gives %s" % (label, str(fs)))
        if case.get("fromcrysunit"):
            fu = cluster.ClusterSite.fromcrysunit(crys, R + crys.basis[c][i])
            require(fu == site, lambda: "ClusterSite.fromcrysunit(%s) gives %s" % (label, str(fu)))
        point_checks(x, label)
        vect_checks(R, np.array(crys.basis[c][i]), x0, label)
        # g_pos / ClusterSite.g against the brute-force image
        imgs = {}
        for nm, op, ref in (("g", g, o.apply(g, x0)), ("h", h, o.apply(h, x0)), ("g*h", gh, o.apply(g, o.apply(h, x0))),
                            ("g.inv()", gi, None), ("g+n", gp, o.apply(g, x0) + o.L @ nvec), ("g-n", gm, o.apply(g, x0) - o.L @ nvec)):
            R2, ci2 = crys.g_pos(op, R, ci)
            require(isint(R2), "g_pos(%s, %s): lattice part is not an integer array" % (nm, label))
            imgs[nm] = (R2, ci2)
            if ref is None:
                continue
            loc = o.locate(c, ref)
            require(loc is not None, lambda: "the image of %s under %s is not an atom of the same species (the operation built from the "
                    "group by product/inverse/shift is not a symmetry)" % (label, nm))
            same_site((R2, ci2), loc, "g_pos(%s, %s) vs brute-force image" % (nm, label))
            close(crys.pos2cart(R2, ci2), crys.g_cart(op, x0), "pos2cart(g_pos(%s, %s)) vs g_cart" % (nm, label))
            s2 = site.g(crys, op)
            require(s2 == cluster.ClusterSite(ci=loc[1], R=loc[0]) and tuple(s2.ci) == tuple(loc[1]) and np.all(s2.R == loc[0]),
                    lambda: "ClusterSite.g(%s, %s) gives %s, brute force %s %s" % (nm, label, str(s2), loc[1], loc[0].tolist()))
        same_site(crys.g_pos(g, *imgs["h"]), imgs["g*h"], "g_pos(g, g_pos(h, %s)) vs g_pos(g*h)" % label)
        same_site(crys.g_pos(gi, *imgs["g"]), (R, ci), "g_pos: g.inv() does not undo g at %s" % label)
        same_site(crys.g_pos(g, *imgs["g.inv()"]), (R, ci), "g_pos: g does not undo g.inv() at %s" % label)
        same_site((imgs["g+n"][0] - nvec, imgs["g+n"][1]), imgs["g"], "g_pos(g+n, %s) - n vs g_pos(g)" % label)
        s1 = site.g(crys, h).g(crys, g)
        require(s1 == site.g(crys, gh), lambda: "ClusterSite.g(g) after .g(h) differs from .g(g*h) at %s" % label)
        require(site.g(crys, g).g(crys, gi) == site, lambda: "ClusterSite.g(g.inv()) does not undo .g(g) at %s" % label)

    # ---- unit-cell points (boundary values, arbitrary floats) --------------------------------------------
    nboundary = 0
    for p in case["units"]:
        R = np.array(p["R"], dtype=int)
        u = np.array(p["u"], dtype=float)
        label = "unit point R=%s u=%s" % (p["R"], p["u"])
        x = o.cart(R, u)
        close(crys.unit2cart(R, u), x, "unit2cart(%s)" % label)
        Rc, uc = point_checks(x, label)
        interior = np.all(u > 1e-6) and np.all(u < 1 - 1e-6)
        if interior:
            require(np.all(Rc == R), lambda: "cart2unit(unit2cart(%s)) returns lattice vector %s" % (label, Rc.tolist()))
            close(uc, u, "cart2unit(unit2cart(%s)) unit part" % label)
        else:
            nboundary += 1
        vect_checks(R, u, x, label)
        if o.nearest_atom_distance(x) > 1e-3:
            lat, ind = crys.cart2pos(x)
            require(ind is None, lambda: "cart2pos(%s) reports atom %s although no atom is within 1e-3" % (label, ind))
    if nboundary:
        classes.append("boundary_points")

    # ---- pair states --------------------------------------------------------------------------------
    PS = crystalStars.PairState
    for p in case["pairs"]:
        c = p["c"] % crys.Nchem
        n = len(crys.basis[c])
        i, j = p["i"] % n, p["j"] % n
        R = np.array(p["R"], dtype=int)
        label = "pair (%d: %d->%d, R=%s)" % (c, i, j, p["R"])
        dx = o.cart(R, o.basis[c][j] - o.basis[c][i])
        ps = PS(i=i, j=j, R=R, dx=dx)
        a = PS.fromcrys_latt(crys, c, (i, j), R)
        require(a == ps and a.i == i and a.j == j and np.all(a.R == R), lambda: "PairState.fromcrys_latt(%s) gives %s" % (label, str(a)))
        close(a.dx, dx, "PairState.fromcrys_latt(%s).dx" % label)
        b = PS.fromcrys(crys, c, (i, j), dx)
        require(b == ps and isint(b.R) and np.all(b.R == R), lambda: "PairState.fromcrys(%s) gives %s" % (label, str(b)))
        xi, xj = o.cart(zero, o.basis[c][i]), o.cart(R, o.basis[c][j])

        def image(maps):
            yi, yj = xi, xj
            for op in maps:
                yi, yj = o.apply(op, yi), o.apply(op, yj)
            li, lj = o.locate(c, yi), o.locate(c, yj)
            require(li is not None and lj is not None, lambda: "the image of %s is not a pair of atoms of the same species (the operation "
                    "built from the group by product/inverse/shift is not a symmetry)" % label)
            return li[1][1], lj[1][1], lj[0] - li[0], yj - yi

        def same_ps(q, ref, what):
            require(q.i == ref[0] and q.j == ref[1] and np.all(np.asarray(q.R) == ref[2]),
                    lambda: "%s: got %s, brute force (%d,%d) R=%s" % (what, str(q), ref[0], ref[1], ref[2].tolist()))
            close(q.dx, ref[3], "%s: dx" % what)
        same_ps(ps.g(crys, c, g), image([g]), "PairState.g(g) of %s" % label)
        same_ps(ps.g(crys, c, h), image([h]), "PairState.g(h) of %s" % label)
        same_ps(ps.g(crys, c, gh), image([h, g]), "PairState.g(g*h) of %s vs g after h" % label)
        same_ps(ps.g(crys, c, h).g(crys, c, g), image([h, g]), "PairState.g(h).g(g) of %s" % label)
        same_ps(ps.g(crys, c, gp), image([g]), "PairState.g(g+n) of %s (a lattice shift does not change a pair)" % label)
        back = ps.g(crys, c, g).g(crys, c, gi)
        require(back == ps, lambda: "PairState.g(g.inv()) does not undo .g(g) for %s: %s" % (label, str(back)))
        close(back.dx, dx, "PairState.g(g.inv()) after .g(g): dx of %s" % label)

    for nm, spec in (("g", case["g"]), ("h", case["h"])):
        if spec.get("b") is not None:
            classes.append("op_product")
        if spec.get("inv"):
            classes.append("op_inverse")
        if spec.get("shift") is not None:
            classes.append("op_shifted")
    if np.abs(np.asarray(g.trans) - np.round(np.asarray(g.trans))).max() > 1e-6:
        classes.append("g_fractional_translation")
    if np.linalg.det(np.asarray(g.rot, dtype=float)) < 0:
        classes.append("g_improper")
    nt = not is_identity(o, g)
    classes.append("g_identity" if not nt else "g_not_identity")
    if any(any(k != 0 for k in a["ulps"]) for a in case["atoms"]):
        classes.append("atom_moved_by_ulps")
    return {"key": canon([rec["lattice"], rec["basis"], np.asarray(g.rot).tolist(), np.round(np.asarray(g.trans), 9).tolist(),
                          np.asarray(h.rot).tolist(), np.round(np.asarray(h.trans), 9).tolist(), case["atoms"], case["units"], case["pairs"]]),
            "nontrivial": bool(nt), "classes": classes,
            "sample": {"crystal": rec["name"], "lattice": rec["lattice"], "basis": rec["basis"], "g": {"rot": np.asarray(g.rot).tolist(), "trans": np.asarray(g.trans).tolist()},
                       "h": {"rot": np.asarray(h.rot).tolist(), "trans": np.asarray(h.trans).tolist()}, "atoms": case["atoms"], "units": case["units"], "pairs": case["pairs"]}}


def _catalogue_cases():
    out = []
    for r in cs.catalogue():
        d = len(r["lattice"])
        for a in range(0, 48, 5):
            out.append({"recipe": r, "g": {"a": a, "b": None, "inv": False, "shift": None}, "h": {"a": a + 7, "b": 3, "inv": True, "shift": [1, -2, 3][:d]},
                        "shift": [2, 0, -1][:d],
                        "atoms": [{"c": a % 3, "i": a % 5, "R": [3, -2, 5][:d], "ulps": [4, -4, 1][:d]}],
                        "units": [{"u": [0., 1 - 2. ** -53, 2. ** -53][:d], "R": [0, -1, 6][:d]}, {"u": [0.13, 0.71, 0.29][:d], "R": [-6, 2, 0][:d]}],
                        "pairs": [{"c": 0, "i": a % 3, "j": (a + 1) % 4, "R": [1, -3, 2][:d]}],
                        "direc": [0.3, -1.1, 0.7][:d], "tensor": [row[:d] for row in [[1., 0.2, -0.4], [0.5, -2., 0.3], [0.1, 0.9, 1.5]][:d]]})
    return out


def as_violation(fn):
    """library exceptions -> Violation (the framework does this inside given/cases, but not inside ctx.known)"""
    def inner(case):
        try:
            return fn(case)
        except (Violation, HarnessError):
            raise
        except Exception as e:
            tb = sys.exc_info()[2]
            frame = core.library_frame(tb)
            if frame is None or core.innermost_is_harness(tb):
                raise
            raise Violation("unexpected %s in %s: %s" % (type(e).__name__, frame, str(e)[:300]))
    return inner


def run(ctx):
    ctx.corpus(check)
    base = _catalogue_cases()
    if ctx.quick:
        base = base[::2]
    ctx.cases([c for i, c in enumerate(base) if ctx.mine(i)], check, label="catalogue")
    ctx.known(as_violation(check))
    ctx.given(cases(), check, quick=900, thorough=40000)
    if EXCLUDE_FROMCRYSUNIT:
        ctx.exclude("fromcrysunit", ctx.evaluations)   # every case would exercise the broken route on its atomic positions


def replay(case):
    check(case)
