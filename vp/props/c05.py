"""C05  Faster transitions never reduce diffusivity (Rayleigh monotonicity)."""
import numpy as np
from hypothesis import strategies as st

from ..core import Violation, HarnessError, require, canon, known_ids
from ..strategies import crystals as cs, networks as nw, vacancy as vs
from . import c02

ID = "C05"
RULE = ("Hypothesis draws a base case (interstitial: crystal/species/cutoff/data as C02; vacancy-mediated: crystal, percolating network, "
        "Nthermo, random data, in 30% of cases with all omega2 transition states lowered by 9..25 kT so that the large-omega2 algorithm is "
        "active), chooses one transition-state class uniformly among the interstitial / omega0 / omega1 / omega2 classes and lowers its "
        "free energy by delta in [0.05, 5].  Oracle: lambda_min(T' - T) >= -tol for T in {interstitial D} or {L0vv, Lss} (each is a Dirichlet "
        "minimum, monotone in every edge conductance at fixed site probabilities).  Non-trivial: lambda_max(T'-T) > 1e-6|T| (the class "
        "carries current); distinct by (base case, class, delta).")
ASSUMPTIONS = ["tolerance 1e-9|T| interstitial; 1e-7|L0vv| for omega1/omega2 changes (Green function cached), 1e-6|L0vv| for omega0 changes (Green function recomputed)",
               "when an omega0 transition state is lowered, the omega1/omega2 transition states supplied to Lij are kept fixed (only that one free energy changes)"]
SHARDS = {"quick": 4, "thorough": 16}
EXCLUDE_R11 = "R11" in known_ids("known")
EXCLUDE_R13 = "R13" in known_ids("known")


@st.composite
def cases(draw):
    delta = float(np.round(draw(st.floats(0.05, 5.0)), 3))
    if draw(st.floats(0, 1)) < 0.4:
        base = draw(c02.cases())
        crys = cs.build(base["recipe"])
        sl, jn, cut = nw.network(crys, base["chem"], base["k"], base["closest"])
        base["kind"] = "interstitial"
        base["which"] = draw(st.integers(0, max(len(jn) - 1, 0)))
        base["delta"] = delta
        return base
    setup = draw(vs.setups(originstates="no" if EXCLUDE_R11 else "any"))
    crys, sl, jn, calc = vs.calculator(setup)
    large = draw(st.floats(0, 1)) < 0.3
    if large and EXCLUDE_R13:
        from . import c08
        if c08.om2_joins_inequivalent_sites(calc) or (c08.EXCLUDE_R41 and c08.low_symmetry_orbit(calc)):
            large = False   # region of known finding R13 (reported under C08)
    data = draw(vs.datasets(calc, om2shift=(-draw(st.sampled_from([9., 18., 25.])) if large else 0.)))
    fam = draw(st.sampled_from(["bFT0", "bFT1", "bFT2"]))
    which = draw(st.integers(0, len(data[fam]) - 1))
    return {"kind": "vacancy", "setup": setup, "data": data, "family": fam, "which": which, "delta": delta, "large_om2": large}


def check(case):
    d = case["delta"]
    if case["kind"] == "interstitial":
        crys, sl, jn, diff = c02.diffuser(case)
        if not jn:
            return {"classes": ["empty_network"], "nontrivial": False}
        if len(case["pre"]) != len(sl) or len(case["preT"]) != len(jn):
            raise HarnessError("stale case")
        D = diff.diffusivity(case["pre"], case["ene"], case["preT"], case["eneT"])
        eT = list(case["eneT"])
        eT[case["which"] % len(eT)] -= d
        D2 = diff.diffusivity(case["pre"], case["ene"], case["preT"], eT)
        from ..oracles import interstitial_ref as ref
        rho, jumps = ref.rates_from_data(jn, nw.invmap(sl), case["pre"], case["ene"], case["preT"], eT)
        sc = max(np.abs(D2).max(), np.abs(ref.assemble(rho, jumps, crys.dim)[2]).max())
        ev = np.linalg.eigvalsh(0.5 * ((D2 - D) + (D2 - D).T))
        require(ev.min() >= -1e-9 * sc, lambda: "lowering interstitial transition state %d by %.3f kT decreases the diffusivity in some direction: "
                "lambda_min(D'-D)/|D| = %.3e; D = %s, D' = %s" % (case["which"] % len(eT), d, ev.min() / sc, np.asarray(D).tolist(), np.asarray(D2).tolist()))
        return {"nontrivial": bool(ev.max() > 1e-6 * sc), "classes": cs.describe(crys) + ["interstitial", "NV%d" % min(diff.NV, 3)],
                "sample": {"kind": "interstitial", "crystal": case["recipe"]["name"], "basis": case["recipe"]["basis"], "eneT": case["eneT"], "lowered": case["which"] % len(eT), "delta": d,
                           "eig_of_increase": ev.tolist()}}
    crys, sl, jn, calc = vs.calculator(case["setup"])
    data = case["data"]
    if not vs.sizes_ok(calc, data):
        raise HarnessError("stale case")
    fam = case["family"]
    w = case["which"] % len(data[fam])
    data2 = {k: list(v) for k, v in data.items()}
    data2[fam][w] = data2[fam][w] - d
    A = calc.Lij(*vs.args(data))
    B = calc.Lij(*vs.args(data2))
    sc = max(np.abs(A[0]).max(), np.abs(B[0]).max())
    tol = 1e-6 if fam == "bFT0" else 1e-7
    classes = cs.describe(crys) + vs.describe(calc, data) + ["vacancy", "lower_" + fam] + (["large_om2_regime"] if case.get("large_om2") else [])
    nt = False
    out = {}
    for nm, k in (("L0vv", 0), ("Lss", 1)):
        dT = np.asarray(B[k]) - np.asarray(A[k])
        s = max(sc, np.abs(A[k]).max(), np.abs(B[k]).max())
        ev = np.linalg.eigvalsh(0.5 * (dT + dT.T))
        out[nm] = ev.tolist()
        require(np.all(np.isfinite(ev)), "%s not finite" % nm)
        require(ev.min() >= -tol * s, lambda: "lowering %s[%d] by %.3f kT decreases %s in some direction: lambda_min(T'-T)/scale = %.3e; T = %s, T' = %s"
                % (fam, w, d, nm, ev.min() / s, np.asarray(A[k]).tolist(), np.asarray(B[k]).tolist()))
        nt = nt or ev.max() > 1e-6 * s
    return {"key": canon([vs.setup_key(case["setup"]), data, fam, w, d]), "nontrivial": bool(nt), "classes": classes,
            "sample": {"kind": "vacancy", "crystal": case["setup"]["recipe"]["name"], "basis": case["setup"]["recipe"]["basis"], "Nthermo": case["setup"]["Nthermo"],
                       "lowered": [fam, w, d], "eig_of_increase": out, "data": data}}


def run(ctx):
    ctx.corpus(check)
    ctx.given(cases(), check, quick=80, thorough=2400, shrink=not ctx.quick)


def replay(case):
    check(case)
