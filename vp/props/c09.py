"""C09  Equivalent descriptions of the same crystal give the same transport."""
import itertools
import numpy as np
from hypothesis import strategies as st

from ..core import Violation, HarnessError, require, canon, known_ids
from ..strategies import crystals as cs, networks as nw, vacancy as vs, data as dt
from ..oracles import geom

ID = "C09"
RULE = ("Hypothesis draws a base crystal A (catalogue FCC/BCC/HCP/B2/omega/honeycomb/... and generated recipes), a re-description B of the same "
        "physical crystal (atom permutation; unimodular basis change with entries in {-1,0,1}, built with and without cell reduction; non-reduced "
        "supercell with |det| 2..4 built with noreduce=True), a jump network (same cutoff) and data defined on A's symmetry classes.  The data are "
        "carried to B by Cartesian matching of sites, pair states and jumps after solving for the rigid origin shift between the two "
        "descriptions.  Oracle (differential): Interstitial.diffusivity agrees to 1e-9; VacancyMediated.Lij (Nthermo=1) agrees to 2e-6 x scale "
        "(different k-meshes).  Non-trivial: B's cell differs from A's after construction or |G_B| < |G_A|; distinct by (A, B, data).")
ASSUMPTIONS = ["B's jump network is compared with A's by geometry first; a mismatch (lattice search range of a skewed cell) is C21's subject and the case is discarded and counted",
               "vacancy-mediated comparison excludes crystals with origin states while R11 is known, and supercells are limited to 8 vacancy sites"]
SHARDS = {"quick": 8, "thorough": 16}
EXCLUDE_R11 = "R11" in known_ids("known")
UNI3 = [[[1, 1, 0], [0, 1, 0], [0, 0, 1]], [[1, 0, 0], [0, 1, 1], [0, 0, 1]], [[1, 0, 1], [0, 1, 0], [0, 0, 1]], [[0, 1, 0], [0, 0, 1], [1, 0, 0]],
        [[1, 0, 0], [-1, 1, 0], [0, 0, 1]], [[1, 1, 0], [0, 1, 1], [0, 0, 1]], [[0, 1, 0], [1, 0, 0], [0, 0, -1]], [[1, 0, 0], [0, 1, 0], [1, -1, 1]],
        [[0, 1, 0], [1, 0, 0], [0, 0, 1]], [[1, 0, 0], [0, 1, 0], [0, 0, -1]]]   # the last two are left-handed
UNI2 = [[[1, 1], [0, 1]], [[1, 0], [-1, 1]], [[0, 1], [-1, 0]], [[1, -1], [0, 1]], [[0, -1], [1, 1]], [[0, 1], [1, 0]], [[1, 0], [0, -1]]]
SUP3 = [[[2, 0, 0], [0, 1, 0], [0, 0, 1]], [[1, 0, 0], [0, 1, 0], [0, 0, 2]], [[1, 1, 0], [-1, 1, 0], [0, 0, 1]], [[1, 0, 1], [0, 1, 0], [-1, 0, 1]], [[2, 0, 0], [0, 2, 0], [0, 0, 1]],
        [[-1, 1, 1], [1, -1, 1], [1, 1, -1]], [[1, 0, 0], [0, 1, 0], [0, 0, 3]], [[0, 1, 1], [1, 0, 1], [1, 1, 0]], [[0, 2, 0], [1, 0, 0], [0, 0, 1]]]
SUP2 = [[[2, 0], [0, 1]], [[1, 1], [-1, 1]], [[1, 0], [0, 2]], [[2, 1], [0, 1]], [[2, 0], [0, 2]], [[1, 0], [0, 3]]]


@st.composite
def cases(draw):
    kind = draw(st.sampled_from(["interstitial", "vacancy"]))
    if kind == "vacancy":
        setup = draw(vs.setups(nthermo=(1,), originstates="no" if EXCLUDE_R11 else "any", max_jumps=30, prune=False))
        rec, chem, k = setup["recipe"], setup["chem"], setup["k"]
    else:
        rec = draw(cs.recipes(max_mobile=4, max_other=3, names=["FCC", "BCC", "HCP", "B2", "omega", "honeycomb", "HCPoct", "FCCoct", "rect2", "tetP2", "square", "tria", "diamond"]))
        crysA = cs.build(rec)
        chem = draw(st.integers(0, len(crysA.basis) - 1))
        k = draw(st.integers(1, 2))
    crysA = cs.build(rec)
    d = crysA.dim
    mode = draw(st.sampled_from(["perm", "unimodular", "unimodular_noreduce", "supercell", "supercell"]))
    tr = {"mode": mode}
    if mode == "perm":
        tr["perm"] = [draw(st.permutations(list(range(len(sp))))) for sp in crysA.basis]
        tr["shift"] = [draw(st.sampled_from([0., 0.13, 0.5])) for _ in range(d)]
    elif mode.startswith("unimodular"):
        tr["M"] = draw(st.sampled_from(UNI3 if d == 3 else UNI2))
    else:
        tr["M"] = draw(st.sampled_from(SUP3 if d == 3 else SUP2))
    sl, jn, cut = nw.network(crysA, chem, k, 0)
    case = {"kind": kind, "recipe": rec, "chem": chem, "k": k, "transform": tr}
    if kind == "interstitial":
        inv = nw.invmap(sl)
        case["pre"], case["ene"] = draw(dt.site_data(len(sl)))
        case["preT"], case["eneT"] = draw(dt.trans_data(jn, inv, case["ene"]))
    else:
        calc = vs.calculator(setup)[3]
        case["setup"] = setup
        case["data"] = draw(vs.datasets(calc))
    return case


def redescribe(crysA, tr):
    """construct description B; returns Crystal or None (construction rejected by the library's own reduction check)"""
    from onsager import crystal
    L = np.array(crysA.lattice)
    d = crysA.dim
    chem = list(crysA.chemistry)
    if tr["mode"] == "perm":
        basis = [[np.array(sp[p]) + np.array(tr["shift"]) for p in perm] for sp, perm in zip(crysA.basis, tr["perm"])]
        return crystal.Crystal(L, basis, chemistry=chem)
    M = np.array(tr["M"], dtype=int)
    Minv = np.linalg.inv(M)
    det = int(round(abs(np.linalg.det(M))))
    # all lattice translations of A inside the new cell
    shifts = []
    rng = range(-3, 4)
    for n in itertools.product(rng, repeat=d):
        v = Minv @ np.array(n)
        if np.all(v > -1e-9) and np.all(v < 1 - 1e-9):
            shifts.append(np.array(n))
    if len(shifts) != det:
        raise HarnessError("supercell enumeration found %d of %d cells" % (len(shifts), det))
    basis = [[np.mod(Minv @ (np.array(u) + s), 1.0) for s in shifts for u in sp] for sp in crysA.basis]
    noreduce = tr["mode"] in ("unimodular_noreduce", "supercell")
    return crystal.Crystal(L @ M, basis, chemistry=chem, noreduce=noreduce)


def origin_shift(A, B):
    """Cartesian s with {atoms of B} = {atoms of A} + s modulo A's lattice (species-wise); None if not the same crystal"""
    LA, LB = np.array(A.lattice), np.array(B.lattice)
    LAinv = np.linalg.inv(LA)
    c0 = min(range(len(A.basis)), key=lambda c: len(A.basis[c]))
    xb = LB @ np.array(B.basis[c0][0])
    for ua in A.basis[c0]:
        s = xb - LA @ np.array(ua)
        ok = True
        for c in range(len(B.basis)):
            for ub in B.basis[c]:
                x = LB @ np.array(ub) - s
                if not any(np.linalg.norm(LA @ geom.wrap(LAinv @ x - np.array(u))) < 1e-6 for u in A.basis[c]):
                    ok = False
                    break
            if not ok:
                break
        if ok:
            return s
    return None


def siteA(A, chem, x, s):
    """index in A of the chem-site at Cartesian position x (of B's frame), and the integer cell"""
    LA = np.array(A.lattice)
    v = np.linalg.inv(LA) @ (x - s)
    for i, u in enumerate(A.basis[chem]):
        dlt = v - np.array(u)
        R = np.round(dlt)
        if np.linalg.norm(LA @ (dlt - R)) < 1e-6:
            return i, R.astype(int)
    raise HarnessError("site of B not found in A")


def jump_key(i, dx):
    return (i, tuple(np.round(dx, 5)))


def check(case):
    from onsager import OnsagerCalc
    A = cs.build(case["recipe"])
    chem, k = case["chem"], case["k"]
    slA, jnA, cut = nw.network(A, chem, k, 0)
    if not jnA:
        return {"classes": ["empty_network"], "nontrivial": False}
    try:
        B = redescribe(A, case["transform"])
    except ArithmeticError as e:
        if "Reduction did not produce" in str(e):
            return {"classes": ["reduce_arith_error(C19 domain)"], "nontrivial": False}
        raise
    s = origin_shift(A, B)
    mode = case["transform"]["mode"]
    classes = cs.describe(A) + [case["kind"], "mode_" + mode]
    if mode in ("unimodular_noreduce", "supercell"):
        # noreduce=True hands the cell to the symmetry search as is; that search only tries lattice-vector images with
        # coefficients in {-1,0,1}, so for a skewed cell the operations found need not even be closed under composition.
        # Such descriptions are outside the constructor's domain for noreduce (the default constructor reduces them).
        from . import c18
        try:
            c18.check_group(B)
        except Violation:
            return {"classes": classes + ["B_operations_not_closed(noreduce on a skewed cell: discarded)"], "nontrivial": False}
    require(s is not None, lambda: "description B (%s) is not the same physical crystal as A: atoms do not match under any rigid shift" % mode)
    require(abs(B.volume / B.N - A.volume / A.N) <= 1e-9 * A.volume, "volume per atom differs between descriptions")
    slB = B.sitelist(chem)
    jnB = B.jumpnetwork(chem, cut)
    LB = np.array(B.lattice)
    # --- geometric comparison of the networks (A's jumps per site vs B's), and class maps
    jA = {}
    for c, jl in enumerate(jnA):
        for (i, j), dx in jl:
            jA[jump_key(i, dx)] = c
    invA = nw.invmap(slA)
    site_map = {}
    for n, ub in enumerate(B.basis[chem]):
        site_map[n] = siteA(A, chem, LB @ np.array(ub), s)[0]
    jB_class = []
    seen = set()
    mismatch = False
    for jl in jnB:
        cls = set()
        for (i, j), dx in jl:
            key = jump_key(site_map[i], dx)
            if key not in jA:
                mismatch = True
            else:
                cls.add(jA[key])
                seen.add((i,) + key)
        jB_class.append(cls)
    nB = sum(len(jl) for jl in jnB)
    nA_expected = sum(sum(1 for (i, j), dx in jl for n in site_map if site_map[n] == i) for jl in jnA)
    if mismatch or nB != nA_expected:
        return {"classes": classes + ["network_mismatch(C21 domain)"], "nontrivial": False}
    for cls in jB_class:
        require(len(cls) == 1, "a jump class of description B mixes symmetry classes of description A")
    jB_class = [next(iter(c)) for c in jB_class]
    sB_class = []
    for sites in slB:
        cl = set(invA[site_map[i]] for i in sites)
        require(len(cl) == 1, "a site class of description B mixes Wyckoff sets of description A")
        sB_class.append(next(iter(cl)))
    nt = (B.N != A.N) or (np.abs(np.array(B.lattice) - np.array(A.lattice)).max() > 1e-6) or len(B.G) < len(A.G)
    classes += ["GB%d" % len(B.G), "B_atoms_x%d" % (B.N // A.N)]
    if case["kind"] == "interstitial":
        if len(case["pre"]) != len(slA) or len(case["preT"]) != len(jnA):
            raise HarnessError("stale case")
        dA = OnsagerCalc.Interstitial(A, chem, slA, jnA)
        dB = OnsagerCalc.Interstitial(B, chem, slB, jnB)
        DA = dA.diffusivity(case["pre"], case["ene"], case["preT"], case["eneT"])
        DB = dB.diffusivity([case["pre"][c] for c in sB_class], [case["ene"][c] for c in sB_class],
                            [case["preT"][c] for c in jB_class], [case["eneT"][c] for c in jB_class])
        from ..oracles import interstitial_ref as ref
        rho, jumps = ref.rates_from_data(jnA, invA, case["pre"], case["ene"], case["preT"], case["eneT"])
        sc = max(np.abs(DA).max(), np.abs(ref.assemble(rho, jumps, A.dim)[2]).max())
        e = np.abs(DA - DB).max() / sc
        require(e <= 1e-9, lambda: "interstitial diffusivity differs between equivalent descriptions (%s) by %.3e: %s vs %s" % (mode, e, DA.tolist(), DB.tolist()))
        return {"nontrivial": bool(nt), "classes": classes, "sample": {"kind": "interstitial", "crystal": case["recipe"]["name"], "transform": case["transform"], "D": DA.tolist()}}
    # --- vacancy mediated
    from onsager.crystalStars import PairState
    setup = case["setup"]
    calcA = vs.calculator(setup)[3]
    data = case["data"]
    if not vs.sizes_ok(calcA, data):
        raise HarnessError("stale case")
    if len(B.basis[chem]) > 8:
        return {"classes": classes + ["B_too_large_skipped"], "nontrivial": False}
    if not nw.gf_ok(B, chem, slB, jnB):
        return {"classes": classes + ["B_network_not_gf_ok"], "nontrivial": False}
    calcB = OnsagerCalc.VacancyMediated(B, chem, slB, jnB, 1)
    LA = np.array(A.lattice)
    zero = np.zeros(A.dim)

    def stateA(PS):
        """kinetic-state index in A of B's pair state"""
        xs = LB @ np.array(B.basis[chem][PS.i])
        xv = LB @ (np.array(B.basis[chem][PS.j]) + PS.R)
        i, Ri = siteA(A, chem, xs, s)
        j, Rj = siteA(A, chem, xv, s)
        return PairState(i=i, j=j, R=Rj - Ri, dx=zero)
    dB = {"bFV": [data["bFV"][c] for c in sB_class], "bFS": [data["bFS"][c] for c in sB_class], "bFT0": [data["bFT0"][c] for c in jB_class]}
    # omega0 classes of calcB follow jnB
    dB["bFSV"] = []
    for PS in calcB.interactlist():
        t = calcA.thermo.starindex(stateA(PS))
        require(t is not None, "a thermodynamic state of description B is outside the thermodynamic range of description A")
        dB["bFSV"].append(data["bFSV"][t])
    om1map = {(a, b): n for n, jl in enumerate(calcA.om1_jn) for (a, b), dx in jl}
    om2map = {(a, b): n for n, jl in enumerate(calcA.om2_jn) for (a, b), dx in jl}
    for name, fam, omap in (("bFT1", 1, om1map), ("bFT2", 2, om2map)):
        out = []
        for (P1, P2) in calcB.omegalist(fam)[0]:
            a, b = calcA.kinetic.stateindex(stateA(P1)), calcA.kinetic.stateindex(stateA(P2))
            require(a is not None and b is not None and (a, b) in omap, lambda: "an omega%d transition of description B has no counterpart in description A" % fam)
            out.append(data[name][omap[(a, b)]])
        dB[name] = out
    require(len(calcB.om1_jn) >= 1 and len(calcB.om2_jn) >= 1, "description B has empty solute-vacancy networks")
    def compare(cA, cB):
        LAs = cA.Lij(*vs.args(data))
        LBs = cB.Lij(*vs.args(dB))
        sc = max(np.abs(np.asarray(x)).max() for x in LAs)
        return max(np.abs(np.asarray(a) - np.asarray(b)).max() for a, b in zip(LAs, LBs)) / sc, LAs, LBs
    e, LAs, LBs = compare(calcA, calcB)
    if e > 2e-6:
        # different descriptions use different k-meshes: 'within integration accuracy' is decided by refining both meshes
        cA8 = vs.calculator(setup, NGFmax=8)[3]
        cB8 = OnsagerCalc.VacancyMediated(B, chem, slB, jnB, 1, NGFmax=8)
        e8 = compare(cA8, cB8)[0]
        require(e8 <= max(2e-6, vs.SHRINK * e), lambda: "vacancy-mediated coefficients differ between equivalent descriptions (%s) by %.3e (relative; %.3e with refined k-meshes): Lss %s vs %s"
                % (mode, e, e8, np.asarray(LAs[1]).tolist(), np.asarray(LBs[1]).tolist()))
        classes.append("integration_limited")
    return {"nontrivial": bool(nt), "classes": classes + vs.describe(calcA, data),
            "sample": {"kind": "vacancy", "crystal": case["recipe"]["name"], "transform": case["transform"], "rel_difference": e}}


def run(ctx):
    ctx.corpus(check)
    ctx.given(cases(), check, quick=64, thorough=1200, shrink=not ctx.quick)


def replay(case):
    check(case)
