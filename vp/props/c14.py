"""C14  Vacancy-mediated results depend only on their inputs, not on call history."""
import copy
import numpy as np
from hypothesis import strategies as st

from ..core import Violation, HarnessError, require, canon
from ..strategies import crystals as cs, vacancy as vs, data as dt, networks as nw
from . import c07

ID = "C14"
RULE = ("History property.  Hypothesis draws a crystal/network, a pool of five inputs as tag dictionaries (D = C with the vacancy site energies moved by n x 1e-6, E = C with the omega0 barriers moved by 2e-6: finite-difference steps; A; B = A with other solute-vacancy "
        "and omega1/omega2 data but the same vacancy data, so the Green-function cache is hit; C independent) and a history of 3-12 "
        "operations from {evaluate(k), scribble(previous result r, tensor t) = in-place overwrite of an array returned earlier, scribble_aux = in-place edit of the lists returned by omegalist()/interactlist(), reuse_inputs(k') = the caller overwrites in place the input arrays it passed to the last evaluation with input k', "
        "clearcache(), regenerate(N') = generate + generatematrices + generatetags (the constructor's own sequence), save/reload through an "
        "in-memory HDF5 file}.  Reference model: the value of input k on a pristine calculator of the current range that never sees the "
        "history (built once per range, outputs copied).  Oracle: every evaluate returns the reference value to 1e-12 x scale.  Non-trivial: "
        "the history contains an evaluate after a scribble with the same vacancy data, or an evaluate after regenerate/reload; distinct by "
        "(crystal, inputs, history).")
ASSUMPTIONS = ["inputs are supplied through tags2preene/preene2betafree (the only input form that is meaningful across ranges)",
               "tolerance 1e-12: the same deterministic arithmetic on identically constructed objects; HDF5 stores float64 exactly"]
SHARDS = {"quick": 8, "thorough": 16}
CHEAP = ["SC", "BCC", "FCC", "square", "tria", "honeycomb", "B2o", "rect2", "diamond", "HCP", "omega", "B2"]


@st.composite
def op(draw):
    kind = draw(st.sampled_from(["eval", "eval", "eval", "scribble", "scribble", "clear", "regen", "reload", "reuse", "scribble_aux"]))
    o = {"op": kind}
    if kind == "eval":
        o["k"] = draw(st.sampled_from([0, 0, 0, 1, 2, 3, 4]))
        o["large0"] = draw(st.sampled_from([False, False, True]))   # Lij(..., large_om2=0): the large-exchange-rate algorithm, forced
    elif kind == "reuse":
        o["k"] = draw(st.sampled_from([2, 0, 2, 1]))   # input 2 has different vacancy data (another cache key)
    elif kind == "scribble":
        o["r"] = draw(st.sampled_from([-1, -1, -1, 0, 1, 2, 3, 5, 8]))   # -1 = the most recent result
        o["t"] = draw(st.sampled_from([0, 0, 0, 1, 2, 3]))
        o["value"] = draw(st.sampled_from([0.0, 123.25, -7.5]))
    elif kind == "regen":
        o["N"] = draw(st.sampled_from([1, 2]))
    elif kind == "scribble_aux":
        o["which"] = draw(st.sampled_from([1, 2]))
    return o


def anisotropic_pruned_setups():
    """long cells whose jump network is the nearest-neighbour jump plus the jump along the long axis only (the shells in between
    left out): at thermodynamic range 2 new stars appear that are closer than the longest jump, so every star-indexed table
    changes between ranges"""
    out = []
    for rec, long in (({"name": "tP-long", "lattice": [[1., 0., 0.], [0., 1., 0.], [0., 0., 2.3]], "basis": [[[0., 0., 0.]]]}, 2.3),
                      ({"name": "rect-long", "lattice": [[1., 0.], [0., 3.5]], "basis": [[[0., 0.]]]}, 3.5)):
        crys = cs.build(rec)
        for k in range(1, 9):
            sl, jn, cut = nw.network(crys, 0, k, 0)
            lens = [float(np.linalg.norm(jl[0][1])) for jl in jn]
            if any(abs(x - long) < 1e-9 for x in lens):
                keep = sorted([int(np.argmin(lens)), [i for i, x in enumerate(lens) if abs(x - long) < 1e-9][0]])
                out.append({"recipe": rec, "chem": 0, "k": k, "closest": 0, "Nthermo": 1, "keep": keep})
                break
    return out


@st.composite
def cases(draw, special=False):
    if special:
        setup0 = draw(st.sampled_from(anisotropic_pruned_setups()))
        base = draw(c07.vals_for(setup0))
    else:
        base = draw(c07.cases().filter(lambda c: c["setup"]["Nthermo"] == 1))
    setup = base["setup"]
    crys, sl, jn, calc = vs.calculator(setup)
    A = base["vals"]
    B = copy.deepcopy(A)
    for t in ("solute-vacancy",):
        B[t] = [[p, float(np.round(e + draw(st.sampled_from([-0.7, 0.4, 0.9])), 4))] for p, e in B[t]]
    for t in ("omega1", "omega2"):
        B[t] = [[p, float(np.round(e + 1.0, 4))] for p, e in B[t]]
    other = draw(c07.cases().filter(lambda c: False) if False else st.just(None))
    C = copy.deepcopy(A)
    C["vacancy"] = [[p, float(np.round(e + draw(st.sampled_from([0.0, 0.3])), 4))] for p, e in C["vacancy"]]
    C["omega0"] = [[draw(dt.prefactor()), float(np.round(e + 0.5, 4))] for p, e in C["omega0"]]
    C["omega1"] = [[p, float(np.round(e + 1.2, 4))] for p, e in C["omega1"]]
    C["omega2"] = [[p, float(np.round(e + 1.2, 4))] for p, e in C["omega2"]]
    # D: a near-duplicate of C (finite-difference step in the vacancy site energies and omega0 barriers): another input, another result
    D = copy.deepcopy(C)
    # vacancy site energies only, and only of the sets above the lowest one, so that the beta-free-energy reference point and hence
    # the omega0 inputs stay put (no-op on one Wyckoff set)
    lowest = int(np.argmin([e / base["kT"] - np.log(p) for p, e in D["vacancy"]]))
    D["vacancy"] = [[p, float(e + (0. if n == lowest else 1e-6))] for n, (p, e) in enumerate(D["vacancy"])]
    E = copy.deepcopy(C)
    E["omega0"] = [[p, float(e + 2e-6)] for p, e in E["omega0"]]                            # omega0 barriers only
    hist = draw(st.lists(op(), min_size=3, max_size=12))
    if draw(st.integers(0, 1)) == 0:
        # finite-difference use: C then D (or D then C) on the same calculator
        at = draw(st.integers(0, len(hist)))
        pair = draw(st.sampled_from([[2, 3], [3, 2], [2, 3], [2, 4], [4, 2], [3, 4]]))
        hist[at:at] = [{"op": "eval", "k": pair[0]}, {"op": "eval", "k": pair[1]}]
    if draw(st.integers(0, 3)) == 0:
        # a loop that refills its own input buffers and checkpoints the calculator between refill and evaluation
        k1 = draw(st.sampled_from([0, 1, 2]))
        k2 = 2 if k1 != 2 else draw(st.sampled_from([0, 1]))
        at = draw(st.integers(0, len(hist)))
        hist[at:at] = [{"op": "eval", "k": k1}, {"op": "reuse", "k": k2}, {"op": "reload"}, {"op": "eval", "k": k2}]
    if special:
        hist = [{"op": "eval", "k": 0}, {"op": "regen", "N": 2}, {"op": "eval", "k": 0, "large0": True}, {"op": "eval", "k": 2, "large0": True},
                {"op": "regen", "N": 1}, {"op": "eval", "k": 1, "large0": True}, {"op": "eval", "k": 0}] + hist[:3]
    return {"setup": setup, "kT": base["kT"], "member": base["member"], "pool": [A, B, C, D, E], "history": hist}


_pristine = {}


def reference(setup, N, usertags, kT, key, kw=None):
    """value on a calculator that never sees any history (one per range; only read through copies)"""
    s = dict(setup)
    s["Nthermo"] = N
    k = (vs.setup_key(s), key)
    if k not in _pristine:
        if len(_pristine) > 200:
            _pristine.clear()
        calc = vs.calculator(s)[3]
        # the reference must not have a history of its own: empty caches before every reference evaluation
        calc.clearcache()
        calc.GFvalues, calc.Lvvvalues, calc.etavvalues = {}, {}, {}
        out = calc.Lij(*calc.preene2betafree(kT, **calc.tags2preene(usertags)), **(kw or {}))
        _pristine[k] = [np.array(x, dtype=float).copy() for x in out]
    return [x.copy() for x in _pristine[k]]


def check(case):
    import h5py
    from onsager import OnsagerCalc
    setup = case["setup"]
    crys, sl, jn, small = vs.calculator(setup)
    tags = []
    for vals in case["pool"]:
        tags.append(c07.tagdict(small, {"vals": vals, "member": case["member"]}))
    # the object under test: a fresh calculator that lives through the history
    calc = vs.calculator(setup, fresh=True)[3]
    N = setup["Nthermo"]
    results = []  # arrays returned to the 'caller'
    scribbled_vac = set()
    flags = {"eval_after_scribble_same_vacancy": False, "eval_after_regen": False, "eval_after_reload": False, "inputs_rewritten_in_place": False, "index_data_scribbled": False}
    pending = {"regen": False, "reload": False}
    trace = []
    held = None
    for step, o in enumerate(case["history"]):
        if o["op"] == "eval":
            k = o["k"] % len(tags)
            args = list(calc.preene2betafree(case["kT"], **calc.tags2preene(tags[k])))
            kw = {"large_om2": 0.} if o.get("large0") else {}
            out = calc.Lij(*args, **kw)
            held = (N, args)   # the caller keeps its own input buffers
            ref = reference(setup, N, tags[k], case["kT"], canon([case["pool"][k], case["kT"], sorted(kw.items())]), kw)
            scale = max(np.abs(ref[0]).max(), max(np.abs(r).max() for r in ref))
            for nm, a, b in zip(("L0vv", "Lss", "Lsv", "L1vv"), out, ref):
                e = np.abs(np.asarray(a) - b).max() / scale
                require(e <= 1e-12, lambda: "step %d: evaluate(input %d) at Nthermo=%d returns %s that differs from a pristine calculator by %.3e (relative) after history %s: %s vs %s"
                        % (step, k, N, nm, e, trace, np.asarray(a).tolist(), b.tolist()))
            results.append((k, list(out)))
            vac = 0 if k in (0, 1) else k - 1
            if vac in scribbled_vac:
                flags["eval_after_scribble_same_vacancy"] = True
            if pending["regen"]:
                flags["eval_after_regen"] = True
            if pending["reload"]:
                flags["eval_after_reload"] = True
            trace.append("eval%d" % k + ("L" if kw else ""))
        elif o["op"] == "scribble":
            if results:
                k, out = results[o["r"] % len(results)]
                arr = out[o["t"] % 4]
                if isinstance(arr, np.ndarray) and arr.flags.writeable:
                    arr[...] = o["value"]
                    scribbled_vac.add(0 if k in (0, 1) else k - 1)
                    trace.append("scribble(%d,%d)" % (k, o["t"] % 4))
        elif o["op"] == "scribble_aux":
            # the caller edits, in place, what omegalist()/interactlist() handed out (index data rather than tensors)
            ol, jt = calc.omegalist(o["which"])
            ol.reverse()
            if isinstance(jt, np.ndarray):
                jt[...] = jt[::-1].copy()
                jt += 1
            else:
                jt.reverse()
                for q in range(len(jt)):
                    jt[q] = 0
            il = calc.interactlist()
            il.reverse()
            flags["index_data_scribbled"] = True
            trace.append("scribble_aux%d" % o["which"])
        elif o["op"] == "reuse":
            # the caller overwrites, in place, the input arrays it passed to the last evaluation with another input of the pool
            if held is not None and held[0] == N:
                k2 = o["k"] % len(tags)
                new = calc.preene2betafree(case["kT"], **calc.tags2preene(tags[k2]))
                for a, b in zip(held[1], new):
                    if isinstance(a, np.ndarray) and a.shape == np.shape(b) and a.flags.writeable:
                        a[...] = b
                flags["inputs_rewritten_in_place"] = True
                trace.append("reuse_inputs(%d)" % k2)
        elif o["op"] == "clear":
            calc.clearcache()
            trace.append("clear")
        elif o["op"] == "regen":
            N = o["N"]
            calc.generate(N)
            calc.generatematrices()
            calc.tags, calc.tagdict, calc.tagdicttype = calc.generatetags()
            pending["regen"] = True
            trace.append("regen%d" % N)
        elif o["op"] == "reload":
            f = h5py.File("c14-%d.h5" % id(calc), "w", driver="core", backing_store=False)
            calc.addhdf5(f.create_group("calc"))
            calc = OnsagerCalc.VacancyMediated.loadhdf5(f["calc"])
            f.close()
            pending["reload"] = True
            trace.append("reload")
    nt = flags["eval_after_scribble_same_vacancy"] or flags["eval_after_regen"] or flags["eval_after_reload"]
    tr = " ".join(trace)
    if len(sl) > 1 and ("eval2 eval3" in tr or "eval3 eval2" in tr):
        flags["finite_difference_pair_vacancy_energy"] = True
    if "eval2 eval4" in tr or "eval4 eval2" in tr:
        flags["finite_difference_pair_omega0"] = True
    classes = cs.describe(crys) + vs.describe(small) + [k for k, v in flags.items() if v]
    return {"nontrivial": bool(nt), "classes": classes,
            "sample": {"crystal": setup["recipe"]["name"], "basis": setup["recipe"]["basis"], "history": trace, "n_tags": len(tags[0])}}


def run(ctx):
    ctx.corpus(check)
    ctx.given(cases(special=True), check, quick=4, thorough=48, shrink=False, salt=7)
    ctx.given(cases(), check, quick=40, thorough=1600, shrink=not ctx.quick)


def replay(case):
    check(case)
