"""C21  Jump networks are complete, closed and obstruction-aware."""
import numpy as np
from hypothesis import strategies as st

from ..core import Violation, HarnessError, require, canon
from ..strategies import crystals as cs
from ..oracles import geom, jumps as jo

ID = "C21"
RULE = ("Hypothesis draws a crystal recipe (2D/3D lattice systems, 1-3 species, orbit decorations, catalogue structures), the jumping "
        "species, a cutoff at the midpoint between the k-th and (k+1)-th distinct brute-force neighbour distances (k=1..3) and an "
        "obstruction setting (default, scalar, or per-species list) whose distances are 0 or midpoints between distinct brute-force "
        "segment-to-atom distances. Oracle: vectorised brute-force enumeration of every (i,j,R) with 0<|dx|<cutoff over a lattice "
        "range padded from the reciprocal lattice (+3 cells), each jump tested against every other-species atom within reach with the "
        "documented rule (foot point on the segment, end points included, line distance <= closest); jumps whose decision sits on a "
        "round-off tie (foot point exactly on an end point, distance on the threshold) may be present or absent. The library's "
        "network must contain each remaining jump exactly once and nothing else, every class must map into itself under every "
        "operation of the group (images located by brute-force atom search, not by g_pos) and under reversal, jumpnetwork2lattice "
        "must return the brute-force cell vector of every jump, and nnlist must equal the brute-force neighbour list. Non-trivial: "
        ">=2 classes or >=1 obstructed jump; distinct by (lattice, basis, species, cutoff, obstruction distances).")
ASSUMPTIONS = ["cutoffs and obstruction distances never sit on a tie (midpoints of gaps >= 1e-6 resp. >= 1e-3); ties of the foot point with a segment end point are accepted either way",
               "the obstruction rule is the one written in Crystal.jumpnetwork (infinite-line distance for atoms whose foot point lies on the closed segment), not the distance to end caps",
               "closure is asserted for the operations in crys.G (their correctness is C18's subject) applied by the oracle's own atom search",
               "classes are required to be closed, not to be single orbits (measured: class 'single_orbit_classes')",
               "tolerance 1e-7 (absolute, lengths O(1)) when a library dx is matched with a brute-force dx: the library builds dx from the same unit positions, round-off is 1e-15"]
SHARDS = {"quick": 4, "thorough": 16}
TOL = 1e-7


@st.composite
def cases(draw):
    rec = draw(cs.recipes(max_mobile=6, max_other=4))
    nchem = len(rec["basis"])
    chem = draw(st.integers(0, nchem - 1))
    k = draw(st.integers(1, 3))
    if nchem > 1:
        mode = draw(st.sampled_from(["default", "scalar", "scalar", "list", "list"]))
    else:
        mode = draw(st.sampled_from(["default", "default", "scalar"]))
    ks = [draw(st.integers(0, 4)) for _ in range(3)]
    return {"recipe": rec, "chem": chem, "k": k, "mode": mode, "ks": ks}


def _key_of(L, Linv, ul, i, j, dx):
    """(i, j, R) of a library jump by the oracle's own arithmetic; raises Violation when dx is not a site-to-site vector"""
    r = Linv @ np.asarray(dx, dtype=float) - ul[j] + ul[i]
    R = np.round(r)
    res = np.abs(L @ (R + ul[j] - ul[i]) - dx).max()
    require(res < TOL, lambda: "jump (%d,%d) dx=%s is not a vector from site %d to a periodic image of site %d (residual %.2e)"
            % (i, j, np.asarray(dx).tolist(), i, j, res))
    return (int(i), int(j), tuple(int(x) for x in R))


def _images(crys, L, ul, chem):
    """for every op of crys.G: (rot, [image index], [cell shift]) of the atoms of species chem, located by brute force"""
    atoms = [(chem, u) for u in ul]
    out = []
    for g in crys.G:
        rot, trans = np.array(g.rot), np.array(g.trans, dtype=float)
        idx, shift = [], []
        for u in ul:
            v = rot @ u + trans
            b = geom.find_atom(L, atoms, chem, v)
            if b is None:
                raise HarnessError("operation of crys.G does not map the species onto itself (C18 territory)")
            idx.append(b)
            shift.append(np.round(v - ul[b]).astype(int))
        out.append((rot, idx, shift))
    return out


def check(case):
    rec = case["recipe"]
    try:
        crys = cs.build(rec)
    except ArithmeticError as e:
        if "Reduction did not produce" in str(e):   # Crystal.reduce on a non-primitive description: C19's subject (R12)
            return {"classes": ["reduce_arith_error(C19 domain)"], "nontrivial": False}
        raise
    chem = case["chem"] % crys.Nchem
    L = np.array(crys.lattice, dtype=float)
    Linv = np.linalg.inv(L)
    basis = [[np.array(u, dtype=float) for u in ul] for ul in crys.basis]
    ul = basis[chem]
    if case.get("cutoff_frac") is not None:
        # arbitrary cutoff (a multiple of the shortest cell vector) placed inside a gap between neighbour distances, >= 1e-4 from both
        target = float(case["cutoff_frac"]) * min(np.linalg.norm(L[:, a]) for a in range(L.shape[1]))
        sh = jo.shell_distances(L, ul, nshell=14)
        if target >= sh[-1] - 1e-3:
            target = 0.5 * (sh[-2] + sh[-1])
        m = int(np.searchsorted(sh, target))
        lo = sh[m - 1] if m > 0 else 0.
        hi = sh[m]
        cutoff = target if (target - lo > 1e-4 and hi - target > 1e-4) else 0.5 * (lo + hi)
        if m == 0:
            cutoff = 0.5 * (sh[0] + sh[1])
        k = 0
    else:
        sh = jo.shell_distances(L, ul, nshell=4)
        k = 1 + (case["k"] - 1) % 3
        cutoff = 0.5 * (sh[k - 1] + sh[k])
    jumps = jo.all_jumps(L, ul, cutoff)
    keys = [(i, j, R) for (i, j, R, dx) in jumps]
    if len(set(keys)) != len(keys):
        raise HarnessError("brute-force enumeration produced a duplicate")
    dmax = cutoff
    rel = jo.neighbours_of_other_species(L, basis, chem, cutoff + dmax + 0.1)
    table = jo.approach_table(jumps, rel)
    others = [c for c in range(crys.Nchem) if c != chem]
    mode = case["mode"]
    closest = {c: 0. for c in others}
    args = (chem, cutoff)
    if mode == "scalar":
        cand, _ = jo.threshold_candidates(table, set(others), dmax)
        T = cand[case["ks"][0] % len(cand)] if cand else 0.
        closest = {c: T for c in others}
        args = (chem, cutoff, T)
    elif mode == "list":
        lis = []
        for c in range(crys.Nchem):
            if c == chem:
                lis.append(0.37)   # must be ignored by the library (documented: no collision detection on the jumping species)
                continue
            cand, _ = jo.threshold_candidates(table, {c}, dmax)
            closest[c] = cand[case["ks"][c % 3] % len(cand)] if cand else 0.
            lis.append(closest[c])
        args = (chem, cutoff, lis)
    stat = [jo.status(row, closest) for row in table]
    free = set(kk for kk, s in zip(keys, stat) if s == "free")
    blocked = set(kk for kk, s in zip(keys, stat) if s == "blocked")
    tie = set(kk for kk, s in zip(keys, stat) if s == "tie")

    jn = crys.jumpnetwork(*args)

    require(isinstance(jn, list), "jumpnetwork did not return a list")
    libkeys = {}
    cls_keys = []
    for n, jl in enumerate(jn):
        require(len(jl) > 0, "jump class %d is empty" % n)
        ck = []
        for (i, j), dx in jl:
            kk = _key_of(L, Linv, ul, i, j, dx)
            require(kk not in libkeys, lambda: "jump %s appears more than once (classes %d and %d)" % (str(kk), libkeys[kk], n))
            libkeys[kk] = n
            ck.append(kk)
        cls_keys.append(ck)
    allk = set(keys)
    for kk in libkeys:
        require(kk in allk, lambda: "network contains %s which is not a jump shorter than the cutoff %.6f" % (str(kk), cutoff))
        require(kk not in blocked, lambda: "network contains the obstructed jump %s (cutoff %.6f, closest %s)" % (str(kk), cutoff, closest))
    missing = sorted(free - set(libkeys))
    require(not missing, lambda: "network misses %d unobstructed jump(s) shorter than the cutoff %.6f, e.g. %s (closest %s)"
            % (len(missing), cutoff, str(missing[0]), closest))

    # closure of every class under the group (oracle's own application of rot/trans) and under reversal
    ims = _images(crys, L, ul, chem)
    for n, ck in enumerate(cls_keys):
        cset = set(ck)
        for (i, j, R) in ck:
            rev = (j, i, tuple(-x for x in R))
            require(rev in cset, lambda: "class %d contains %s but not its reverse" % (n, str((i, j, R))))
            for (rot, idx, shift) in ims:
                gR = rot @ np.array(R) + shift[j] - shift[i]
                img = (idx[i], idx[j], tuple(int(x) for x in gR))
                require(img in cset, lambda: "class %d contains %s but not its image %s under rot %s" % (n, str((i, j, R)), str(img), rot.tolist()))

    # lattice form
    jl2 = crys.jumpnetwork2lattice(chem, jn)
    require(len(jl2) == len(jn) and all(len(a) == len(b) for a, b in zip(jl2, jn)), "jumpnetwork2lattice changed the shape of the network")
    for n, (a, ck) in enumerate(zip(jl2, cls_keys)):
        for ((i, j), R), kk in zip(a, ck):
            got = (int(i), int(j), tuple(int(x) for x in np.asarray(R)))
            require(np.issubdtype(np.asarray(R).dtype, np.integer) and got == kk,
                    lambda: "jumpnetwork2lattice gives %s for the jump %s" % (str(got), str(kk)))

    # neighbour list of every site
    for i in range(len(ul)):
        ref = [dx for (a, j, R, dx) in jumps if a == i]
        nn = crys.nnlist((chem, i), cutoff)
        used = set()
        for x in nn:
            hit = [m for m, dx in enumerate(ref) if m not in used and np.abs(dx - x).max() < TOL]
            require(len(hit) >= 1, lambda: "nnlist((%d,%d)) contains %s which is not a (new) neighbour vector shorter than the cutoff" % (chem, i, np.asarray(x).tolist()))
            used.add(hit[0])
        require(len(used) == len(ref), lambda: "nnlist((%d,%d)) has %d vectors, brute force finds %d" % (chem, i, len(nn), len(ref)))

    # measured classes
    classes = cs.describe(crys) + ["mode_" + mode, "shell%d" % k, "nclasses%d" % min(len(jn), 6), "nspecies%d" % crys.Nchem]
    if blocked:
        classes.append("some_blocked")
        classes.append("all_blocked" if not free and not tie else "partly_blocked")
    if tie:
        classes.append("tie_jumps_present")
        classes.append("tie_kept" if any(kk in libkeys for kk in tie) else "tie_removed")
    if not jn:
        classes.append("empty_network")
    # are the classes single orbits (information only)
    parent = {kk: kk for kk in libkeys}

    def find(a):
        while parent[a] != a:
            parent[a] = parent[parent[a]]
            a = parent[a]
        return a
    for (i, j, R) in libkeys:
        for (rot, idx, shift) in ims:
            img = (idx[i], idx[j], tuple(int(x) for x in (rot @ np.array(R) + shift[j] - shift[i])))
            parent[find(img)] = find((i, j, R))
        parent[find((j, i, tuple(-x for x in R)))] = find((i, j, R))
    norb = len(set(find(kk) for kk in libkeys))
    classes.append("single_orbit_classes" if norb == len(jn) else "class_is_union_of_orbits")
    if others and libkeys:
        endcap = False
        for (i, j, R, dx) in jumps:
            if (i, j, R) in libkeys and any(jo.true_segment_blocked(dx, x, closest[c]) for (c, x) in rel[i] if closest[c] > 0):
                endcap = True
                break
        if endcap:
            classes.append("endcap_distance_would_block_a_kept_jump")
    if any(np.abs(np.array(g.trans)).max() > 1e-9 for g in crys.G):
        classes.append("G_with_translations")
    nt = len(jn) >= 2 or len(blocked) >= 1
    return {"key": canon([rec["lattice"], rec["basis"], chem, round(cutoff, 9), sorted((c, round(t, 9)) for c, t in closest.items()), mode]),
            "nontrivial": nt, "classes": classes,
            "sample": {"crystal": rec["name"], "lattice": rec["lattice"], "basis": rec["basis"], "chem": chem, "cutoff": cutoff, "mode": mode,
                       "closest": {str(c): t for c, t in closest.items()}, "njumps_bruteforce": len(keys), "blocked": len(blocked), "tie": len(tie),
                       "classes": [len(c) for c in jn]}}


def run(ctx):
    ctx.corpus(check)
    base = []
    for r in cs.catalogue():
        for chem in range(len(r["basis"])):
            for k in (1, 2):
                for mode, ks in (("default", [0, 0, 0]), ("scalar", [1, 1, 1]), ("scalar", [2, 2, 2])):
                    if mode != "default" and len(r["basis"]) == 1:
                        continue
                    base.append({"recipe": r, "chem": chem, "k": k, "mode": mode, "ks": ks})
    if ctx.quick:
        base = base[::3]
    ctx.cases([c for i, c in enumerate(base) if ctx.mine(i)], check, label="catalogue")
    # oblique cells, several sites of the jumping species spread over the whole cell, arbitrary cutoffs (multiples 0.5..1.7 of the
    # shortest cell vector): the cell range the jump search has to cover is largest here.  Enumerated from a PRNG that is a pure
    # function of VERIF_SEED (Hypothesis examples share most of their structure, see DESIGN section 8).
    rng = np.random.default_rng(2100 + ctx.seed)
    s3, fam = np.sqrt(3.), []
    latts = {"hx": [[1., -0.5], [0., s3 / 2]], "ob": [[1., 0.35], [0., 1.2]], "fccp": [[0., .5, .5], [.5, 0., .5], [.5, .5, 0.]],
             "hP": [[1., -0.5, 0.], [0., s3 / 2, 0.], [0., 0., 1.3]], "aP": [[1., 0.3, 0.2], [0., 1.1, 0.25], [0., 0., 0.9]]}
    for name, Lm in latts.items():
        d = len(Lm)
        for _ in range(12 if ctx.quick else 200):
            n = int(rng.integers(2, 4))
            def coord():
                # half of the coordinates hug a cell face (sites near opposite faces are joined through a neighbouring cell)
                t = rng.integers(0, 4)
                return float(np.round(rng.uniform(0.02, 0.08) if t == 0 else rng.uniform(0.92, 0.98) if t == 1 else rng.uniform(0.1, 0.9), 3))
            ul_ = [[coord() for _ in range(d)] for _ in range(n)]
            other = [[float(np.round(x, 3)) for x in rng.uniform(0.02, 0.98, size=d)]] if rng.integers(0, 2) else None
            fam.append({"recipe": {"name": "spread:" + name, "lattice": Lm, "basis": [ul_] + ([other] if other else [])}, "chem": 0, "k": 1,
                        "mode": "default", "ks": [0, 0, 0], "cutoff_frac": float(np.round(rng.uniform(0.5, 1.7), 3))})
    ctx.cases([c for i, c in enumerate(fam) if ctx.mine(i)], check, label="oblique_spread")
    ctx.given(cases(), check, quick=320, thorough=10000)


def replay(case):
    check(case)
