"""C12  Internal-friction loss tensors satisfy the relaxation sum rule."""
import numpy as np
from hypothesis import strategies as st

from ..core import Violation, HarnessError, require, canon
from ..strategies import crystals as cs, networks as nw
from ..oracles import interstitial_ref as ref
from . import c02

ID = "C12"
RULE = ("Hypothesis draws a crystal (2D/3D, 1-3 species), diffusing species with up to 8 sites, cutoff shell (connected and disconnected "
        "networks), site/transition data and arbitrary (non-symmetric) dipoles per site class.  Oracle: the symmetrised rate matrix assembled "
        "from the raw jump list (own code); every reported rate is > 0 and equals a non-zero eigenvalue of -Omega (1e-8 relative); each "
        "loss tensor has the (ab), (cd) and (ab)<->(cd) symmetries and is positive semidefinite as a quadratic form on symmetric tensors; "
        "the sum over modes equals sum_i rho_i P_i x P_i - sum_components rho_c <P>_c x <P>_c with the populated site dipoles P_i computed by own "
        "group averaging.  Non-trivial: >= 2 distinct non-zero eigenvalues and a non-zero sum; distinct by (crystal, network, data, dipoles).")
ASSUMPTIONS = ["tolerance 1e-9 relative to sum_i rho_i |P_i|^2 for the sum rule", "exact eigenvalue degeneracies not forced by symmetry have measure zero in the generated data"]
SHARDS = {"quick": 4, "thorough": 16}


def own_site_dipoles(crys, chem, sl, dipoles):
    """populated site dipoles: symmetric part, averaged over the site stabiliser, transported by a group operation"""
    N = sum(len(s) for s in sl)
    out = np.zeros((N, crys.dim, crys.dim))
    G = sorted(crys.G, key=lambda g: (tuple(np.asarray(g.rot).flatten()), tuple(np.round(g.trans, 6))))
    for sites, P in zip(sl, dipoles):
        P = np.asarray(P, dtype=float)
        P = 0.5 * (P + P.T)
        i0 = sites[0]
        stab = [np.asarray(g.cartrot) for g in G if g.indexmap[chem][i0] == i0]
        Ps = sum(R @ P @ R.T for R in stab) / len(stab)
        for i in sites:
            g = next(g for g in G if g.indexmap[chem][i0] == i)
            R = np.asarray(g.cartrot)
            out[i] = R @ Ps @ R.T
    return out


@st.composite
def cases(draw):
    base = draw(c02.cases(max_mobile=8))
    crys = cs.build(base["recipe"])
    sl, jn, cut = nw.network(crys, base["chem"], base["k"], base["closest"])
    d = crys.dim
    f = st.floats(-1, 1).map(lambda x: float(np.round(x, 3)))
    base["dipole"] = [[[draw(f) for _ in range(d)] for _ in range(d)] for _ in sl]
    return base


def check(case):
    crys, sl, jn, diff = c02.diffuser(case)
    if not jn:
        return {"classes": ["empty_network"], "nontrivial": False}
    if len(case["pre"]) != len(sl) or len(case["preT"]) != len(jn) or len(case["dipole"]) != len(sl):
        raise HarnessError("stale case")
    d = crys.dim
    dip = [np.array(p) for p in case["dipole"]]
    lam = diff.losstensors(case["pre"], case["ene"], dip, case["preT"], case["eneT"])
    rho, jumps = ref.rates_from_data(jn, nw.invmap(sl), case["pre"], case["ene"], case["preT"], case["eneT"])
    Om, b, D0 = ref.assemble(rho, jumps, d)
    w = -np.linalg.eigvalsh(0.5 * (Om + Om.T))
    wmax = np.abs(w).max()
    P = own_site_dipoles(crys, case["chem"], sl, dip)
    comps = ref.components(len(rho), jumps)
    cov = sum(r * np.einsum('ab,cd->abcd', p, p) for r, p in zip(rho, P))
    for comp in comps:
        rc = sum(rho[i] for i in comp)
        m = sum(rho[i] * P[i] for i in comp) / rc
        cov -= rc * np.einsum('ab,cd->abcd', m, m)
    scale = sum(r * np.sum(p * p) for r, p in zip(rho, P))
    if scale < 1e-20 * max([1e-300] + [np.sum(p * p) for p in dip]):
        scale = 0.   # every dipole is projected to zero by the site symmetry: nothing to compare but round-off
    total = np.zeros((d, d, d, d))
    rates = []
    for l, L in lam:
        L = np.asarray(L)
        require(np.isfinite(l) and l > 0, lambda: "relaxation mode with non-positive rate %r" % l)
        nearest = np.abs(w - l).min()
        require(nearest <= 1e-8 * wmax and l > 1e-9 * wmax, lambda: "reported relaxation rate %.10g is not a non-zero eigenvalue of the symmetrised rate matrix (nearest differs by %.3e, spectrum %s)"
                % (l, nearest, np.round(w, 8).tolist()))
        sc = max(np.abs(L).max(), 1e-300)
        if scale > 0 and np.abs(L).max() > 1e-13 * scale:
            require(np.abs(L - L.transpose(1, 0, 2, 3)).max() <= 1e-9 * sc and np.abs(L - L.transpose(0, 1, 3, 2)).max() <= 1e-9 * sc
                    and np.abs(L - L.transpose(2, 3, 0, 1)).max() <= 1e-9 * sc, lambda: "loss tensor of mode %.6g lacks the symmetries of an elastic compliance" % l)
            M = L.reshape(d * d, d * d)
            ev = np.linalg.eigvalsh(0.5 * (M + M.T))
            require(ev.min() >= -1e-9 * sc, lambda: "loss tensor of mode %.6g is not positive semidefinite (min eigenvalue/scale %.3e)" % (l, ev.min() / sc))
        total += L
        rates.append(float(l))
    if scale > 0:
        e = np.abs(total - cov).max() / scale
        require(e <= 1e-9, lambda: "sum rule violated: sum of loss tensors differs from the equilibrium dipole fluctuation by %.3e (relative); modes %s, components %d"
                % (e, rates, len(comps)))
    # every non-zero eigenvalue with a non-vanishing dipole projection must be reported: implied by the sum rule
    distinct = []
    for x in sorted(rates):
        if not distinct or x - distinct[-1] > 1e-6 * wmax:
            distinct.append(x)
    nt = len(distinct) >= 2 and np.abs(cov).max() > 1e-9 * max(scale, 1e-300)
    classes = cs.describe(crys) + ["components%d" % min(len(comps), 3), "modes%d" % min(len(rates), 5), "wyckoff%d" % min(len(sl), 3)]
    return {"nontrivial": bool(nt), "classes": classes,
            "sample": {"crystal": case["recipe"]["name"], "basis": case["recipe"]["basis"], "chem": case["chem"], "shell": case["k"], "rates": rates, "dipole": case["dipole"][:2]}}


def run(ctx):
    ctx.corpus(check)
    ctx.given(cases(), check, quick=300, thorough=8000)


def replay(case):
    check(case)
