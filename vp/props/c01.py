"""C01  Vacancy-mediated transport coefficients are exact in the dilute limit."""
import numpy as np
from hypothesis import strategies as st

from ..core import Violation, HarnessError, require, canon, known_ids
from ..strategies import crystals as cs, vacancy as vs, networks as nw
from ..oracles import chain_ref, interstitial_ref as ref

ID = "C01"
RULE = ("Hypothesis draws a crystal (small catalogue structures and generated recipes, 2D and 3D, 1-3 vacancy sites per cell, with and "
        "without site vector bases), the smallest percolating vacancy network, Nthermo in {1,2} and random vacancy, solute, binding and "
        "omega0/omega1/omega2 transition-state free energies.  Oracle: the exact one-solute/one-vacancy Markov chain on three periodic "
        "supercells (brute-force sparse linear algebra on every state, no symmetry), extrapolated in 1/N to infinite dilution; L0vv is "
        "compared with the lone-vacancy full-space diffusivity.  Tolerance max(5 x extrapolation error bar, a quarter of the correction the extrapolation applied to the largest cell, 3e-4 x scale); a larger difference is accepted only if it shrinks by 20% or more when the library is re-evaluated with the denser k-mesh NGFmax=8 (integration_limited).  Non-trivial: "
        "a binding energy or transition-state deviation > 0.1 kT and Lss differs from the tracer value; distinct by (crystal, network, Nthermo, data).")
ASSUMPTIONS = ["states and transitions are classified through the calculator's own lookup (thermo.starindex, kinetic.stateindex, om1/om2 lists); the "
               "classification itself is the subject of C24/C26",
               "agreement is asserted at the oracle's extrapolation accuracy (~1e-4), not at the calculator's k-mesh accuracy (~1e-7)"]
SHARDS = {"quick": 8, "thorough": 16}

EXCLUDE_R1 = "R1" in known_ids("known")     # >=2 Wyckoff sets with non-uniform solute site energies
EXCLUDE_R11 = "R11" in known_ids("known")   # origin states + any solute-vacancy interaction


@st.composite
def cases(draw):
    setup = draw(vs.setups(max_jumps=40, originstates="no" if EXCLUDE_R11 else "any"))
    crys, sl, jn, calc = vs.calculator(setup)
    sol = not (EXCLUDE_R1 and len(sl) > 1)
    data = draw(vs.datasets(calc, sol=sol))
    case = {"setup": setup, "data": data}
    if draw(st.floats(0, 1)) < 0.6:
        # go through the documented pipeline Lij(*preene2betafree(kT, **prefactors_and_energies)): random prefactors, kT and
        # reference energies for vacancy and solute that reproduce exactly the free energies of `data`
        pf = st.floats(-1.0, 1.0).map(lambda x: float(np.round(np.exp(x), 4)))
        case["pipeline"] = {"kT": draw(st.sampled_from([0.3, 0.7, 1.0, 2.5])),
                            "shiftV": float(np.round(draw(st.floats(-2, 2)), 3)), "shiftS": float(np.round(draw(st.floats(-2, 2)), 3)),
                            "pre": {k: [draw(pf) for _ in data[k]] for k in ("bFV", "bFS", "bFSV", "bFT0", "bFT1", "bFT2")}}
    return case


def model(calc, data):
    """physical model (plain functions of site indices and integer cell offsets) from the calculator's input arrays"""
    from onsager.crystalStars import PairState
    crys, chem = calc.crys, calc.chem
    basis = crys.basis[chem]
    inv = [int(x) for x in calc.invmap]
    jumps = []
    for jt, jl in enumerate(calc.om0_jn):
        for (i, j), dx in jl:
            dR = np.round(crys.invlatt @ dx - basis[j] + basis[i]).astype(int)
            jumps.append((i, j, tuple(int(x) for x in dR), np.array(dx), jt))
    FS = [data["bFS"][inv[i]] for i in range(len(basis))]
    FV = [data["bFV"][inv[i]] for i in range(len(basis))]
    om1map = {(a, b): n for n, jl in enumerate(calc.om1_jn) for (a, b), dx in jl}
    om2map = {(a, b): n for n, jl in enumerate(calc.om2_jn) for (a, b), dx in jl}
    zero = np.zeros(crys.dim)

    def PS(i, j, R):
        return PairState(i=i, j=j, R=np.array(R, dtype=int), dx=zero)
    cacheS, cacheK = {}, {}

    def Fstate(i, j, R):
        key = (i, j, R)
        if key not in cacheS:
            k = calc.thermo.starindex(PS(i, j, R))
            cacheS[key] = 0. if k is None else data["bFSV"][k]
        return cacheS[key]

    def kin(i, j, R):
        key = (i, j, R)
        if key not in cacheK:
            cacheK[key] = calc.kinetic.stateindex(PS(i, j, R))
        return cacheK[key]

    def Ftrans(i, j, R, j2, R2, jt):
        a = kin(i, j, R)
        if R2 is None:
            b = kin(j, i, tuple(-x for x in R))
            if a is None or b is None or (a, b) not in om2map:
                raise HarnessError("exchange jump not found in the calculator's omega2 list")
            return data["bFT2"][om2map[(a, b)]]
        b = kin(i, j2, R2)
        if a is None or b is None or (a, b) not in om1map:
            return None
        return data["bFT1"][om1map[(a, b)]]
    return basis, jumps, Fstate, Ftrans, FS, FV


def check(case, budget=12000):
    crys, sl, jn, calc = vs.calculator(case["setup"])
    data = case["data"]
    if not vs.sizes_ok(calc, data):
        raise HarnessError("stale case")
    pl = case.get("pipeline")
    def evaluate(calc):
        if pl is None:
            return calc.Lij(*vs.args(data))
        return calc.Lij(*calc.preene2betafree(kT, **d))
    if pl is None:
        L0vv, Lss, Lsv, L1vv = calc.Lij(*vs.args(data))
    else:
        kT, sV, sS = pl["kT"], pl["shiftV"], pl["shiftS"]
        shift = {"bFV": sV, "bFS": sS, "bFSV": 0., "bFT0": sV, "bFT1": sV + sS, "bFT2": sV + sS}
        names = {"bFV": "V", "bFS": "S", "bFSV": "SV", "bFT0": "T0", "bFT1": "T1", "bFT2": "T2"}
        d = {}
        for k, nm in names.items():
            pre = np.array(pl["pre"][k], dtype=float)
            d["pre" + nm] = pre
            d["ene" + nm] = kT * (np.array(data[k], dtype=float) + np.log(pre)) + shift[k]
        L0vv, Lss, Lsv, L1vv = calc.Lij(*calc.preene2betafree(kT, **d))
    basis, jumps, Fstate, Ftrans, FS, FV = model(calc, data)
    nb = len(basis)
    o = chain_ref.dilute_limit(np.array(crys.lattice), nb, jumps, Fstate, Ftrans, FS, FV, data["bFT0"], budget=budget)
    scale = np.abs(o["D0"]).max()
    # bare vacancy coefficient = lone vacancy diffusivity (second, independent assembly: oracle 3.2)
    rho, jl = ref.rates_from_data(jn, nw.invmap(sl), [1.] * len(sl), data["bFV"], [1.] * len(jn), data["bFT0"])
    D0b = ref.diffusivity(rho, jl, crys.dim)
    if np.abs(D0b - o["D0"]).max() > 1e-9 * scale:
        raise HarnessError("the two lone-vacancy references disagree")
    e0 = np.abs(L0vv - D0b).max() / scale
    require(e0 <= 1e-8, lambda: "L0vv differs from the lone-vacancy diffusivity by %.3e (relative): %s vs %s" % (e0, np.asarray(L0vv).tolist(), D0b.tolist()))
    pmax = max(np.exp(-min(data["bFSV"])) if len(data["bFSV"]) else 1., 1.)
    classes = cs.describe(crys) + vs.describe(calc, data)
    if case["setup"].get("redrawn"):
        classes.append("excluded_R11_redrawn")
    classes.append("via_preene2betafree" if pl is not None else "direct_arrays")
    worst = {}
    # Index convention of the cross coefficient: Lij assembles Lsv[a, b] with a on the vacancy bias vector and b on the solute
    # response (np.dot(np.dot(vkinetic.outer, eta_S), bias_V)), i.e. <dx_v^a dx_s^b>/2t, the transpose of the chain's <dx_s^a dx_v^b>.
    # The two differ only where the point group admits an antisymmetric invariant tensor (chiral 2D cells, C2h, ...); the docstring
    # fixes no order, so the chain value is transposed to the library's order (always, not whichever fits).
    o = dict(o)
    o["Lsv"] = np.asarray(o["Lsv"]).T
    for nm, lib in (("Lss", Lss), ("Lsv", Lsv), ("L1vv", L1vv)):
        tol = max(5 * o[nm + "_err"], 0.25 * o[nm + "_step"], 3e-4 * scale * pmax)
        err = np.abs(np.asarray(lib) - o[nm]).max()
        worst[nm] = (err / scale, tol / scale)
        if err > tol:
            # "to within the calculator's own Brillouin-zone integration accuracy": decided by refinement (see vacancy.py), never by a constant
            idx = {"Lss": 1, "Lsv": 2, "L1vv": 3}[nm]
            ok, e8 = vs.within_integration_accuracy(case["setup"], lambda c8: np.abs(np.asarray(evaluate(c8)[idx]) - o[nm]).max(), err, tol)
            if ok:
                classes.append("integration_limited")
                continue
            err = max(err, e8) if e8 is not None else err
        require(err <= tol, lambda: "%s differs from the infinite-dilution limit of the exact chain: |diff| = %.3e (scale %.3e, tolerance %.3e, oracle error bar %.3e, "
                "supercells %s): library %s chain %s" % (nm, err, scale, tol, o[nm + "_err"], o["sizes"], np.asarray(lib).tolist(), o[nm].tolist()))
    tr = vs.tracer_data(calc, data["bFV"], data["bFT0"])
    dev = max([abs(x) for x in data["bFSV"]] + [abs(a - b) for a, b in zip(tr["bFT1"], data["bFT1"])] + [abs(a - b) for a, b in zip(tr["bFT2"], data["bFT2"])] + [abs(x) for x in data["bFS"]] + [0.])
    nt = dev > 0.1
    return {"key": canon([vs.setup_key(case["setup"]), data]), "nontrivial": bool(nt), "classes": classes,
            "sample": {"crystal": case["setup"]["recipe"]["name"], "basis": case["setup"]["recipe"]["basis"], "shell": case["setup"]["k"], "Nthermo": case["setup"]["Nthermo"],
                       "data": data, "chain_supercells": o["sizes"], "chain_states": o["states"],
                       "rel_error_and_tolerance": {k: [float(a), float(b)] for k, (a, b) in worst.items()}}}


def run(ctx):
    ctx.corpus(check)
    ctx.known(check)
    ctx.given(cases(), check, quick=48, thorough=640, shrink=False)


def replay(case):
    check(case)
