"""C18  The crystal's symmetry group is a correct group of self-isometries."""
import itertools

import numpy as np
from hypothesis import strategies as st

from ..core import Violation, require, canon
from ..strategies import crystals as cs
from ..oracles import geom

ID = "C18"
RULE = ("Hypothesis draws a crystal recipe (all 3D/2D lattice systems, orbit decorations, catalogue of the suite's "
        "structures), optional spins (scalar +-1/0/complex phases or vectors), optional strain from a coarse set and the "
        "NOSYM flag; the constructed crystal's operations are checked one by one against brute-force geometry "
        "(integer unimodular rot, orthogonal cartrot = L rot L^-1, every atom lands on an atom of the same species and "
        "spin with the recorded index map) and the set is checked for the group axioms modulo lattice translations. "
        "Non-trivial: |G|>1 with >=2 atoms, or spins present, or NOSYM, or strained; distinct by (lattice, basis, spins, flags).")
ASSUMPTIONS = ["lattice parameters are drawn from coarse sets, so no two descriptions differ by less than 0.05 unless exactly symmetric",
               "completeness of the group (maximality) is not asserted here; it is asserted through the orbit comparison of C20"]
SHARDS = {"quick": 4, "thorough": 16}

TOL = 1e-7

SCALARS = [1, -1, 0, 1j]
VECS3 = [[0., 0., 1.], [0., 0., -1.], [1., 0., 0.], [0., 0., 0.]]
VECS2 = [[0., 1.], [0., -1.], [1., 0.]]
STRAINS = [0.03, -0.04, 0.05]


@st.composite
def cases(draw):
    rec = draw(cs.recipes(max_mobile=6, max_other=4))
    d = len(rec["lattice"])
    case = {"recipe": rec, "nosym": draw(st.sampled_from([False, False, False, True])), "spins": None, "strain": None}
    kind = draw(st.sampled_from(["none", "none", "scalar", "vector"]))
    if kind == "scalar":
        case["spins"] = [[draw(st.sampled_from([0, 1, 2, 3])) for _ in sp] for sp in rec["basis"]]
        case["spinkind"] = "scalar"
    elif kind == "vector":
        nv = 4 if d == 3 else 3
        case["spins"] = [[draw(st.integers(0, nv - 1)) for _ in sp] for sp in rec["basis"]]
        case["spinkind"] = "vector"
    if kind == "none" and draw(st.floats(0, 1)) < 0.25:
        # symmetric vector-spin texture: a seed spin on one atom, transported by a subgroup of the (spinless) crystal's
        # operations (own brute-force group) -- gives crystals whose magnetic group still contains 3-, 4-, 6-fold operations
        case["spinkind"] = "texture"
        case["texture"] = {"atom": draw(st.integers(0, 50)), "ops": [draw(st.integers(0, 200)) for _ in range(2)],
                           "v": [draw(st.sampled_from([1., 0., -1., 0.5])) for _ in range(d)], "axial": draw(st.booleans())}
    if draw(st.sampled_from([False, False, True])):
        comp = draw(st.sampled_from(list(itertools.combinations_with_replacement(range(d), 2))))
        case["strain"] = [list(comp), draw(st.sampled_from(STRAINS))]
    return case


def _texture(case):
    """vector spins from the texture recipe: group average over the chosen subgroup (polar-vector rule s -> R s, the rule
    the constructor documents for vector spins)"""
    rec = case["recipe"]
    L = np.array(rec["lattice"], dtype=float)
    atoms = [(c, np.array(u, dtype=float)) for c, sp in enumerate(rec["basis"]) for u in sp]
    ops = geom.space_group(L, atoms)
    t = case["texture"]
    gens = [ops[k % len(ops)] for k in t["ops"]]
    # closure of the generators
    def mul(a, b):
        return (a[0] @ b[0], np.mod(a[0] @ b[1] + a[1], 1.0), tuple(a[2][b[2][n]] for n in range(len(atoms))))
    H = [ops[0].__class__((np.eye(L.shape[0], dtype=int), np.zeros(L.shape[0]), tuple(range(len(atoms)))))]
    frontier = list(H)
    def key(o):
        return (tuple(o[0].flatten()), o[2])
    seen = {key(H[0])}
    while frontier and len(H) < 96:
        new = []
        for h in frontier:
            for g in gens:
                p_ = mul(g, h)
                if key(p_) not in seen:
                    seen.add(key(p_))
                    H.append(p_)
                    new.append(p_)
        frontier = new
    a0 = t["atom"] % len(atoms)
    v = np.array(t["v"], dtype=float)
    if np.linalg.norm(v) < 1e-9:
        v = np.eye(L.shape[0])[0]
    acc = [np.zeros(L.shape[0]) for _ in atoms]
    cnt = [0] * len(atoms)
    for h in H:
        R = geom.cartrot(L, h[0])
        acc[h[2][a0]] += R @ v
        cnt[h[2][a0]] += 1
    spins = [(acc[n] / cnt[n] if cnt[n] else np.zeros(L.shape[0])) for n in range(len(atoms))]
    out, n = [], 0
    for sp in rec["basis"]:
        out.append([np.round(spins[n + k], 12) for k in range(len(sp))])
        n += len(sp)
    return out, len(H)


def _spins(case):
    if case.get("spinkind") == "texture":
        return _texture(case)[0]
    if case.get("spins") is None:
        return None
    d = len(case["recipe"]["lattice"])
    if case["spinkind"] == "scalar":
        return [[SCALARS[k] for k in sp] for sp in case["spins"]]
    V = VECS3 if d == 3 else VECS2
    return [[np.array(V[k]) for k in sp] for sp in case["spins"]]


def _phases(optype):
    rot2, rot4 = (1, -1), (1, -1, 1j, -1j)
    rot6 = tuple(np.exp(n * np.pi * 2j / 6) for n in range(6))
    return {1: rot2, 2: rot2, 3: rot6, 4: rot4, 6: rot6}[abs(optype)]


def check_group(crys, label=""):
    """soundness of every operation + group axioms; raises Violation"""
    from onsager import crystal
    L = np.array(crys.lattice)
    Linv = np.linalg.inv(L)
    d = crys.dim
    G = list(crys.G)
    scale = np.linalg.norm(L, axis=0).max()
    require(len(G) >= 1, "%sempty group" % label)
    for g in G:
        R = np.asarray(g.rot)
        require(R.shape == (d, d) and np.asarray(g.cartrot).shape == (d, d) and np.asarray(g.trans).shape == (d,),
                lambda: "%soperation has wrong dimension: rot %s" % (label, R.shape))
        require(np.all(R == np.round(R)) and abs(abs(np.linalg.det(R)) - 1) < 1e-9, lambda: "%srot not integer unimodular: %s" % (label, R.tolist()))
        C = np.asarray(g.cartrot, dtype=float)
        require(np.abs(C @ C.T - np.eye(d)).max() < TOL, lambda: "%scartrot not orthogonal: %s" % (label, C.tolist()))
        require(np.abs(C - L @ R @ Linv).max() < TOL, lambda: "%scartrot != L rot L^-1 for rot %s" % (label, R.tolist()))
        require(np.abs(R.T @ (L.T @ L) @ R - L.T @ L).max() < TOL * scale ** 2, lambda: "%srot does not preserve the metric: %s" % (label, R.tolist()))
        require(len(g.indexmap) == len(crys.basis), "%sindexmap has wrong number of species" % label)
        for c, ulist in enumerate(crys.basis):
            im = g.indexmap[c]
            require(sorted(im) == list(range(len(ulist))), lambda: "%sindexmap of species %d is not a permutation: %s" % (label, c, im))
            for i, u in enumerate(ulist):
                v = R @ np.asarray(u) + np.asarray(g.trans)
                dv = geom.wrap(v - np.asarray(ulist[im[i]]))
                require(np.linalg.norm(L @ dv) < 1e-6 * scale,
                        lambda: "%satom (%d,%d) is not mapped onto atom (%d,%d) by rot %s trans %s" % (label, c, i, c, im[i], R.tolist(), np.asarray(g.trans).tolist()))
        if crys.spins is not None:
            optype = crystal.GroupOp.optype(R)
            det = 1 if optype > 0 else -1
            ok = False
            for ph in _phases(optype):
                good = True
                for c, slist in enumerate(crys.spins):
                    for i, s in enumerate(slist):
                        s_img = crys.spins[c][g.indexmap[c][i]]
                        rs = det * s if np.ndim(s) == 0 else C @ np.asarray(s)
                        if not np.allclose(ph * rs, s_img, atol=1e-7):
                            good = False
                            break
                    if not good:
                        break
                if good:
                    ok = True
                    break
            require(ok, lambda: "%sno global phase makes rot %s map every spin onto the spin of the image atom" % (label, R.tolist()))

    # group axioms modulo lattice translations
    def find(R, t, im):
        for h in G:
            if np.all(np.asarray(h.rot) == R) and h.indexmap == im:
                dt = t - np.asarray(h.trans)
                if np.abs(dt - np.round(dt)).max() < 1e-6:
                    return True
        return False
    ident_im = tuple(tuple(range(len(ul))) for ul in crys.basis)
    require(find(np.eye(d, dtype=int), np.zeros(d), ident_im), "%sidentity is missing" % label)
    for g in G:
        Ri = np.round(np.linalg.inv(g.rot)).astype(int)
        im_inv = tuple(tuple(int(np.argsort(im)[k]) for k in range(len(im))) for im in g.indexmap)
        require(find(Ri, -Ri @ np.asarray(g.trans), im_inv), lambda: "%sinverse of rot %s is missing" % (label, np.asarray(g.rot).tolist()))
        # the library's own inverse (GroupOp.inv) must be that operation: rot^-1, -rot^-1 t, inverted index map
        gi = g.inv()
        require(np.all(np.asarray(gi.rot) == Ri) and np.abs(np.asarray(gi.trans) + Ri @ np.asarray(g.trans)).max() < 1e-9
                and tuple(tuple(int(x) for x in im) for im in gi.indexmap) == im_inv,
                lambda: "%sGroupOp.inv() of rot %s, trans %s is not its inverse: rot %s trans %s (expected trans %s)"
                % (label, np.asarray(g.rot).tolist(), np.asarray(g.trans).tolist(), np.asarray(gi.rot).tolist(), np.asarray(gi.trans).tolist(), (-Ri @ np.asarray(g.trans)).tolist()))
        e = g * gi
        require(np.all(np.asarray(e.rot) == np.eye(len(Ri), dtype=int)) and np.abs(np.asarray(e.trans)).max() < 1e-9,
                lambda: "%sg * g.inv() is not the identity for rot %s" % (label, np.asarray(g.rot).tolist()))
    if len(G) <= 48:
        pairs = itertools.product(G, G)
    else:
        pairs = itertools.product(G[:12], G)
    for g, h in pairs:
        R = np.asarray(g.rot) @ np.asarray(h.rot)
        t = np.asarray(g.rot) @ np.asarray(h.trans) + np.asarray(g.trans)
        im = tuple(tuple(g.indexmap[c][h.indexmap[c][i]] for i in range(len(crys.basis[c]))) for c in range(len(crys.basis)))
        require(find(R, t, im), lambda: "%sproduct of rot %s and rot %s (with composed index map) is not in the group" % (label, np.asarray(g.rot).tolist(), np.asarray(h.rot).tolist()))
        gh = g * h
        require(np.all(np.asarray(gh.rot) == R) and gh.indexmap == im and np.abs(np.asarray(gh.trans) - t).max() < 1e-9,
                lambda: "%sg*h does not carry the composed rotation/translation/index map of g after h (rot %s, %s)" % (label, np.asarray(g.rot).tolist(), np.asarray(h.rot).tolist()))


def check(case):
    from onsager import crystal
    rec = dict(case["recipe"])
    kw = {}
    spins = _spins(case)
    if spins is not None:
        kw["spins"] = spins
    if case["nosym"]:
        kw["NOSYM"] = True
    basis = [[np.array(u, dtype=float) for u in sp] for sp in rec["basis"]]
    try:
        crys = crystal.Crystal(np.array(rec["lattice"], dtype=float), basis, **kw)
    except ArithmeticError as e:
        if "Reduction did not produce" in str(e):
            return {"classes": ["reduce_arith_error(C19 domain)"], "nontrivial": False}
        raise
    check_group(crys)
    classes = cs.describe(crys)
    if case["nosym"]:
        classes.append("NOSYM")
        require(len(crys.G) == 1, "NOSYM crystal has %d operations" % len(crys.G))
        g = next(iter(crys.G))
        require(np.asarray(g.rot).shape == (crys.dim, crys.dim) and np.all(np.asarray(g.rot) == np.eye(crys.dim, dtype=int)),
                "NOSYM operation is not the identity of the crystal's dimension")
        # the crystal must be usable
        sl = crys.sitelist(0)
        require(sorted(i for s in sl for i in s) == list(range(len(crys.basis[0]))), "NOSYM sitelist does not cover the sites")
        require(all(len(s) == 1 for s in sl), "NOSYM sitelist groups sites although only the identity is available")
        jn = crys.jumpnetwork(0, 1.01 * np.linalg.norm(crys.lattice, axis=0).min())
        require(all(len(cl) >= 1 for cl in jn), "NOSYM jumpnetwork has an empty class")
    if case.get("strain") is not None:
        (i, j), e = case["strain"]
        eps = np.zeros((crys.dim, crys.dim))
        eps[i, j] = eps[j, i] = e
        try:
            scrys = crys.strain(eps)
        except ArithmeticError as ex:
            if "Reduction did not produce" not in str(ex):
                raise
        else:
            check_group(scrys, "strained: ")
            classes.append("strained")
            classes.append("strain_G%d" % len(scrys.G))
    if spins is not None:
        classes.append("spins_" + case["spinkind"])
        if case["spinkind"] == "texture":
            classes.append("texture_G%d" % len(crys.G))
    nt = (len(crys.G) > 1 and crys.N >= 2) or spins is not None or case["nosym"] or case.get("strain") is not None
    return {"key": canon([rec["lattice"], rec["basis"], case.get("spins"), case.get("texture"), case["nosym"], case.get("strain")]), "nontrivial": nt, "classes": classes,
            "sample": {"name": rec["name"], "lattice": rec["lattice"], "basis": rec["basis"], "spins": case.get("spins"), "nosym": case["nosym"], "strain": case.get("strain"), "order": len(crys.G)}}


def run(ctx):
    ctx.corpus(check)
    base = [{"recipe": r, "nosym": ns, "spins": None, "strain": None} for r in cs.catalogue() for ns in (False, True)]
    ctx.cases([c for i, c in enumerate(base) if ctx.mine(i)], check, label="catalogue")
    ctx.given(cases(), check, quick=240, thorough=12000)


def replay(case):
    check(case)
