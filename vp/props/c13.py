"""C13  Saved and reloaded calculators reproduce results exactly."""
import numpy as np
from hypothesis import strategies as st

from ..core import Violation, HarnessError, require, canon
from ..strategies import crystals as cs, vacancy as vs, networks as nw, data as dt
from . import c10

ID = "C13"
RULE = ("Five families of round trips drawn by Hypothesis.  vm: a vacancy-mediated calculator (2D/3D, multi-site, with/without origin states) is "
        "written to an in-memory HDF5 file before and/or after its Green-function cache is populated (history of evaluate/save-reload/clearcache "
        "steps) and the reloaded copy must return the same tensors (<= 1e-14 x scale) and the same tags as the original for every later input; "
        "gf: GFCrystalcalc round trip, same rates on both, same values at random endpoints; stars: StarSet and VectorStarSet round trips compared "
        "attribute by attribute (states, stars, indices, jump lists, vector stars, outer products); taylor: random Taylor2D/3D coefficient lists, "
        "coefficients and evaluations equal; yaml: Crystal (lattice, basis, chemistry, threshold, operations), GroupOp, PairState, ClusterSite, "
        "Cluster dumped and loaded back must compare equal.  Non-trivial: vm histories with a reload both before and after the cache is populated, "
        "or any non-vm family on a crystal with >= 2 atoms; distinct by full case.")
ASSUMPTIONS = ["HDF5/YAML store float64 exactly, so equality is asserted to 1e-14 (relative) for results and exactly for integer data",
               "reloaded calculators receive inputs in array form (their class order is stored in the file)"]
SHARDS = {"quick": 8, "thorough": 16}


def h5():
    import h5py
    return h5py.File("c13-mem-%d.h5" % np.random.default_rng(0).integers(1), "w", driver="core", backing_store=False)


@st.composite
def cases(draw):
    fam = draw(st.sampled_from(["vm", "vm", "gf", "stars", "taylor", "yaml", "yaml"]))
    if fam == "vm":
        setup = draw(vs.setups())
        if len(vs.calculator(setup)[1]) > 1 and draw(st.booleans()):
            setup = dict(setup, slperm=True)   # sitelist passed in the caller's own order (reversed), not Crystal.sitelist order
        crys, sl, jn, calc = vs.calculator(setup)
        pool = [draw(vs.datasets(calc)) for _ in range(2)]
        hist = draw(st.lists(st.sampled_from(["eval0", "eval1", "reload", "reload", "clear", "rematrix"]), min_size=2, max_size=6))
        return {"family": fam, "setup": setup, "pool": pool, "history": hist}
    if fam == "gf":
        c = draw(c10.cases())
        c["family"] = fam
        return c
    if fam == "stars":
        setup = draw(vs.setups(nthermo=(1, 2)))
        return {"family": fam, "setup": setup, "originstates": draw(st.booleans())}
    if fam == "taylor":
        dim = draw(st.sampled_from([2, 3]))
        nterms = draw(st.integers(1, 4))
        shape = draw(st.sampled_from([[], [2], [2, 2], [3, 3]]))
        terms = []
        f = st.floats(-2, 2).map(lambda x: float(np.round(x, 3)))
        for _ in range(nterms):
            n = draw(st.integers(-2, 4))
            l = draw(st.integers(0, 4))
            terms.append({"n": n, "l": l, "seed": [draw(f) for _ in range(8)], "complex": draw(st.booleans())})
        pts = [[draw(f) for _ in range(dim)] for _ in range(3)]
        return {"family": fam, "dim": dim, "shape": shape, "terms": terms, "points": pts}
    rec = draw(cs.recipes(max_mobile=4, max_other=3))
    return {"family": "yaml", "recipe": rec, "pick": [draw(st.integers(0, 10 ** 6)) for _ in range(6)]}


def _same(a, b, what, tol=0.):
    a, b = np.asarray(a), np.asarray(b)
    require(a.shape == b.shape, lambda: "%s: shape %s vs %s after reload" % (what, a.shape, b.shape))
    if a.size:
        sc = max(np.abs(a).max(), 1e-300)
        require(np.abs(a - b).max() <= tol * sc, lambda: "%s differs after save/reload by %.3e (relative)" % (what, np.abs(a - b).max() / sc))


def check_vm(case):
    import h5py
    from onsager import OnsagerCalc
    crys, sl, jn, base = vs.calculator(case["setup"])
    for d in case["pool"]:
        if not vs.sizes_ok(base, d):
            raise HarnessError("stale case")
    orig = vs.calculator(case["setup"], fresh=True)[3]
    copy = None
    cache_populated = False
    reload_before = reload_after = False
    trace = []
    for step in case["history"] + ["eval0", "eval1"]:
        if step.startswith("eval"):
            d = case["pool"][int(step[-1])]
            A = orig.Lij(*vs.args(d))
            cache_populated = True
            if copy is not None:
                B = copy.Lij(*vs.args(d))
                sc = max(np.abs(x).max() for x in A)
                for nm, a, b in zip(("L0vv", "Lss", "Lsv", "L1vv"), A, B):
                    e = np.abs(np.asarray(a) - np.asarray(b)).max() / sc
                    require(e <= 1e-14, lambda: "reloaded calculator returns a different %s (relative %.3e) after history %s" % (nm, e, trace))
        elif step == "rematrix":
            # generatematrices() is a public, argument-free method that rebuilds the rate-expansion matrices from the stored
            # stars and jump networks: a further call that must behave the same on the copy
            orig.generatematrices()
            if copy is not None:
                copy.generatematrices()
        elif step == "clear":
            orig.clearcache()
            cache_populated = False
            if copy is not None:
                copy.clearcache()
        else:
            f = h5py.File("c13vm.h5", "w", driver="core", backing_store=False)
            src = orig if copy is None else copy   # reload of a reloaded copy is allowed too
            src.addhdf5(f.create_group("d"))
            copy = OnsagerCalc.VacancyMediated.loadhdf5(f["d"])
            f.close()
            require(copy.tags == orig.tags, "tags differ after reload")
            require([sorted(w) for w in copy.sitelist] == [sorted(w) for w in orig.sitelist], lambda: "sitelist (order of Wyckoff sets, members as sets) differs after reload: %s vs %s" % (copy.sitelist, orig.sitelist))
            for nm in ("om0_jn", "om1_jn", "om2_jn"):
                A_, B_ = getattr(orig, nm), getattr(copy, nm)
                require(len(A_) == len(B_) and all(len(x) == len(y) for x, y in zip(A_, B_)), lambda: "%s has a different shape after reload" % nm)
                for x, y in zip(A_, B_):
                    for ((i1, j1), dx1), ((i2, j2), dx2) in zip(x, y):
                        require((i1, j1) == (i2, j2) and np.allclose(dx1, dx2, atol=1e-12), lambda: "%s differs after reload: %s vs %s" % (nm, ((i1, j1), dx1), ((i2, j2), dx2)))
            require(copy.tagdict == orig.tagdict and copy.tagdicttype == orig.tagdicttype, "tag dictionaries differ after reload")
            require(set(copy.GFvalues.keys()) == set(src.GFvalues.keys()), "cached Green-function keys differ after reload")
            if cache_populated:
                reload_after = True
            else:
                reload_before = True
        trace.append(step)
    return {"nontrivial": reload_before and reload_after, "classes": cs.describe(crys) + vs.describe(base) + ["vm"] + (["sitelist_in_caller_order"] if case["setup"].get("slperm") else []) + (["reload_before_cache"] if reload_before else []) + (["reload_after_cache"] if reload_after else []),
            "sample": {"family": "vm", "crystal": case["setup"]["recipe"]["name"], "Nthermo": case["setup"]["Nthermo"], "history": trace}}


def check_gf(case):
    import h5py
    from onsager import GFcalc
    crys, sl, jn, GF = c10.gfcalc(case, 4)
    if len(case["pre"]) != len(sl) or len(case["preT"]) != len(jn):
        raise HarnessError("stale case")
    f = h5py.File("c13gf.h5", "w", driver="core", backing_store=False)
    GF.addhdf5(f.create_group("g"))
    G2 = GFcalc.GFCrystalcalc.loadhdf5(crys, f["g"])
    f.close()
    for G in (GF, G2):
        G.SetRates(np.array(case["pre"]), np.array(case["ene"]), np.array(case["preT"]), np.array(case["eneT"]))
    _same(GF.D, G2.D, "GF diffusivity", 1e-14)
    basis = crys.basis[case["chem"]]
    for (i, j, R) in case["ends"]:
        x = crys.lattice @ (np.array(R) + basis[j] - basis[i])
        a, b = GF(i, j, x), G2(i, j, x)
        require(abs(a - b) <= 1e-14 * max(abs(a), 1e-300), lambda: "Green function value differs after reload: %r vs %r" % (a, b))
    return {"nontrivial": crys.N >= 2, "classes": cs.describe(crys) + ["gf"], "sample": {"family": "gf", "crystal": case["recipe"]["name"], "ends": case["ends"]}}


def check_stars(case):
    import h5py
    from onsager import crystalStars as stars
    crys, sl, jn, calc = vs.calculator(case["setup"])
    S = stars.StarSet(jn, crys, case["setup"]["chem"])
    S.generate(case["setup"]["Nthermo"], originstates=case["originstates"])
    V = stars.VectorStarSet(S)
    f = h5py.File("c13st.h5", "w", driver="core", backing_store=False)
    S.addhdf5(f.create_group("s"))
    V.addhdf5(f.create_group("v"))
    S2 = stars.StarSet.loadhdf5(crys, f["s"])
    V2 = stars.VectorStarSet.loadhdf5(S2, f["v"])
    f.close()
    require(S2.Nshells == S.Nshells and S2.Nstates == S.Nstates and S2.Nstars == S.Nstars, "star set sizes differ after reload")
    require(all(a == b for a, b in zip(S.states, S2.states)) and len(S.states) == len(S2.states), "states differ after reload")
    for a, b in zip(S.states, S2.states):
        _same(a.dx, b.dx, "state dx", 1e-15)
    require([list(s) for s in S.stars] == [list(s) for s in S2.stars], "stars differ after reload")
    require(list(S.index) == list(S2.index), "state->star index differs after reload")
    require(len(S.jumplist) == len(S2.jumplist) and all(a == b for a, b in zip(S.jumplist, S2.jumplist)), "jump list differs after reload")
    require([list(x) for x in S.jumpnetwork_index] == [list(x) for x in S2.jumpnetwork_index], "jumpnetwork_index differs after reload")
    for n, PS in enumerate(S.states):
        require(S2.stateindex(PS) == n and S2.starindex(PS) == S.starindex(PS), "index lookups of the reloaded star set disagree")
    require(V2.Nvstars == V.Nvstars, "number of vector stars differs after reload")
    require([list(x) for x in V.vecpos] == [list(x) for x in V2.vecpos], "vecpos differs after reload")
    for a, b in zip(V.vecvec, V2.vecvec):
        _same(np.array(a), np.array(b), "vecvec", 0.)
    _same(V.outer, V2.outer, "outer", 0.)
    # the reloaded objects must be usable: same expansions
    r1 = S.jumpnetwork_omega1()
    r2 = S2.jumpnetwork_omega1()
    require([[ij for ij, dx in jl] for jl in r1[0]] == [[ij for ij, dx in jl] for jl in r2[0]] and list(r1[1]) == list(r2[1]), "omega1 network of the reloaded star set differs")
    g1, gs1 = V.GFexpansion()
    g2, gs2 = V2.GFexpansion()
    _same(g1, g2, "GF expansion", 1e-15)
    return {"nontrivial": crys.N >= 2 or S.Nstars > 2, "classes": cs.describe(crys) + ["stars", "originstates" if case["originstates"] else "no_originstates"],
            "sample": {"family": "stars", "crystal": case["setup"]["recipe"]["name"], "Nshells": int(S.Nshells), "Nstates": int(S.Nstates), "Nvstars": int(V.Nvstars)}}


def check_taylor(case):
    import h5py
    from onsager import PowerExpansion as PE
    T = PE.Taylor3D if case["dim"] == 3 else PE.Taylor2D
    T()
    shape = tuple(case["shape"])
    coeffs = {}
    for t in case["terms"]:
        npow = T.powlrange[t["l"]]
        rng = np.array(t["seed"])
        size = int(npow * max(1, int(np.prod(shape))))
        vals = np.array([rng[k % 8] * (1 + 0.37 * (k // 8)) for k in range(size)]).reshape((npow,) + shape)
        if t["complex"]:
            vals = vals * (1 + 0.5j)
        coeffs[(t["n"], t["l"])] = vals    # one entry per (n, l)
    cl = [(n, l, c) for (n, l), c in sorted(coeffs.items())]
    A = T(cl)
    f = h5py.File("c13t.h5", "w", driver="core", backing_store=False)
    A.addhdf5(f.create_group("t"))
    B = T.loadhdf5(f["t"])
    f.close()
    db = {(n, l): c for n, l, c in B.coefflist}
    require(set(db) == set(coeffs), lambda: "(n,l) terms differ after reload: %s vs %s" % (sorted(db), sorted(coeffs)))
    for k, c in coeffs.items():
        _same(c, db[k], "Taylor coefficient %s" % (k,), 0.)
    fnu = {(n, l): (lambda u, n=n: u ** n) for (n, l) in coeffs}
    for p in case["points"]:
        u = np.array(p)
        if np.linalg.norm(u) < 1e-3:
            continue
        _same(A(u, fnu), B(u, fnu), "Taylor evaluation", 1e-14)
    return {"nontrivial": len(coeffs) >= 2 or len(shape) > 0, "classes": ["taylor", "dim%d" % case["dim"], "shape%d" % len(shape)],
            "sample": {"family": "taylor", "dim": case["dim"], "shape": case["shape"], "terms": [[t["n"], t["l"]] for t in case["terms"]]}}


def check_yaml(case):
    import yaml
    from onsager import crystal, crystalStars as stars, cluster
    crys = cs.build(case["recipe"])
    pk = case["pick"]
    c2 = yaml.load(yaml.dump(crys), Loader=yaml.Loader)
    _same(crys.lattice, c2.lattice, "crystal lattice", 0.)
    require(len(crys.basis) == len(c2.basis) and all(len(a) == len(b) for a, b in zip(crys.basis, c2.basis)), "crystal basis layout differs after YAML round trip")
    for a, b in zip(crys.basis, c2.basis):
        for u, v in zip(a, b):
            _same(u, v, "basis position", 0.)
    require(list(crys.chemistry) == list(c2.chemistry), "chemistry differs after YAML round trip")
    require(float(crys.threshold) == float(c2.threshold), "threshold differs after YAML round trip")
    require(len(c2.G) == len(crys.G) and all(any(g == h for h in c2.G) for g in crys.G), "group operations differ after YAML round trip")
    require(c2.Wyckoff == crys.Wyckoff, "Wyckoff sets differ after YAML round trip")
    G = sorted(crys.G, key=lambda g: (tuple(np.asarray(g.rot).flatten()), tuple(np.round(g.trans, 6))))
    g = G[pk[0] % len(G)]
    g2 = yaml.load(yaml.dump(g), Loader=yaml.Loader)
    require(g2 == g and hash(g2) == hash(g), "GroupOp does not survive a YAML round trip")
    chem = pk[1] % len(crys.basis)
    n = len(crys.basis[chem])
    R = np.array([(pk[2] >> k) % 5 - 2 for k in range(crys.dim)])
    i, j = pk[3] % n, pk[4] % n
    dx = crys.lattice @ (R + crys.basis[chem][j] - crys.basis[chem][i])
    PS = stars.PairState(i=i, j=j, R=R, dx=dx)
    PS2 = yaml.load(yaml.dump(PS), Loader=yaml.Loader)
    require(PS2 == PS and hash(PS2) == hash(PS), "PairState does not survive a YAML round trip")
    _same(PS.dx, PS2.dx, "PairState dx", 0.)
    site = cluster.ClusterSite(ci=(chem, i), R=R)
    s2 = yaml.load(yaml.dump(site), Loader=yaml.Loader)
    require(s2 == site and hash(s2) == hash(site), "ClusterSite does not survive a YAML round trip")
    sites = [site, cluster.ClusterSite(ci=(chem, j), R=np.zeros(crys.dim, dtype=int))]
    if sites[0] == sites[1]:
        sites = sites[:1]
    cl = cluster.Cluster(sites)
    cl2 = yaml.load(yaml.dump(cl), Loader=yaml.Loader)
    require(cl2 == cl and hash(cl2) == hash(cl), "Cluster does not survive a YAML round trip")
    vc = cluster.Cluster(sites, vacancy=True)
    vc2 = yaml.load(yaml.dump(vc), Loader=yaml.Loader)
    require(vc2 == vc and hash(vc2) == hash(vc) and vc2 != cl, "vacancy Cluster does not survive a YAML round trip")
    if len(sites) == 2:
        vts = cluster.Cluster(sites, transition=True, vacancy=True)
        vts2 = yaml.load(yaml.dump(vts), Loader=yaml.Loader)
        require(vts2 == vts and hash(vts2) == hash(vts), "vacancy transition-state Cluster does not survive a YAML round trip")
        ts = cluster.Cluster(sites, transition=True)
        ts2 = yaml.load(yaml.dump(ts), Loader=yaml.Loader)
        require(ts2 == ts and hash(ts2) == hash(ts), "transition-state Cluster does not survive a YAML round trip")
    return {"nontrivial": crys.N >= 2, "classes": cs.describe(crys) + ["yaml"], "sample": {"family": "yaml", "crystal": case["recipe"]["name"], "basis": case["recipe"]["basis"]}}


def check(case):
    return {"vm": check_vm, "gf": check_gf, "stars": check_stars, "taylor": check_taylor, "yaml": check_yaml}[case["family"]](case)


def many_jump_types():
    """Green-function calculators with more than ten symmetry-unique jump types and a different rate for each (the HDF5 group
    then holds members jump-0 ... jump-11, whose name order differs from their numerical order): the generic strategies stop at
    the fourth neighbour shell"""
    out = []
    for rec, k in (({"name": "aP-bravais", "lattice": [[1.0, 0.31, 0.17], [0.0, 1.13, 0.23], [0.0, 0.0, 0.94]], "basis": [[[0., 0., 0.]]]}, 12),
                   ({"name": "ob-2site", "lattice": [[1.0, 0.37], [0.0, 1.21]], "basis": [[[0., 0.], [0.37, 0.41]]]}, 12)):
        crys = cs.build(rec)
        sl, jn, cut = nw.network(crys, 0, k, 0)
        if len(jn) < 11 or not nw.gf_ok(crys, 0, sl, jn):
            raise HarnessError("many-jump-type family: %s has %d jump types" % (rec["name"], len(jn)))
        d = crys.dim
        out.append({"family": "gf", "recipe": rec, "chem": 0, "k": k, "pre": [1.0 + 0.3 * w for w in range(len(sl))], "ene": [0.2 * w for w in range(len(sl))],
                    "preT": [1.0 + 0.1 * t for t in range(len(jn))], "eneT": [1.0 + 0.17 * t for t in range(len(jn))],
                    "ends": [[0, len(crys.basis[0]) - 1, [1, 0, 2][:d]], [0, 0, [2, 1, 0][:d]], [0, 0, [0, 0, 0][:d]], [0, 0, [1, 1, 1][:d]]], "alpha": 1.0, "gop": 0})
    return out


def run(ctx):
    ctx.corpus(check)
    ctx.cases([c for i, c in enumerate(many_jump_types()) if ctx.mine(i)], check, label="gf_many_jump_types")
    ctx.given(cases(), check, quick=160, thorough=1200, shrink=not ctx.quick)


def replay(case):
    check(case)
