"""C10  The lattice Green function solves the diffusion equation."""
import numpy as np
from hypothesis import strategies as st

from ..core import Violation, HarnessError, require, canon
from ..strategies import crystals as cs, networks as nw, data as dt, vacancy as vs
from ..oracles import interstitial_ref as ref

ID = "C10"
RULE = ("Hypothesis draws a crystal (2D/3D, 1-4 sites of the diffusing species, 1-2 species, catalogue + generated), a percolating jump "
        "network (connected, or several symmetry-equivalent components), site/transition prefactors and energies, and 4 endpoint pairs "
        "(i, j, R) with |R_k| <= kptgrid_k/4.  Oracles: (a) lattice equation sum_l w_sym(j->l) g(i,l,x+dx) - escape_j g(i,j,x) = delta, "
        "assembled from the raw jump list; (b) g(i,j,x) = g(j,i,-x); (c) invariance under every space-group operation; (d) uniform rate "
        "scaling alpha gives g/alpha; (e) 3D far field: g(i,i,0) - g(i,i,x) with x a quarter of the k-mesh period along each lattice direction equals "
        "the exact lattice Green function (independent brute-force Fourier sum over periodic supercells 2x and 3x the k-mesh period, extrapolated in 1/N^3; "
        "the reference is validated against the lattice equation in every case); (f) GF.D equals the exact reference diffusivity.  Integration accuracy is decided by refinement: a "
        "residual above the tight tolerance is accepted only if it at least halves when Nmax goes from 4 to 8.  Non-trivial: >= 2 Wyckoff "
        "sets with different energies or separation >= 3 jump lengths; distinct by (crystal, network, data, endpoints, mesh order).  A quarter of the "
        "calculators are built on a caller-supplied k-point mesh (kptwt=): the library's own reduced mesh, reversed or rolled by half, so that Gamma is not the first point.")
ASSUMPTIONS = ["tight tolerances: 2e-6 (3D) / 2e-5 (2D) relative to escape*|g(0)| for the lattice equation, 1e-9 for exact symmetries",
               "far field: tolerance 2e-6 |g(0)| + 5 x reference error bar before refinement; the continuum pole is the large-|x| limit of the exact lattice function the library is compared with",
               "network precondition of the calculator (percolating, equivalent components) is imposed by the generator"]
SHARDS = {"quick": 4, "thorough": 16}


@st.composite
def cases(draw):
    names = ["SC", "FCC", "BCC", "HCP", "diamond", "B2", "omega", "romega", "square", "tria", "honeycomb", "rect2", "tetP2", "HCPoct", "FCCoct", "L12m", "NbO"]
    if draw(st.booleans()):
        rec = draw(st.sampled_from(cs.catalogue(names)))
    else:
        rec = draw(cs.crystal_recipes(max_species=2, max_mobile=4, max_other=3))
    crys = cs.build(rec)
    chem = 0
    if len(crys.basis) > 1 and draw(st.integers(0, 2)) > 0:
        chem = draw(st.integers(1, len(crys.basis) - 1))   # the diffusing species need not be the first chemistry
    ks = [k for k in (1, 2, 3, 4) if vs.usable(crys, chem, k, 0, 60)]
    if not ks and chem:
        chem = 0
        ks = [k for k in (1, 2, 3, 4) if vs.usable(crys, chem, k, 0, 60)]
    if not ks:
        chem = 0
        rec = cs.CATALOGUE[draw(st.sampled_from(["HCP", "B2", "romega", "honeycomb", "rect2"]))]
        crys = cs.build(rec)
        ks = [k for k in (1, 2, 3, 4) if vs.usable(crys, chem, k, 0, 60)]
    k = ks[0] if draw(st.floats(0, 1)) < 0.75 or len(ks) == 1 else ks[1]
    sl, jn, cut = nw.network(crys, chem, k, 0)
    inv = nw.invmap(sl)
    pre, ene = draw(dt.site_data(len(sl)))
    ene = [float(np.round(0.5 * e, 4)) for e in ene]
    preT, eneT = draw(dt.trans_data(jn, inv, ene, hi=3.0))
    d = crys.dim
    n = len(crys.basis[chem])
    ends = []
    for _ in range(4):
        ends.append([draw(st.integers(0, n - 1)), draw(st.integers(0, n - 1)), [draw(st.integers(-3, 3)) for _ in range(d)]])
    return {"recipe": rec, "chem": chem, "k": k, "pre": pre, "ene": ene, "preT": preT, "eneT": eneT, "ends": ends,
            "alpha": draw(st.sampled_from([0.01, 0.5, 3.0, 100.0])), "gop": draw(st.integers(0, 47)),
            # a quarter of the calculators get their k-point mesh from the caller (kptwt=): the library's own reduced mesh in another
            # order (1 reversed, 2 rolled by half), so the Gamma point is not the first entry
            "kptorder": draw(st.sampled_from([0, 0, 0, 0, 0, 1, 1, 2]))}


_gf = {}


def gfcalc(case, Nmax):
    from onsager import GFcalc
    order = case.get("kptorder", 0)
    key = canon([case["recipe"]["lattice"], case["recipe"]["basis"], case["chem"], case["k"], Nmax, order])
    if key not in _gf and order:
        crys, sl, jn, GF0 = gfcalc(dict(case, kptorder=0), Nmax)
        perm = np.arange(GF0.Nkpt)[::-1] if order == 1 else np.roll(np.arange(GF0.Nkpt), GF0.Nkpt // 2)
        _gf[key] = (crys, sl, jn, GFcalc.GFCrystalcalc(crys, case["chem"], sl, jn, Nmax=Nmax, kptwt=(GF0.kpts[perm].copy(), GF0.wts[perm].copy())))
    if key not in _gf:
        if len(_gf) > 40:
            _gf.clear()
        crys = cs.build(case["recipe"])
        sl, jn, cut = nw.network(crys, case["chem"], case["k"], 0)
        _gf[key] = (crys, sl, jn, GFcalc.GFCrystalcalc(crys, case["chem"], sl, jn, Nmax=Nmax))
    return _gf[key]


def residuals(case, Nmax, scale_rates=1.0):
    crys, sl, jn, GF = gfcalc(case, Nmax)
    chem = case["chem"]
    inv = nw.invmap(sl)
    preT = [p * scale_rates for p in case["preT"]]
    GF.SetRates(np.array(case["pre"]), np.array(case["ene"]), np.array(preT), np.array(case["eneT"]))
    rho, jumps = ref.rates_from_data(jn, inv, case["pre"], case["ene"], preT, case["eneT"])
    basis = crys.basis[chem]
    out = {"eq": 0., "swap": 0., "vals": [], "sep": 0.}
    g0 = abs(GF(0, 0, np.zeros(crys.dim)))
    jl = max(np.linalg.norm(dx) for (_, _, dx, _) in jumps)
    byj = {}
    for (a, b, dx, w) in jumps:
        byj.setdefault(a, []).append((b, dx, w))
    wrev = {}
    for (a, b, dx, w) in jumps:
        wrev[(a, b, tuple(np.round(dx, 6)))] = w
    for (i, j, R) in case["ends"]:
        R = np.array([int(np.clip(r, -(g // 4), g // 4)) for r, g in zip(R, GF.kptgrid)])
        x = crys.lattice @ (R + basis[j] - basis[i])
        s, esc = 0., 0.
        for (b, dx, w) in byj.get(j, []):
            wback = wrev[(b, j, tuple(np.round(-dx, 6)))]
            s += np.sqrt(w * wback) * GF(i, b, x + dx)
            esc += w
        gij = GF(i, j, x)
        delta = 1. if (i == j and np.all(R == 0)) else 0.
        out["eq"] = max(out["eq"], abs(s - esc * gij - delta) / max(esc * g0, 1e-300))
        out["swap"] = max(out["swap"], abs(gij - GF(j, i, -x)) / g0)
        out["vals"].append(gij)
        out["sep"] = max(out["sep"], np.linalg.norm(x) / jl)
    out["g0"] = g0
    return out, GF, rho, jumps


def g00(G_, i0):
    return G_(i0, i0, np.zeros(3))


def check(case):
    crys = cs.build(case["recipe"])
    chem = case["chem"]
    sl, jn, cut = nw.network(crys, chem, case["k"], 0)
    if len(case["pre"]) != len(sl) or len(case["preT"]) != len(jn):
        raise HarnessError("stale case")
    r4, GF, rho, jumps = residuals(case, 4)
    classes = cs.describe(crys) + ["wyckoff%d" % min(len(sl), 3), "components%d" % min(GF.Ndiff, 3)] + (["diffuser_not_first_species"] if chem else []) + \
              (["caller_kpt_mesh"] if case.get("kptorder", 0) else [])
    tight = 2e-6 if crys.dim == 3 else 2e-5
    if r4["eq"] > tight:
        r8, _, _, _ = residuals(case, 8)
        ok = r8["eq"] <= max(tight, vs.SHRINK * r4["eq"])
        r12 = None
        if not ok:
            # convergence need not be monotonic: a coarse-mesh residual can be small by cancellation (seen on an HCP interstitial
            # network with D_zz/D_xx = 0.05: 3.4e-6, 2.9e-5, 2.5e-5, 9.2e-6 for Nmax = 4, 6, 8, 12).  A third, finer mesh decides: the
            # residual must come down below the larger of the two coarser ones; an error the mesh does not touch still fails.
            r12 = residuals(case, 12)[0]["eq"]
            ok = r12 <= max(tight, vs.SHRINK * max(r4["eq"], r8["eq"]))
            classes.append("nonmonotonic_convergence_third_mesh")
        require(ok, lambda: "lattice diffusion equation residual %.3e (relative to escape*|g(0)|) at Nmax=4 does not shrink with the k-mesh (Nmax=8: %.3e, Nmax=12: %s)"
                % (r4["eq"], r8["eq"], "%.3e" % r12 if r12 is not None else "-"))
        classes.append("integration_limited")
        residuals(case, 4)  # restore rates on the Nmax=4 calculator
    require(r4["swap"] <= 1e-9, lambda: "g(i,j,x) != g(j,i,-x): relative difference %.3e" % r4["swap"])
    # (c) space-group invariance, one operation per case (sorted for determinism)
    G = sorted(crys.G, key=lambda g: (tuple(np.asarray(g.rot).flatten()), tuple(np.round(g.trans, 6))))
    g = G[case["gop"] % len(G)]
    basis = crys.basis[chem]
    worst = 0.
    for (i, j, R), val in zip(case["ends"], r4["vals"]):
        R = np.array([int(np.clip(r, -(q // 4), q // 4)) for r, q in zip(R, GF.kptgrid)])
        x = crys.lattice @ (R + basis[j] - basis[i])
        gi, gj = g.indexmap[chem][i], g.indexmap[chem][j]
        worst = max(worst, abs(GF(gi, gj, np.asarray(g.cartrot) @ x) - val) / r4["g0"])
    require(worst <= 1e-9, lambda: "Green function not invariant under the space-group operation rot=%s: relative difference %.3e" % (np.asarray(g.rot).tolist(), worst))
    # (f) diffusivity
    Dref = ref.diffusivity(rho, jumps, crys.dim)
    eD = np.abs(np.asarray(GF.D) - Dref).max() / np.abs(Dref).max()
    require(eD <= 1e-8, lambda: "GF.D differs from the exact diffusivity by %.3e" % eD)
    # (e) far field (3D, connected networks): the drop g(i0,i0,0) - g(i0,i0,x) out to a quarter of the k-mesh period along every
    # lattice direction is compared with the exact lattice Green function (oracles/gf_ref.py: brute-force Fourier sum on periodic
    # supercells 2x and 3x the k-mesh period, Richardson-extrapolated in 1/N^3).  The continuum pole itself is approached only
    # with problem-dependent (l/|x|)^2 corrections, so a fixed constant in front of them is not a sound oracle (it raised a false
    # alarm on a deep-trap omega crystal with fourth-shell jumps); the exact lattice values are.
    far = None
    if crys.dim == 3 and GF.Ndiff == 1:
        from ..oracles import gf_ref
        i0 = case["ends"][0][0]
        grid4 = [int(q) for q in GF.kptgrid]
        pts = []
        for a_ in range(3):
            R = np.zeros(3, dtype=int)
            R[a_] = grid4[a_] // 4
            if R[a_] >= 2:
                pts.append(crys.lattice @ R)
        if pts:
            m2 = 3 if 27 * int(np.prod(grid4)) * len(rho) ** 2 <= 4000000 else 2
            m1 = m2 - 1
            drops = []
            for m in (m1, m2):
                pg = gf_ref.PeriodicGF(crys.lattice, rho, jumps, [m * q for q in grid4])
                if m == m1:
                    sc_, esc_ = gf_ref.self_check(pg, rho, jumps, basis, i0, case["ends"][1][1] % len(rho), [1, 0, 1])
                    if sc_ > 1e-9 * max(esc_ * abs(pg(i0, i0, np.zeros(3))), 1e-300):
                        raise HarnessError("periodic Green-function reference fails its own lattice equation")
                z = pg(i0, i0, np.zeros(3)).real
                drops.append(np.array([z - pg(i0, i0, x).real for x in pts]))
            w1, w2 = float(m1) ** 3, float(m2) ** 3
            exact = (w2 * drops[1] - w1 * drops[0]) / (w2 - w1)
            bar = np.abs(exact - drops[1])   # the whole extrapolation step (0.3 x step was too optimistic on an anisotropic HCP interstitial network: thorough-tier false alarm)

            def libdrops(G_):
                z = G_(i0, i0, np.zeros(3))
                return np.array([z - G_(i0, i0, x) for x in pts])
            d4 = libdrops(GF)
            tol = 2e-6 * abs(g00(GF, i0)) + 5 * bar
            far = float((np.abs(d4 - exact) / abs(g00(GF, i0))).max())
            classes.append("farfield")
            if np.any(np.abs(d4 - exact) > tol):
                r8_, GF8, _, _ = residuals(case, 8)
                d8 = libdrops(GF8)
                bad = np.abs(d8 - exact) > np.maximum(tol, vs.SHRINK * np.abs(d4 - exact))
                require(not np.any(bad), lambda: "far field: g(0) - g(x) at a quarter of the k-mesh period differs from the exact lattice Green function by %s "
                        "(relative to |g(0)|; reference error bars %s) and does not shrink with the k-mesh (Nmax=8: %s)"
                        % ((np.abs(d4 - exact) / abs(g00(GF, i0))).tolist(), (bar / abs(g00(GF, i0))).tolist(), (np.abs(d8 - exact) / abs(g00(GF, i0))).tolist()))
                classes.append("farfield_integration_limited")
                residuals(case, 4)
    # (d) uniform scaling of all rates
    a = case["alpha"]
    vals4 = list(r4["vals"])
    ra, _, _, _ = residuals(case, 4, scale_rates=a)
    es = max(abs(v * a - w) for v, w in zip(ra["vals"], vals4)) / r4["g0"]
    require(es <= 1e-9, lambda: "scaling every rate by %g does not scale the Green function by 1/%g: relative difference %.3e" % (a, a, es))
    nt = (len(sl) >= 2 and np.ptp(case["ene"]) > 0.05) or r4["sep"] >= 3
    return {"key": canon([case["recipe"]["lattice"], case["recipe"]["basis"], case["k"], case["pre"], case["ene"], case["preT"], case["eneT"], case["ends"], case.get("kptorder", 0)]),
            "nontrivial": bool(nt), "classes": classes,
            "sample": {"crystal": case["recipe"]["name"], "basis": case["recipe"]["basis"], "shell": case["k"], "pre": case["pre"], "ene": case["ene"], "preT": case["preT"],
                       "eneT": case["eneT"], "ends": case["ends"], "eq_residual": r4["eq"], "farfield_dev": far}}


def run(ctx):
    ctx.corpus(check)
    ctx.known(check)
    ctx.given(cases(), check, quick=40, thorough=1200, shrink=not ctx.quick)


def replay(case):
    check(case)
