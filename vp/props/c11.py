"""C11  Interstitial derivative outputs are true derivatives."""
import numpy as np
from hypothesis import strategies as st

from ..core import Violation, HarnessError, require, canon
from ..strategies import crystals as cs, networks as nw
from ..oracles import interstitial_ref as ref
from . import c02, c12

ID = "C11"
RULE = ("Hypothesis draws a crystal (2D/3D), diffusing species, cutoff shell/obstruction, site and transition data (as C02) and arbitrary "
        "non-symmetric dipoles for every site class and jump class.  Oracles: (i) populated dipoles = own group average of the symmetric part "
        "over the stabiliser of the representative site / jump (jump stabiliser includes operations that reverse the jump), transported by a "
        "group operation, vs siteDipoles / jumpDipoles; (ii) the barrier output DE vs -dD/d(beta) from Richardson central differences of the "
        "exact reference diffusivity (all energies scaled by beta); (iii) the elastodiffusion tensor vs dD/d(eps_cd) of the reference "
        "diffusivity of the strained problem without symmetry (dx -> (1+eps) dx, every site and transition energy shifted by -P:eps with "
        "the populated dipoles).  Non-trivial: the vector basis is non-empty and some input dipole has an antisymmetric or symmetry-"
        "forbidden part; distinct by full case.")
ASSUMPTIONS = ["finite differences h = 2e-3 and 1e-3 with Richardson extrapolation: tolerance 1e-6 relative to |D| (x (1 + max|P|) for strain)",
               "dipoles are in units of kT as the docstring says (energy change -P:eps)"]
SHARDS = {"quick": 4, "thorough": 16}


def own_jump_dipoles(crys, chem, jn, dipoles, thr=1e-7):
    G = sorted(crys.G, key=lambda g: (tuple(np.asarray(g.rot).flatten()), tuple(np.round(g.trans, 6))))
    out = []
    for jl, P in zip(jn, dipoles):
        P = np.asarray(P, dtype=float)
        P = 0.5 * (P + P.T)
        (i0, j0), dx0 = jl[0]

        def maps(g, i, j, dx):
            R = np.asarray(g.cartrot)
            im = g.indexmap[chem]
            return (im[i0] == i and im[j0] == j and np.abs(R @ dx0 - dx).max() < thr) or \
                   (im[i0] == j and im[j0] == i and np.abs(R @ dx0 + dx).max() < thr)
        stab = [np.asarray(g.cartrot) for g in G if maps(g, i0, j0, dx0)]
        Ps = sum(R @ P @ R.T for R in stab) / len(stab)
        lst = []
        for (i, j), dx in jl:
            g = next((g for g in G if maps(g, i, j, dx)), None)
            if g is None:
                raise Violation("jump (%d,%d) of a class is not a symmetry image of the class representative" % (i, j))
            R = np.asarray(g.cartrot)
            lst.append(R @ Ps @ R.T)
        out.append(lst)
    return out


@st.composite
def cases(draw):
    base = draw(c12.cases())
    crys = cs.build(base["recipe"])
    sl, jn, cut = nw.network(crys, base["chem"], base["k"], base["closest"])
    d = crys.dim
    f = st.floats(-1, 1).map(lambda x: float(np.round(x, 3)))
    base["dipoleT"] = [[[draw(f) for _ in range(d)] for _ in range(d)] for _ in jn]
    return base


def Dref(jn, inv, pre, ene, preT, eneT, dim):
    rho, jumps = ref.rates_from_data(jn, inv, pre, ene, preT, eneT)
    return ref.diffusivity(rho, jumps, dim)


def richardson(f, h):
    d1 = (f(h) - f(-h)) / (2 * h)
    d2 = (f(h / 2) - f(-h / 2)) / h
    return (4 * d2 - d1) / 3.


def check(case):
    crys, sl, jn, diff = c02.diffuser(case)
    if not jn:
        return {"classes": ["empty_network"], "nontrivial": False}
    if len(case["pre"]) != len(sl) or len(case["preT"]) != len(jn) or len(case["dipole"]) != len(sl) or len(case["dipoleT"]) != len(jn):
        raise HarnessError("stale case")
    d = crys.dim
    chem = case["chem"]
    inv = nw.invmap(sl)
    pre, ene, preT, eneT = [np.array(case[k], dtype=float) for k in ("pre", "ene", "preT", "eneT")]
    dip = [np.array(p) for p in case["dipole"]]
    dipT = [np.array(p) for p in case["dipoleT"]]
    # (i) populated dipoles
    Ps = c12.own_site_dipoles(crys, chem, sl, dip)
    Pj = own_jump_dipoles(crys, chem, jn, dipT)
    libs = diff.siteDipoles(dip)
    libj = diff.jumpDipoles(dipT)
    e = np.abs(np.asarray(libs) - Ps).max()
    require(e <= 1e-9, lambda: "populated site dipoles differ from the stabiliser average of the symmetric part transported by symmetry: %.3e" % e)
    for k, (a, b) in enumerate(zip(libj, Pj)):
        require(len(a) == len(b), "jump dipole list has the wrong length")
        e = max(np.abs(np.asarray(x) - y).max() for x, y in zip(a, b))
        require(e <= 1e-9, lambda: "populated dipoles of jump class %d differ from the stabiliser average (incl. reversal) transported by symmetry: %.3e" % (k, e))
    # (ii) barrier tensor
    D, DE = diff.diffusivity(pre, ene, preT, eneT, CalcDeriv=True)
    D0ref = Dref(jn, inv, pre, ene, preT, eneT, d)
    rho, jumps = ref.rates_from_data(jn, inv, pre, ene, preT, eneT)
    bare = np.abs(ref.assemble(rho, jumps, d)[2]).max()
    scale = max(np.abs(D0ref).max(), bare)
    emax = max(1., np.abs(ene).max(), np.abs(eneT).max())
    dDdb = richardson(lambda x: Dref(jn, inv, pre, ene * (1 + x), preT, eneT * (1 + x), d), 2e-3)
    e = np.abs(np.asarray(DE) + dDdb).max() / (scale * emax)
    require(e <= 1e-6, lambda: "barrier output DE differs from -dD/dbeta (finite differences of the exact diffusivity) by %.3e: DE %s, -dD/dbeta %s"
            % (e, np.asarray(DE).tolist(), (-dDdb).tolist()))
    # (iii) elastodiffusion
    D2, dD = diff.elastodiffusion(pre, ene, dip, preT, eneT, dipT)
    pmax = max([1.] + [np.abs(p).max() for p in dip + dipT])
    worst = 0.
    for c in range(d):
        for dd in range(c, d):
            E = np.zeros((d, d))
            E[c, dd] += 0.5
            E[dd, c] += 0.5

            def strained(x):
                eps = x * E
                F = np.eye(d) + eps
                jn2 = [[((i, j), F @ dx) for (i, j), dx in jl] for jl in jn]
                # per-site and per-jump energies: expand classes into individual entries
                rho_e = np.array([ene[inv[i]] - np.sum(Ps[i] * eps) for i in range(len(inv))])
                pre_i = np.array([pre[inv[i]] for i in range(len(inv))])
                lw = np.log(pre_i) - rho_e
                lw -= lw.max()
                r = np.exp(lw)
                r /= r.sum()
                js = []
                for k, jl in enumerate(jn2):
                    for n, ((i, j), dx) in enumerate(jl):
                        eT = eneT[k] - np.sum(Pj[k][n] * eps)
                        js.append((i, j, dx, preT[k] * np.exp(rho_e[i] - eT) / pre_i[i]))
                return ref.diffusivity(r, js, d)
            num = richardson(strained, 2e-3)
            for (cc, d2) in ((c, dd), (dd, c)):
                err = np.abs(np.asarray(dD)[:, :, cc, d2] - num).max() / (scale * pmax)
                worst = max(worst, err)
                require(err <= 1e-6, lambda: "elastodiffusion tensor component (..,%d,%d) differs from dD/d(eps) of the strained problem by %.3e: library %s, finite difference %s"
                        % (cc, d2, err, np.asarray(dD)[:, :, cc, d2].tolist(), num.tolist()))
    forbidden = any(np.abs(np.asarray(p) - np.asarray(p).T).max() > 1e-3 for p in dip + dipT)
    for sites, p in zip(sl, dip):
        if np.abs(0.5 * (p + p.T) - Ps[sites[0]]).max() > 1e-3:
            forbidden = True
    nt = diff.NV > 0 and forbidden
    classes = cs.describe(crys) + ["NV%d" % min(diff.NV, 3), "wyckoff%d" % min(len(sl), 3), "jumpclasses%d" % min(len(jn), 4)]
    return {"nontrivial": bool(nt), "classes": classes,
            "sample": {"crystal": case["recipe"]["name"], "basis": case["recipe"]["basis"], "chem": chem, "shell": case["k"], "dipole": case["dipole"][:1], "dipoleT": case["dipoleT"][:1],
                       "DE": np.asarray(DE).tolist(), "worst_strain_error": worst}}


def run(ctx):
    ctx.corpus(check)
    ctx.given(cases(), check, quick=200, thorough=6000)


def replay(case):
    check(case)
