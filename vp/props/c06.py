"""C06  Tracer limit: solute identical to host gives exact tracer identities."""
import numpy as np
from hypothesis import strategies as st

from ..core import Violation, HarnessError, require, canon, known_ids
from ..strategies import crystals as cs, vacancy as vs, data as dt

ID = "C06"
RULE = ("Hypothesis draws a crystal (catalogue of small structures and generated recipes, 2D/3D, 1-3 vacancy sites per cell, with and "
        "without site vector bases), the smallest percolating vacancy jump network, Nthermo in {1,2}, kT, and random vacancy prefactors/"
        "energies per Wyckoff set and per omega0 jump class; the solute data come from the package's tracer generator "
        "(maketracerpreene) and are passed through preene2betafree to Lij.  Oracle: Lsv = -L0vv, L1vv = 0, 0 <= Lss <= L0vv (matrix order). "
        "Non-trivial: >= 2 Wyckoff sets or >= 2 omega0 classes with different data; distinct by (crystal, network, Nthermo, data).")
ASSUMPTIONS = ["tolerance 1e-7 * |L0vv| (the identities are algebraic; the Green function enters both sides identically)",
               "networks satisfy the Green-function calculator's precondition (every component percolates; components are symmetry copies)"]
SHARDS = {"quick": 4, "thorough": 16}
TOL = 1e-7


@st.composite
def cases(draw):
    setup = draw(vs.setups())
    crys, sl, jn, calc = vs.calculator(setup)
    n, n0 = len(sl), len(jn)
    uniform = draw(st.floats(0, 1)) < 0.1
    preV = [1.] * n if uniform else [draw(dt.prefactor()) for _ in range(n)]
    eneV = [0.] * n if uniform else [draw(dt.energy(0., 1.5)) for _ in range(n)]
    preT0 = [draw(dt.prefactor()) for _ in range(n0)]
    eneT0 = [float(np.round(max(eneV[v1], eneV[v2]) + draw(dt.barrier(0.1, 2.0)), 4)) for (v1, v2) in calc.omega0vacancyWyckoff]
    kT = draw(st.sampled_from([0.4, 0.5, 1.0, 2.0]))
    return {"setup": setup, "preV": preV, "eneV": eneV, "preT0": preT0, "eneT0": eneT0, "kT": kT}


def evaluate(calc, case):
    d = {"preV": np.array(case["preV"]), "eneV": np.array(case["eneV"]), "preT0": np.array(case["preT0"]), "eneT0": np.array(case["eneT0"])}
    d.update(calc.maketracerpreene(**d))
    return calc.Lij(*calc.preene2betafree(case["kT"], **d))


def check(case):
    crys, sl, jn, calc = vs.calculator(case["setup"])
    if len(case["preV"]) != len(sl) or len(case["preT0"]) != len(jn):
        raise HarnessError("case data do not match the calculator sizes")
    L0vv, Lss, Lsv, L1vv = evaluate(calc, case)
    for nm, T in (("L0vv", L0vv), ("Lss", Lss), ("Lsv", Lsv), ("L1vv", L1vv)):
        require(np.all(np.isfinite(T)), lambda: "%s not finite: %s" % (nm, np.asarray(T).tolist()))
    scale = np.abs(L0vv).max()
    require(scale > 0, "L0vv vanishes")
    extra = ["excluded_R40_not_pruned"] if case["setup"].get("not_pruned") == "R40" else []

    def resid(c):
        a, b, c_, d_ = evaluate(c, case)
        return max(np.abs(c_ + a).max(), np.abs(d_).max()) / np.abs(a).max()
    e1 = np.abs(Lsv + L0vv).max() / scale
    e2 = np.abs(L1vv).max() / scale
    if max(e1, e2) > TOL:
        # with sites that carry a vector basis the identities hold only to the k-mesh accuracy: decide by refinement
        ok, r8 = vs.within_integration_accuracy(case["setup"], resid, max(e1, e2), TOL) if vs.has_originstates(calc) else (False, None)
        require(ok, lambda: "tracer identities violated: |Lsv+L0vv|/|L0vv| = %.3e, |L1vv|/|L0vv| = %.3e (refined mesh: %s): Lsv %s L0vv %s L1vv %s"
                % (e1, e2, r8, Lsv.tolist(), L0vv.tolist(), L1vv.tolist()))
        extra.append("integration_limited")
    if vs.has_originstates(calc) and "R11" in known_ids("known"):
        # the identities above hold on crystals with origin states, but Lss itself is wrong there (known finding R11, reported
        # under C01): the bound 0 <= Lss <= L0vv is not asserted in that region
        classes = cs.describe(crys) + vs.describe(calc) + extra + ["Lss_bound_excluded_R11"]
        bV = np.array(case["eneV"]) / case["kT"] - np.log(case["preV"])
        bT = np.array(case["eneT0"]) / case["kT"] - np.log(case["preT0"])
        nt = (len(sl) >= 2 and np.ptp(bV) > 1e-6) or (len(jn) >= 2 and np.ptp(bT) > 1e-6)
        return {"key": canon([vs.setup_key(case["setup"]), case["preV"], case["eneV"], case["preT0"], case["eneT0"], case["kT"]]), "nontrivial": bool(nt), "classes": classes}
    Ls = 0.5 * (Lss + Lss.T)
    lo = np.linalg.eigvalsh(Ls).min() / scale
    hi = np.linalg.eigvalsh(0.5 * (L0vv + L0vv.T) - Ls).min() / scale
    btol = TOL if not extra else 10 * max(e1, e2)
    require(lo >= -btol, lambda: "tracer: Lss not positive semidefinite (min eig/scale %.3e): %s" % (lo, Lss.tolist()))
    require(hi >= -btol, lambda: "tracer: Lss exceeds L0vv (min eig of L0vv-Lss /scale %.3e): Lss %s L0vv %s" % (hi, Lss.tolist(), L0vv.tolist()))
    bV = np.array(case["eneV"]) / case["kT"] - np.log(case["preV"])
    bT = np.array(case["eneT0"]) / case["kT"] - np.log(case["preT0"])
    nt = (len(sl) >= 2 and np.ptp(bV) > 1e-6) or (len(jn) >= 2 and np.ptp(bT) > 1e-6)
    classes = cs.describe(crys) + vs.describe(calc) + extra
    f = np.trace(Lss) / np.trace(L0vv)
    return {"key": canon([vs.setup_key(case["setup"]), case["preV"], case["eneV"], case["preT0"], case["eneT0"], case["kT"]]),
            "nontrivial": bool(nt), "classes": classes,
            "sample": {"crystal": case["setup"]["recipe"]["name"], "basis": case["setup"]["recipe"]["basis"], "shell": case["setup"]["k"], "Nthermo": case["setup"]["Nthermo"],
                       "preV": case["preV"], "eneV": case["eneV"], "preT0": case["preT0"], "eneT0": case["eneT0"], "kT": case["kT"],
                       "correlation_factor_trace": float(f)}}


def run(ctx):
    ctx.corpus(check)
    ctx.known(check)
    ctx.given(cases(), check, quick=60, thorough=1600, shrink=not ctx.quick)


def replay(case):
    check(case)
