"""C03  Transport tensors are symmetric, non-negative and crystal-invariant."""
import itertools
import numpy as np
from hypothesis import strategies as st

from ..core import Violation, HarnessError, require, canon
from ..strategies import crystals as cs, networks as nw, data as dt, vacancy as vs
from . import c02

ID = "C03"
RULE = ("Two families of cases drawn by Hypothesis. (i) Interstitial: crystal, species, cutoff shell, obstruction, site/transition data "
        "(normal, or 'extreme' with selected classes shifted by +-18 kT, i.e. rate ratios up to 1e8) and random non-symmetric dipoles: "
        "diffusivity and elastodiffusion tensor. (ii) Vacancy-mediated: crystal, percolating network, Nthermo in {1,2}, random data "
        "(normal or extreme omega2 / binding), evaluated with the default large_om2 threshold and with both forced algorithm choices: "
        "L0vv, Lss, Lsv, L1vv.  Oracle (validity predicates): |T - T^T|, |R T R^T - T| for every operation of the crystal "
        "(rank 4: (ab),(cd) index symmetry and R x R x R x R invariance), lambda_min(D), lambda_min(L0vv), lambda_min(Lss) >= -tol. "
        "Non-trivial: |G|>1 and the tensor is not a multiple of the identity, or the data are extreme; distinct by full case.")
ASSUMPTIONS = ["tolerance 1e-8*|T| for symmetry/invariance/definiteness of interstitial tensors; for vacancy-mediated tensors 1e-7*|L0vv| unless the "
               "crystal has origin states, where k-mesh accuracy enters and the bound is decided by mesh refinement",
               "extreme data keep every barrier positive"]
SHARDS = {"quick": 4, "thorough": 16}


@st.composite
def cases(draw):
    if draw(st.booleans()):
        base = draw(c02.cases(max_mobile=6))
        crys = cs.build(base["recipe"])
        sl, jn, cut = nw.network(crys, base["chem"], base["k"], base["closest"])
        d = crys.dim
        extreme = draw(st.booleans())
        if extreme and jn:
            which = draw(st.integers(0, len(jn) - 1))
            base["eneT"][which] = float(np.round(base["eneT"][which] + draw(st.sampled_from([18., 9.])), 4))
            if len(sl) > 1:
                ws = draw(st.integers(0, len(sl) - 1))
                shift = draw(st.sampled_from([-9., 0.]))
                base["ene"][ws] = float(np.round(base["ene"][ws] + shift, 4))
        f = st.floats(-1, 1).map(lambda x: float(np.round(x, 3)))
        base["dipole"] = [[[draw(f) for _ in range(d)] for _ in range(d)] for _ in sl]
        base["dipoleT"] = [[[draw(f) for _ in range(d)] for _ in range(d)] for _ in jn]
        base["kind"] = "interstitial"
        base["extreme"] = extreme
        return base
    from ..core import known_ids
    setup = draw(vs.setups(originstates="no" if "R11" in known_ids("known") else "any"))
    crys, sl, jn, calc = vs.calculator(setup)
    extreme = draw(st.booleans())
    shifts = [-18., -9., 9.]
    if "R13" in known_ids("known"):
        from . import c08
        if c08.om2_joins_inequivalent_sites(calc) or (c08.EXCLUDE_R41 and c08.low_symmetry_orbit(calc)):
            shifts = [9.]   # large omega2 on such crystals is known finding R13 (reported under C08)
    data = draw(vs.datasets(calc, sol=not vs_exclude_r1(), om2shift=(draw(st.sampled_from(shifts)) if extreme else 0.), spread=1.0))
    return {"kind": "vacancy", "setup": setup, "data": data, "extreme": extreme}


def vs_exclude_r1():
    from ..core import known_ids
    return "R1" in known_ids("known")


def tensor_checks(T, G, name, tol, psd=False, scale=None, symmetric=True):
    T = np.asarray(T, dtype=float)
    require(np.all(np.isfinite(T)), lambda: "%s is not finite: %s" % (name, T.tolist()))
    sc = np.abs(T).max() if scale is None else scale
    if sc == 0:
        return
    a = np.abs(T - T.T).max() / sc
    require(a <= tol or not symmetric, lambda: "%s is not symmetric: |T-T^T|/|T| = %.3e, T = %s" % (name, a, T.tolist()))
    for g in G:
        R = np.asarray(g.cartrot)
        e = np.abs(R @ T @ R.T - T).max() / sc
        require(e <= tol, lambda: "%s is not invariant under the crystal operation with cartrot %s: %.3e, T = %s" % (name, np.round(R, 6).tolist(), e, T.tolist()))
    if psd:
        lam = np.linalg.eigvalsh(0.5 * (T + T.T)).min() / sc
        require(lam >= -tol, lambda: "%s is not positive semidefinite: lambda_min/|T| = %.3e, T = %s" % (name, lam, T.tolist()))


def rank4_checks(T, G, name, tol, scale=None):
    T = np.asarray(T, dtype=float)
    require(np.all(np.isfinite(T)), "%s not finite" % name)
    sc = np.abs(T).max() if scale is None else max(scale, np.abs(T).max())
    if sc == 0:
        return
    a = max(np.abs(T - T.transpose(1, 0, 2, 3)).max(), np.abs(T - T.transpose(0, 1, 3, 2)).max()) / sc
    require(a <= tol, lambda: "%s lacks the (ab)/(cd) index symmetry: %.3e" % (name, a))
    for g in G:
        R = np.asarray(g.cartrot)
        RT = np.einsum('ai,bj,ck,dl,ijkl->abcd', R, R, R, R, T)
        e = np.abs(RT - T).max() / sc
        require(e <= tol, lambda: "%s is not invariant under the crystal operation with cartrot %s: %.3e" % (name, np.round(R, 6).tolist(), e))


def antisymmetric_allowed(G):
    """True when the point group of the crystal leaves some antisymmetric rank-2 tensor invariant (own SVD computation).
    Then a cross-correlation tensor such as Lsv need not be symmetric: L_sv^{ab} = L_vs^{ba} is all that reciprocity gives,
    and the exact one-solute/one-vacancy chain (oracle of C01) does produce an asymmetric Lsv in such crystals."""
    d = np.asarray(G[0].cartrot).shape[0]
    basis = []
    for i in range(d):
        for j in range(i + 1, d):
            E = np.zeros((d, d))
            E[i, j], E[j, i] = 1., -1.
            basis.append(E / np.sqrt(2))
    mats = []
    for g in G:
        R = np.asarray(g.cartrot)
        M = np.array([[np.sum(F * (R @ E @ R.T)) for E in basis] for F in basis])
        mats.append(M)
    from ..oracles import geom
    return geom.invariant_subspace(mats).shape[1] > 0


def isotropic(T):
    T = np.asarray(T)
    return np.abs(T - np.eye(T.shape[0]) * np.trace(T) / T.shape[0]).max() <= 1e-9 * max(np.abs(T).max(), 1e-300)


def check(case):
    if case["kind"] == "interstitial":
        crys, sl, jn, diff = c02.diffuser(case)
        if not jn:
            return {"classes": ["empty_network"], "nontrivial": False}
        if len(case["pre"]) != len(sl) or len(case["preT"]) != len(jn):
            raise HarnessError("stale case")
        G = list(crys.G)
        D = diff.diffusivity(case["pre"], case["ene"], case["preT"], case["eneT"])
        # scale: the uncorrelated part (a non-percolating network has D = 0 up to round-off of that scale)
        from ..oracles import interstitial_ref as ref
        rho, jumps = ref.rates_from_data(jn, nw.invmap(sl), case["pre"], case["ene"], case["preT"], case["eneT"])
        bare = np.abs(ref.assemble(rho, jumps, crys.dim)[2]).max()
        tensor_checks(D, G, "interstitial diffusivity", 1e-8, psd=True, scale=max(bare, np.abs(D).max()))
        dip = [np.array(p) for p in case["dipole"]]
        dipT = [np.array(p) for p in case["dipoleT"]]
        D2, dD = diff.elastodiffusion(case["pre"], case["ene"], dip, case["preT"], case["eneT"], dipT)
        tensor_checks(D2, G, "diffusivity returned by elastodiffusion", 1e-8, psd=True, scale=max(bare, np.abs(D).max()))
        require(np.abs(D2 - D).max() <= 1e-9 * max(bare, np.abs(D).max()), "elastodiffusion returns a different diffusivity than diffusivity()")
        dmax = max([1.] + [np.abs(p).max() for p in dip + dipT])
        rank4_checks(dD, G, "elastodiffusion tensor", 1e-8, scale=bare * dmax)
        classes = cs.describe(crys) + ["interstitial", "NV%d" % min(diff.NV, 3)] + (["extreme"] if case["extreme"] else [])
        nt = (len(G) > 1 and not isotropic(D)) or case["extreme"]
        return {"nontrivial": bool(nt), "classes": classes,
                "sample": {"kind": "interstitial", "crystal": case["recipe"]["name"], "basis": case["recipe"]["basis"], "ene": case["ene"], "eneT": case["eneT"], "D": np.asarray(D).tolist()}}
    crys, sl, jn, calc = vs.calculator(case["setup"])
    data = case["data"]
    if not vs.sizes_ok(calc, data):
        raise HarnessError("stale case")
    G = list(crys.G)
    classes = cs.describe(crys) + vs.describe(calc, data) + ["vacancy"] + (["extreme"] if case["extreme"] else [])
    if case["setup"].get("redrawn"):
        classes.append("excluded_R11_redrawn")
    tol = 1e-7

    asym_ok = antisymmetric_allowed(G)
    if asym_ok:
        classes.append("Lsv_symmetry_not_forced")

    def worst(c, lom2):
        """largest relative violation of the predicates for calculator c"""
        kw = {} if lom2 is None else {"large_om2": lom2}
        L0vv, Lss, Lsv, L1vv = c.Lij(*vs.args(data), **kw)
        sc = np.abs(L0vv).max()
        w = 0.
        for nm, T, psd in (("L0vv", L0vv, True), ("Lss", Lss, True), ("Lsv", Lsv, False), ("L1vv", L1vv, False)):
            T = np.asarray(T, dtype=float)
            if not np.all(np.isfinite(T)):
                return np.inf, "%s not finite" % nm, (L0vv, Lss, Lsv, L1vv)
            s = max(sc, np.abs(T).max())
            if not (nm == "Lsv" and asym_ok):
                w = max(w, np.abs(T - T.T).max() / s)
            for g in G:
                R = np.asarray(g.cartrot)
                w = max(w, np.abs(R @ T @ R.T - T).max() / s)
            if psd:
                w = max(w, -np.linalg.eigvalsh(0.5 * (T + T.T)).min() / s)
        return w, "", (L0vv, Lss, Lsv, L1vv)
    variants = [None, 0., np.inf] if not case["extreme"] else [None]
    out = None
    for lom2 in variants:
        w, msg, Ls = worst(calc, lom2)
        if out is None:
            out = Ls
        if w > tol:
            ok, r8 = (False, None)
            if np.isfinite(w) and vs.has_originstates(calc):
                ok, r8 = vs.within_integration_accuracy(case["setup"], lambda c: worst(c, lom2)[0], w, tol)
                if ok:
                    classes.append("integration_limited")
            if not ok:
                # find which predicate failed for the message
                L0vv, Lss, Lsv, L1vv = Ls
                sc = np.abs(L0vv).max()
                for nm, T, psd in (("L0vv", L0vv, True), ("Lss", Lss, True), ("Lsv", Lsv, False), ("L1vv", L1vv, False)):
                    tensor_checks(T, G, "%s (large_om2=%s)" % (nm, "default" if lom2 is None else lom2), tol, psd=psd, scale=max(sc, np.abs(T).max()),
                                  symmetric=not (nm == "Lsv" and asym_ok))
                raise Violation("vacancy-mediated tensors violate symmetry/invariance/definiteness by %.3e (refined mesh: %s) %s" % (w, r8, msg))
    nt = (len(G) > 1 and not isotropic(out[1])) or case["extreme"]
    return {"nontrivial": bool(nt), "classes": classes,
            "sample": {"kind": "vacancy", "crystal": case["setup"]["recipe"]["name"], "basis": case["setup"]["recipe"]["basis"], "Nthermo": case["setup"]["Nthermo"], "data": data,
                       "Lss": np.asarray(out[1]).tolist()}}


def run(ctx):
    ctx.corpus(check)
    ctx.given(cases(), check, quick=120, thorough=4000, shrink=not ctx.quick)


def replay(case):
    check(case)
