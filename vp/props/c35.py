"""C35  The compiled sampler behaves exactly like the reference sampler."""
import collections

import numpy as np
from hypothesis import strategies as st

from ..core import Violation, HarnessError, require, canon
from ..strategies import clusterexp as cx

ID = "C35"
RULE = ("Hypothesis draws a sampler setup (as C33/C34: 3D crystals, spectators, small supercells incl. skew/negative determinant, cluster "
        "shell/order, distinct irrational values, optional jump network with KRA/TS clusters, optional vacancy with vacancy clusters), "
        "the way the compiled sampler is created (from an unstarted or from a started reference sampler) and a history of ops (start, "
        "trial, update, transitions, MCmoves batch) whose indices are taken modulo the current occupied/unoccupied lists. The reference "
        "MonteCarloSampler and the harness's own model occupation are advanced in parallel; after every op the compiled sampler's E, "
        "occupation, counts and site lists (as sets, with the index table) are compared with them, every (unoccupied, occupied) pair's "
        "deltaE_trial is compared when there are <= 40 pairs, transitions() must list every jump of the reference in order with the "
        "reference barrier when the model occupation allows it and +inf otherwise, and an MCmoves batch must leave the sampler exactly "
        "where a second compiled sampler kept in lockstep ends when the harness applies the Metropolis rule move by move (accept iff "
        "dE < -kT ln u, dE taken from the reference sampler, thresholds drawn absolute or at 0.5/0.999/1.001/2 times dE to sit next to the "
        "boundary). quick/thorough also run ALL occupations of catalogue supercells with <= 8 free sites (every pair trial, every pair "
        "update and its inverse, transitions). Non-trivial: the history changed the occupation and compared at least one non-zero dE "
        "or finite barrier; distinct by (setup, init, ops).")
ASSUMPTIONS = ["compiled deltaE_trial/update are only called with an unoccupied site to occupy and an occupied site to unoccupy (documented: "
               "behaviour unspecified otherwise); MCmoves indices lie inside the current lists and -kT ln u > 0",
               "tolerance 1e-9 * max(1, sum |interaction values|): both samplers add the same floats, possibly in a different order",
               "the first call into numba compiles the class (a few seconds per process); nothing is timed"]
SHARDS = {"quick": 4, "thorough": 16}

# R8: MonteCarloSampler_jit.transitions uses np.Inf, which NumPy 2 removed -> every call raises AttributeError at compile time.
# While the flag is set that one failure of that one call is counted and the rest of the history is still exercised.
EXCLUDE_R8 = False  # repaired in /repo (f14ce55)
# compiled sampler cannot be constructed when the reference sampler has a jump network but zero jumps (vacancy on a site without jumps):
# MonteCarloSampler_param builds 1-D float arrays for jump_ij/jump_dx.  While the flag is set such setups use the sampler without jump network.
EXCLUDE_ZEROJUMPS = False  # R26 repaired in /repo (9e723a9)
_r8_seen = []


def _active(tag, case):
    flag = {"R8": EXCLUDE_R8, "zerojumps": EXCLUDE_ZEROJUMPS}[tag]
    return flag and tag not in case.get("no_exclude", ())


# ------------------------------------------------------------------------------------------------
# generator
# ------------------------------------------------------------------------------------------------
_idx = st.integers(0, 63)
_spec = st.one_of(st.tuples(st.just("abs"), st.sampled_from([1e-9, 0.05, 0.3, 1.0, 2.5, 8.0, 50.0])),
                  st.tuples(st.just("rel"), st.sampled_from([0.5, 0.999, 1.001, 2.0])))


@st.composite
def op_strategy(draw, nsites, jn):
    kinds = ["update", "update", "trial", "mcmoves", "mcmoves", "start"] + (["transitions", "transitions"] if jn else [])
    kind = draw(st.sampled_from(kinds))
    if kind == "start":
        return {"op": "start", "bits": [draw(st.integers(0, 1)) for _ in range(nsites)]}
    if kind in ("update", "trial"):
        return {"op": kind, "on": draw(_idx), "off": draw(_idx)}
    if kind == "transitions":
        return {"op": "transitions"}
    n = draw(st.integers(1, 12))
    return {"op": "mcmoves", "moves": [[draw(_idx), draw(_idx), list(draw(_spec))] for _ in range(n)]}


@st.composite
def cases(draw, max_sites=14):
    setup = draw(cx.setups(max_sites=max_sites, jn="maybe", vacancy="maybe"))
    b = cx.build(setup)
    n = b.nsites
    first = {"op": "start", "bits": [draw(st.integers(0, 1)) for _ in range(n)]}
    ops = [first] + draw(st.lists(op_strategy(n, b.jumpnetwork is not None), min_size=1, max_size=16))
    return {"kind": "history", "setup": setup, "init": draw(st.sampled_from(["unstarted", "started"])), "ops": ops}


# ------------------------------------------------------------------------------------------------
# compiled sampler construction / guarded calls
# ------------------------------------------------------------------------------------------------
def make_jit(ref):
    from onsager import cluster
    try:
        return cluster.MonteCarloSampler_jit(**cluster.MonteCarloSampler_param(ref))
    except Exception as e:  # numba typing errors carry no library frame: report them as what they are
        raise Violation("the compiled sampler cannot be constructed from this reference sampler (%d jumps): %s: %s"
                        % (len(ref.jumps) if ref.jumps is not None else -1, type(e).__name__, str(e)[:300]))


def jcall(what, f, *args):
    try:
        return f(*args)
    except Exception as e:
        raise Violation("compiled sampler %s raised %s: %s" % (what, type(e).__name__, str(e)[:300]))


def reference_for(b, case, excluded):
    ref = b.sampler()
    if ref.jumps is not None and len(ref.jumps) == 0 and _active("zerojumps", case):
        excluded["zerojumps"] += 1
        ref = b.sampler(jn=False)
    return ref


def jit_transitions(J, case, excluded):
    """transitions of the compiled sampler, or None when the call fails exactly like R8 and R8 is excluded"""
    if _r8_seen and _active("R8", case):
        # numba re-runs the (failing) compilation on every call, ~1 s each: once the failure was observed in this process
        # the call is not repeated while R8 is excluded
        excluded["R8"] += 1
        return None
    try:
        ij, Q, dx = J.transitions()
    except AttributeError as e:
        if "np.Inf" in str(e) and _active("R8", case):
            _r8_seen.append(True)
            excluded["R8"] += 1
            return None
        raise Violation("compiled sampler transitions() raised AttributeError: %s" % str(e)[:300])
    except Exception as e:
        raise Violation("compiled sampler transitions() raised %s: %s" % (type(e).__name__, str(e)[:300]))
    return np.array(ij), np.array(Q), np.array(dx)


# ------------------------------------------------------------------------------------------------
# comparisons
# ------------------------------------------------------------------------------------------------
def compare_static(J, ref, occ, tol, where, pairs_limit=40):
    """observable state of compiled sampler J vs reference sampler ref and the model occupation occ; returns #non-zero dE seen"""
    occ = np.asarray(occ)
    require(np.array_equal(np.asarray(J.occ), occ), lambda: "%s: compiled occupation %s differs from the history's occupation %s" % (where, np.asarray(J.occ).tolist(), occ.tolist()))
    oc = [int(i) for i in np.nonzero(occ == 1)[0]]
    un = [int(i) for i in np.nonzero(occ == 0)[0]]
    require(int(J.Nocc) == len(oc) and int(J.Nunocc) == len(un), lambda: "%s: Nocc,Nunocc = %d,%d but the occupation has %d,%d" % (where, J.Nocc, J.Nunocc, len(oc), len(un)))
    jo, ju = np.asarray(J.occupied_set)[:len(oc)], np.asarray(J.unoccupied_set)[:len(un)]
    require(sorted(int(i) for i in jo) == oc and sorted(int(i) for i in ju) == un, lambda: "%s: compiled site lists %s / %s do not hold the occupied %s / unoccupied %s sites" % (where, jo.tolist(), ju.tolist(), oc, un))
    ind = np.asarray(J.index)
    require(all(0 <= ind[i] < len(jo) and jo[ind[i]] == i for i in oc) and all(0 <= ind[i] < len(ju) and ju[ind[i]] == i for i in un), lambda: "%s: index table %s inconsistent with the site lists %s / %s" % (where, ind.tolist(), jo.tolist(), ju.tolist()))
    EJ, ER = jcall("E()", J.E), ref.E()
    require(abs(EJ - ER) <= tol, lambda: "%s: compiled E %r differs from reference E %r on occupation %s" % (where, EJ, ER, occ.tolist()))
    nonzero = 0
    if 0 < len(oc) * len(un) <= pairs_limit:
        for i in un:
            for j in oc:
                dJ, dR = jcall("deltaE_trial", J.deltaE_trial, i, j), ref.deltaE_trial((i,), (j,))
                require(abs(dJ - dR) <= tol, lambda: "%s: compiled deltaE_trial(%d,%d) = %r but reference %r on occupation %s" % (where, i, j, dJ, dR, occ.tolist()))
                nonzero += abs(dR) > 1e-9
    return nonzero


def compare_transitions(J, ref, occ, vac, tol, where, case, excluded):
    """returns number of finite barriers compared, or None if excluded"""
    got = jit_transitions(J, case, excluded)
    if got is None:
        return None
    ij, Q, dx = got
    ijr, Qr, dxr = ref.transitions()
    nj = len(ref.jumps)
    require(len(ij) == len(Q) == len(dx) == nj, lambda: "%s: compiled transitions() has %d/%d/%d entries for %d jumps" % (where, len(ij), len(Q), len(dx), nj))
    pos = 0
    finite = 0
    for n, ((i, j), d) in enumerate(ref.jumps):
        require(int(ij[n][0]) == int(i) and int(ij[n][1]) == int(j) and np.abs(np.asarray(dx[n]) - np.asarray(d)).max() < 1e-12,
                lambda: "%s: compiled jump %d is %s %s, reference jump is %s %s" % (where, n, ij[n].tolist(), dx[n].tolist(), (i, j), np.asarray(d).tolist()))
        allowed = True if vac is not None else (occ[i] == 1 and occ[j] == 0)
        if allowed:
            require(pos < len(ijr) and tuple(int(x) for x in ijr[pos]) == (int(i), int(j)), lambda: "%s: reference transitions() does not list the allowed jump %d %s in order" % (where, n, (i, j)))
            require(np.isfinite(Q[n]) and abs(Q[n] - Qr[pos]) <= tol, lambda: "%s: barrier of allowed jump %d %s: compiled %r, reference %r (occupation %s)" % (where, n, (i, j), Q[n], Qr[pos], list(occ)))
            pos += 1
            finite += 1
        else:
            require(Q[n] == np.inf, lambda: "%s: forbidden jump %d %s (occupation %s) has compiled barrier %r instead of +inf" % (where, n, (i, j), list(occ), Q[n]))
    require(pos == len(ijr), lambda: "%s: reference lists %d transitions, %d are allowed by the occupation" % (where, len(ijr), pos))
    return finite


def same_arrays(A, B, where):
    for name in ("occ", "occupied_set", "unoccupied_set", "index", "clustercount"):
        a, b_ = np.asarray(getattr(A, name)), np.asarray(getattr(B, name))
        if name == "occupied_set":
            a, b_ = a[:A.Nocc], b_[:B.Nocc]
        if name == "unoccupied_set":
            a, b_ = a[:A.Nunocc], b_[:B.Nunocc]
        require(np.array_equal(a, b_), lambda: "%s: after the batch %s = %s but move-by-move gives %s" % (where, name, a.tolist(), b_.tolist()))
    require(A.Nocc == B.Nocc and A.Nunocc == B.Nunocc, "%s: Nocc/Nunocc differ between batch and move-by-move" % where)


# ------------------------------------------------------------------------------------------------
# history check
# ------------------------------------------------------------------------------------------------
def check_history(case):
    excluded = collections.Counter()
    b = cx.build(case["setup"])
    vac = b.vacancy
    ref = reference_for(b, case, excluded)
    jn = ref.jumps is not None
    tol = 1e-9 * max(1., float(np.abs(ref.interactvalue).sum()))
    classes = cx.describe(b) + ["init_" + case.get("init", "unstarted")]
    ops = list(case["ops"])
    if not ops or ops[0]["op"] != "start":
        ops = [{"op": "start", "bits": [0, 1]}] + ops
    occ = [int(x) for x in b.blank(ops[0]["bits"])]
    if case.get("init") == "started":
        # created from a started sampler that is used for something else afterwards: the compiled sampler keeps its own state
        src = reference_for(b, case, collections.Counter())
        src.start(np.array(occ, dtype=np.int64))
        A, B = make_jit(src), make_jit(src)
        src.update(sorted(src.unoccupied_set), sorted(src.occupied_set))  # flips every site of the source sampler in place
        ref.start(np.array(occ, dtype=np.int64))
    else:
        A, B = make_jit(ref), make_jit(ref)
        ref.start(np.array(occ, dtype=np.int64))
        jcall("start", A.start, np.array(occ, dtype=np.int64))
        jcall("start", B.start, np.array(occ, dtype=np.int64))
    nz = compare_static(A, ref, occ, tol, "after creation")
    changed = finite = nbatch = accepted = rejected = 0
    for k, op in enumerate(ops[1:], start=1):
        where = "op %d (%s)" % (k, op["op"])
        un = [i for i in range(b.nsites) if occ[i] == 0]
        oc = [i for i in range(b.nsites) if occ[i] == 1]
        if op["op"] == "start":
            occ = [int(x) for x in b.blank(op["bits"])]
            ref.start(np.array(occ, dtype=np.int64))
            jcall("start", A.start, np.array(occ, dtype=np.int64))
            jcall("start", B.start, np.array(occ, dtype=np.int64))
            classes.append("restart")
        elif op["op"] in ("trial", "update"):
            if not un or not oc:
                classes.append("skipped_no_pair")
                continue
            i, j = un[op["on"] % len(un)], oc[op["off"] % len(oc)]
            dJ, dR = jcall("deltaE_trial", A.deltaE_trial, i, j), ref.deltaE_trial((i,), (j,))
            require(abs(dJ - dR) <= tol, lambda: "%s: compiled deltaE_trial(%d,%d) = %r but reference %r on occupation %s" % (where, i, j, dJ, dR, occ))
            nz += abs(dR) > 1e-9
            if op["op"] == "update":
                ref.update((i,), (j,))
                jcall("update", A.update, i, j)
                jcall("update", B.update, i, j)
                occ[i], occ[j] = 1, 0
                changed += 1
        elif op["op"] == "transitions":
            if not jn:
                continue
            f = compare_transitions(A, ref, occ, vac, tol, where, case, excluded)
            if f is not None:
                finite += f
                classes.append("transitions_compared")
                if vac is None and f < len(ref.jumps):
                    classes.append("forbidden_jumps_inf")
        elif op["op"] == "mcmoves":
            if not un or not oc:
                classes.append("skipped_no_pair")
                continue
            nun, noc = len(un), len(oc)
            a_idx, b_idx, thr = [], [], []
            for (a, c, spec) in op["moves"]:
                a, c = a % nun, c % noc
                i, j = int(B.unoccupied_set[a]), int(B.occupied_set[c])
                require(occ[i] == 0 and occ[j] == 1, lambda: "%s: compiled site lists point at sites %d,%d whose occupations are %d,%d" % (where, i, j, occ[i], occ[j]))
                dR = ref.deltaE_trial((i,), (j,))
                dB = jcall("deltaE_trial", B.deltaE_trial, i, j)
                require(abs(dB - dR) <= tol, lambda: "%s: compiled deltaE_trial(%d,%d) = %r but reference %r" % (where, i, j, dB, dR))
                if spec[0] == "rel" and dR > 1e-6:
                    t = float(spec[1]) * dR
                    classes.append("threshold_next_to_dE")
                else:
                    t = float(spec[1]) if spec[0] == "abs" else 0.3
                a_idx.append(a), b_idx.append(c), thr.append(t)
                if dR < t:  # Metropolis: accept iff u < exp(-dE/kT)  <=>  dE < -kT ln u
                    ref.update((i,), (j,))
                    jcall("update", B.update, i, j)
                    occ[i], occ[j] = 1, 0
                    accepted += 1
                    changed += 1
                else:
                    rejected += 1
                nz += abs(dR) > 1e-9
            jcall("MCmoves", A.MCmoves, np.array(a_idx, dtype=np.int64), np.array(b_idx, dtype=np.int64), np.array(thr, dtype=np.float64))
            same_arrays(A, B, where)
            nbatch += 1
        else:
            raise HarnessError("unknown op %r" % (op,))
        nz += compare_static(A, ref, occ, tol, where)
    if accepted:
        classes.append("mc_accepted")
    if rejected:
        classes.append("mc_rejected")
    if nbatch:
        classes.append("mc_batches")
    classes.append("jn_sampler" if jn else "plain_sampler")
    for k, v in excluded.items():
        classes.append("excluded_" + k)
    nt = changed > 0 and (nz > 0 or finite > 0)
    return {"key": canon([case["setup"], case.get("init"), case["ops"]]), "nontrivial": nt, "classes": sorted(set(classes)), "excluded": dict(excluded),
            "sample": {"crystal": case["setup"]["recipe"]["name"], "super": case["setup"]["super"], "sites": b.nsites, "vacancy": vac, "init": case.get("init"),
                       "nops": len(ops), "occupation_changes": changed, "nonzero_dE": int(nz), "finite_barriers": finite, "batches": nbatch,
                       "accepted": accepted, "rejected": rejected, "ops_head": ops[:3]}}


# ------------------------------------------------------------------------------------------------
# bounded-exhaustive differential
# ------------------------------------------------------------------------------------------------
def check_all(case):
    excluded = collections.Counter()
    b = cx.build(case["setup"])
    free, vac = b.free_sites(), b.vacancy
    n = len(free)
    if n > 8:
        raise HarnessError("exhaustive case with %d free sites" % n)
    ref = reference_for(b, case, excluded)
    jn = ref.jumps is not None
    tol = 1e-9 * max(1., float(np.abs(ref.interactvalue).sum()))
    A = make_jit(ref)
    nz = finite = nupd = 0
    for s in range(1 << n):
        occ = [0] * b.nsites
        for k, i in enumerate(free):
            occ[i] = (s >> k) & 1
        if vac is not None:
            occ[vac] = -1
        ref.start(np.array(occ, dtype=np.int64))
        if s % 5 == 3:
            A = make_jit(ref)  # creation from a started reference sampler
        else:
            jcall("start", A.start, np.array(occ, dtype=np.int64))
        where = "occupation %s" % occ
        nz += compare_static(A, ref, occ, tol, where, pairs_limit=100)
        if jn:
            f = compare_transitions(A, ref, occ, vac, tol, where, case, excluded)
            finite += f or 0
        un = [i for i in free if occ[i] == 0]
        oc = [i for i in free if occ[i] == 1]
        for i in un:
            for j in oc:
                ref.update((i,), (j,))
                jcall("update", A.update, i, j)
                occ[i], occ[j] = 1, 0
                compare_static(A, ref, occ, tol, "update(%d,%d) from %s" % (i, j, where), pairs_limit=0)
                ref.update((j,), (i,))
                jcall("update", A.update, j, i)
                occ[i], occ[j] = 0, 1
                compare_static(A, ref, occ, tol, "inverse of update(%d,%d) from %s" % (i, j, where), pairs_limit=0)
                nupd += 2
    classes = cx.describe(b) + ["all_occupations", "all_sites%02d" % n, "jn_sampler" if jn else "plain_sampler"] + ["excluded_" + k for k in excluded]
    return {"key": canon(["all", case["setup"]]), "nontrivial": nupd > 0 and (nz > 0 or finite > 0), "classes": classes, "excluded": dict(excluded),
            "sample": {"all": case["setup"]["recipe"]["name"], "super": case["setup"]["super"], "free_sites": n, "vacancy": vac, "occupations": 1 << n,
                       "updates": nupd, "nonzero_dE": int(nz), "finite_barriers": finite}}


def check(case):
    if case.get("kind") == "all":
        return check_all(case)
    return check_history(case)


def all_cases(ctx):
    step = 2 if ctx.quick else 1
    out = [{"kind": "all", "setup": s} for s in cx.small_setups(max_sites=9, jn=True, select=lambda n: n % step == 0 and ctx.mine(n // step))]
    return [c for c in out if len(cx.build(c["setup"]).free_sites()) <= (7 if ctx.quick else 8)]


def run(ctx):
    def counted(case):
        info = check(case)
        for k, v in (info.get("excluded") or {}).items():
            ctx.exclude(k, v)
        return info
    ctx.corpus(counted)
    ctx.known(check)
    ctx.cases(all_cases(ctx), counted, label="all-occupations")
    ctx.note("bounded_exhaustive", "catalogue supercells (<=8 free sites; quick: every second, <=7), with and without vacancy: every occupation, every pair trial, every pair update and its inverse, transitions")
    ctx.given(cases(max_sites=14), counted, quick=200, thorough=6000)
    if not ctx.quick:
        ctx.given(cases(max_sites=24), counted, quick=1, thorough=1500, salt=1)


def replay(case):
    check(case)
