"""C02  Interstitial diffusivity equals the exact long-time diffusivity."""
import numpy as np
from hypothesis import strategies as st

from ..core import Violation, HarnessError, require, canon, relerr
from ..strategies import crystals as cs, networks as nw, data as dt
from ..oracles import interstitial_ref as ref

ID = "C02"
RULE = ("Hypothesis draws a crystal recipe (2D/3D, 1-3 species), the diffusing species, a cutoff shell k in 1..3 (midpoint between "
        "brute-force neighbour shells), optional obstruction distance, and prefactors/energies for every site and jump class; "
        "Interstitial.diffusivity and GFCrystalcalc.D (when the network percolates) are compared with the full-site-space reference "
        "D = D0 + b^T Omega^+ b (no symmetry, pseudo-inverse per connected component), which is itself cross-checked against the "
        "curvature of the largest eigenvalue of Omega(k) on connected networks. Non-trivial: the vector basis is non-empty and the "
        "correlation correction exceeds 1e-6 of D; distinct by (crystal, species, cutoff, data).")
ASSUMPTIONS = ["the jump list itself is the library's (its completeness is C21's subject); rates follow plain transition-state theory from the supplied data",
               "tolerance 1e-9 relative (dense linear algebra on <= 24 sites)"]
SHARDS = {"quick": 4, "thorough": 16}
TOL = 1e-9


@st.composite
def cases(draw, need_percolation=False, max_mobile=8):
    rec = draw(cs.recipes(max_mobile=max_mobile, max_other=4, names=["HCPoct", "FCCoct", "omega", "romega", "honeycomb", "rect2", "B2", "HCP", "diamond", "tetP2", "mono2", "L12m", "NbO"]))
    crys = cs.build(rec)
    chem = draw(st.integers(0, len(crys.basis) - 1)) if draw(st.booleans()) else 0
    k = draw(st.integers(1, 3))
    closest = 0
    if len(crys.basis) > 1 and draw(st.booleans()):
        closest = draw(st.sampled_from([0.1, 0.23, 0.37]))
    sl, jn, cut = nw.network(crys, chem, k, closest)
    if not jn:
        closest = 0
        sl, jn, cut = nw.network(crys, chem, k, closest)
    slperm = len(sl) > 1 and draw(st.integers(0, 3)) == 0
    if slperm:
        # the site list is an input: Wyckoff sets (and their members) in the caller's own order instead of Crystal.sitelist's
        sl = [list(reversed(w)) for w in reversed(sl)]
    inv = nw.invmap(sl)
    pre, ene = draw(dt.site_data(len(sl)))
    preT, eneT = draw(dt.trans_data(jn, inv, ene))
    # all rates very slow or very fast in 15% of the cases (absolute thresholds in the code would show up here)
    ls = draw(st.sampled_from([0] * 16 + [-7, -8, -9, -10, -14, 9]))
    if ls:
        preT = [float("%.5e" % (x * 10. ** ls)) for x in preT]
    out = {"recipe": rec, "chem": chem, "k": k, "closest": closest, "pre": pre, "ene": ene, "preT": preT, "eneT": eneT}
    if slperm:
        out["slperm"] = True
    return out


def setup(case):
    from onsager import OnsagerCalc
    crys = cs.build(case["recipe"])
    sl, jn, cut = nw.network(crys, case["chem"], case["k"], case["closest"])
    if case.get("slperm"):
        sl = [list(reversed(w)) for w in reversed(sl)]
    return crys, sl, jn


_diff = {}


def diffuser(case):
    from onsager import OnsagerCalc
    key = canon([case["recipe"]["lattice"], case["recipe"]["basis"], case["chem"], case["k"], case["closest"], bool(case.get("slperm"))])
    if key not in _diff:
        if len(_diff) > 200:
            _diff.clear()
        crys, sl, jn = setup(case)
        _diff[key] = (crys, sl, jn, OnsagerCalc.Interstitial(crys, case["chem"], sl, jn))
    return _diff[key]


def check(case):
    crys, sl, jn, diff = diffuser(case)
    if not jn:
        return {"classes": ["empty_network"], "nontrivial": False}
    if len(case["pre"]) != len(sl) or len(case["preT"]) != len(jn):
        raise HarnessError("case data do not match the network sizes (stale replay file?)")
    inv = nw.invmap(sl)
    rho, jumps = ref.rates_from_data(jn, inv, case["pre"], case["ene"], case["preT"], case["eneT"])
    Dref, D0, Dc = ref.diffusivity(rho, jumps, crys.dim, parts=True)
    comps = ref.components(len(rho), jumps)
    scale = max(np.abs(Dref).max(), np.abs(D0).max(), 1e-300)
    classes = cs.describe(crys) + ["NV%d" % min(diff.NV, 4), "invertible" if diff.omega_invertible else "pinv_branch",
                                   "wyckoff%d" % min(len(sl), 4), "jumpclasses%d" % min(len(jn), 5), "components%d" % min(len(comps), 3)]
    if case["closest"]:
        classes.append("obstruction")
    if len(comps) == 1 and len(rho) <= 12:
        Dk = ref.diffusivity_kspace(rho, jumps, crys.dim)
        if np.abs(Dk - Dref).max() > 2e-5 * scale:
            raise HarnessError("the two reference forms disagree: %s vs %s" % (Dk.tolist(), Dref.tolist()))
        classes.append("kspace_crosscheck")
    D = diff.diffusivity(case["pre"], case["ene"], case["preT"], case["eneT"])
    require(np.all(np.isfinite(D)), lambda: "diffusivity not finite: %s" % D.tolist())
    err = np.abs(D - Dref).max() / scale
    require(err <= TOL, lambda: "Interstitial.diffusivity differs from the exact long-time diffusivity by %.3e (relative): library %s reference %s"
            % (err, D.tolist(), Dref.tolist()))
    if crys.N <= 10 and len(rho) <= 8 and nw.gf_ok(crys, case["chem"], sl, jn):
        from onsager import GFcalc
        classes.append("GF_D_checked")
        GF = GFcalc.GFCrystalcalc(crys, case["chem"], sl, jn, Nmax=2)
        GF.SetRates(case["pre"], case["ene"], case["preT"], case["eneT"])
        errg = np.abs(GF.D - Dref).max() / scale
        require(errg <= 1e-8, lambda: "GFCrystalcalc.D differs from the exact diffusivity by %.3e: %s vs %s" % (errg, np.asarray(GF.D).tolist(), Dref.tolist()))
    nt = diff.NV > 0 and np.abs(Dc).max() > 1e-6 * scale
    return {"key": canon([case["recipe"]["lattice"], case["recipe"]["basis"], case["chem"], case["k"], case["closest"], case["pre"], case["ene"], case["preT"], case["eneT"]]),
            "nontrivial": nt, "classes": classes,
            "sample": {"crystal": case["recipe"]["name"], "basis": case["recipe"]["basis"], "chem": case["chem"], "shell": case["k"], "closest": case["closest"],
                       "pre": case["pre"], "ene": case["ene"], "preT": case["preT"], "eneT": case["eneT"], "D": D.tolist(), "correction": Dc.tolist()}}


def run(ctx):
    ctx.corpus(check)
    ctx.given(cases(), check, quick=300, thorough=8000)


def replay(case):
    check(case)
