"""C29  Calculation-setup supercells contain the right defects and mappings."""
import numpy as np
from hypothesis import strategies as st

from ..core import Violation, HarnessError, require, canon
from ..strategies import crystals as cs, calcsetup as su
from ..oracles import setup_geom as sg

ID = "C29"
RULE = ("Hypothesis draws a small 3D crystal (catalogue of the suite's structures or generated orbit decorations with <=4 mobile atoms), "
        "the moving species, the calculator kind (Interstitial, or VacancyMediated with Nthermo=1 on a percolating network), a "
        "neighbour-shell cutoff and 1-3 integer supercell matrices (n*I for n=1..5, anisotropic diagonal, fcc/bcc/hex non-diagonal, skewed "
        "symmetry-breaking and left-handed ones). Oracle, all plain geometry written from scratch: every tag is parsed and compared with "
        "the site/state/jump it stands for; the perfect crystal is laid out in the supercell by brute force and the defects of every "
        "state supercell and transition endpoint are located as the differences from it (missing host atom = vacancy, substitutional "
        "species = solute, extra atom on the interstitial sublattice = interstitial) and compared with the positions named in the tag; "
        "the two endpoints must be identical ordered atom lists except for one atom whose displacement equals the jump modulo the "
        "supercell; each recorded (tag, g, mapping) is applied by hand (new[c][i] = g.rot*old[c][mapping[c][i]] + g.trans, g an isometry) "
        "to the named state's atom list and must give the endpoint's ordered atom list; 'too small' warnings are required when two "
        "distinct kinetic states alias modulo the supercell and forbidden when every kinetic state lies well inside the half cell. "
        "Non-trivial: a supercell with at least one non-degenerate transition whose recorded mapping was verified; distinct by "
        "(crystal, species, kind, cutoff, supercells).")
ASSUMPTIONS = ["3D crystals only (Supercell documents 3x3 integer matrices and writes three-component POSCARs; 2D input raises inside numpy.dot)",
               "the jump network and site list are the library's own generators at a shell-midpoint cutoff (their completeness is C21's subject); "
               "vacancy-mediated calculators get a network that percolates in all directions (precondition of the Green function calculator)",
               "tags print unit coordinates with three decimals: named positions are compared within 0.5e-3 (+1e-6) in unit coordinates, everything else within 1e-6 (positions) / 1e-9 (ordered lists, mapped positions are k/size rationals)",
               "degenerate transitions (two of the named defect positions coincide modulo the supercell, e.g. a jump by a supercell lattice vector) cannot satisfy the statement in any implementation: only the warning is asserted there",
               "warning behaviour is asserted only outside the ambiguous band: required iff two distinct kinetic states (same solute site) have vacancy positions equal modulo the supercell; forbidden iff all kinetic states have supercell direct coordinates |s_i| <= 0.49",
               "presence of a mapping for an endpoint is demanded only where it must exist: supercell keeps every point operation of the crystal and the endpoint is a tagged state (all interstitial endpoints, omega0/omega2 endpoints, at least one omega1 endpoint)"]
SHARDS = {"quick": 4, "thorough": 16}

NAMED_TOL = sg.TAG_ROUNDING + 1e-6
POS_TOL = 1e-6
ORDER_TOL = 1e-9
AMPLE = 0.49

# Finding (see the final report / corpus/C29/known-interstitial-nomap.json): Interstitial.makesupercells appends a mapping only when
# an equivalent state is found and records no placeholder otherwise, so in a supercell that loses the crystal operation connecting an
# endpoint to its class representative the transmapping tuple has fewer than two entries (a mapping of the final endpoint lands in
# the slot of the initial one).  While the flag is True the generator does not draw (interstitial calculator, supercell) pairs in
# exactly that region (su.nomap_region, computed from the crystal's point operations that survive in the supercell).
EXCLUDE_INT_NOMAP = False  # R33 repaired in /repo (e0a9462)


@st.composite
def cases(draw):
    return draw(su.setups(exclude_nomap=EXCLUDE_INT_NOMAP))


# ------------------------------------------------------------------------------------------------
def _close(u, v, tol=NAMED_TOL):
    return bool(np.abs(np.asarray(u, dtype=float) - np.asarray(v, dtype=float)).max() <= tol)


def _named(tag):
    try:
        return sg.parse_tag(tag)
    except sg.GeomMismatch as e:
        raise Violation("tag %r: %s" % (tag, e))


def check_tags(crys, chem, kind, sl, jn, calc):
    """every tag names the object it is filed under (all members of every class)"""
    basis = [np.asarray(u, dtype=float) for u in crys.basis[chem]]
    Linv = np.linalg.inv(np.asarray(crys.lattice, dtype=float))
    seen = set()

    def book(tag, ttype, idx):
        require(tag not in seen, lambda: "tag %r generated twice" % tag)
        seen.add(tag)
        require(calc.tagdict.get(tag) == idx and calc.tagdicttype.get(tag) == ttype,
                lambda: "tagdict/tagdicttype of %r is (%r,%r), expected (%r,%r)" % (tag, calc.tagdicttype.get(tag), calc.tagdict.get(tag), ttype, idx))

    def single(tag, typ, u, what):
        p = _named(tag)
        require(p["prefix"] is None and p["final"] is None and len(p["initial"]) == 1 and p["initial"][0][0] == typ and _close(p["initial"][0][1], u),
                lambda: "%s tag %r does not name a '%s' defect at %s" % (what, tag, typ, np.asarray(u).tolist()))

    if kind == "interstitial":
        require(sorted(calc.tags) == ["states", "transitions"], "interstitial tags have keys %s" % sorted(calc.tags))
        require([len(t) for t in calc.tags["states"]] == [len(s) for s in sl], "state tags do not mirror the site list")
        require([len(t) for t in calc.tags["transitions"]] == [len(j) for j in jn], "transition tags do not mirror the jump network")
        for w, (sites, tags) in enumerate(zip(sl, calc.tags["states"])):
            for i, tag in zip(sites, tags):
                single(tag, "i", basis[i], "state")
                book(tag, "states", w)
        for c, (jl, tags) in enumerate(zip(jn, calc.tags["transitions"])):
            for ((i, j), dx), tag in zip(jl, tags):
                p = _named(tag)
                ok = p["prefix"] is None and p["final"] is not None and [t for t, _ in p["initial"]] == ["i"] and [t for t, _ in p["final"]] == ["i"]
                ok = ok and _close(p["initial"][0][1], basis[i]) and _close(p["final"][0][1], basis[i] + Linv @ dx)
                require(ok, lambda: "transition tag %r does not name the jump %d->%d dx=%s" % (tag, i, j, np.asarray(dx).tolist()))
                book(tag, "transitions", c)
        return
    want = ["omega0", "omega1", "omega2", "solute", "solute-vacancy", "vacancy"]
    require(sorted(calc.tags) == want, "vacancy-mediated tags have keys %s" % sorted(calc.tags))
    for ttype, typ in (("vacancy", "v"), ("solute", "s")):
        require([len(t) for t in calc.tags[ttype]] == [len(s) for s in sl], "%s tags do not mirror the site list" % ttype)
        for w, (sites, tags) in enumerate(zip(sl, calc.tags[ttype])):
            for i, tag in zip(sites, tags):
                single(tag, typ, basis[i], ttype)
                book(tag, ttype, w)

    def pair(PS):
        return basis[PS.i], basis[PS.j] + np.asarray(PS.R, dtype=float)

    def is_pair(named, us, uv):
        return [t for t, _ in named] == ["s", "v"] and _close(named[0][1], us) and _close(named[1][1], uv)

    stars = calc.thermo.stars
    require([len(t) for t in calc.tags["solute-vacancy"]] == [len(s) for s in stars], "solute-vacancy tags do not mirror the thermodynamic stars")
    for s, (star, tags) in enumerate(zip(stars, calc.tags["solute-vacancy"])):
        for n, tag in zip(star, tags):
            PS = calc.thermo.states[n]
            p = _named(tag)
            require(p["prefix"] is None and p["final"] is None and is_pair(p["initial"], *pair(PS)), lambda: "solute-vacancy tag %r does not name the pair state %s" % (tag, PS))
            book(tag, "solute-vacancy", s)
    require([len(t) for t in calc.tags["omega0"]] == [len(j) for j in calc.om0_jn], "omega0 tags do not mirror the omega0 network")
    for c, (jl, tags) in enumerate(zip(calc.om0_jn, calc.tags["omega0"])):
        for ((i, j), dx), tag in zip(jl, tags):
            p = _named(tag)
            ok = p["prefix"] == "omega0" and _close(p["initial"][0][1], basis[i]) and _close(p["final"][0][1], basis[i] + Linv @ dx)
            require(ok, lambda: "omega0 tag %r does not name the jump %d->%d dx=%s" % (tag, i, j, np.asarray(dx).tolist()))
            book(tag, "omega0", c)
    for ttype, net in (("omega1", calc.om1_jn), ("omega2", calc.om2_jn)):
        require([len(t) for t in calc.tags[ttype]] == [len(j) for j in net], "%s tags do not mirror the %s network" % (ttype, ttype))
        for c, (jl, tags) in enumerate(zip(net, calc.tags[ttype])):
            for ((a, b), dx), tag in zip(jl, tags):
                PSa, PSb = calc.kinetic.states[a], calc.kinetic.states[b]
                p = _named(tag)
                ok = p["prefix"] == ttype and is_pair(p["initial"], *pair(PSa))
                if ttype == "omega1":
                    # solute fixed, vacancy moves by dx
                    ok = ok and is_pair(p["final"], basis[PSa.i], pair(PSb)[1]) and PSa.i == PSb.i \
                        and _close(pair(PSb)[1] - pair(PSa)[1], Linv @ dx, 1e-6)
                else:
                    # exchange: the vacancy moves by dx onto the solute site
                    ok = ok and is_pair(p["final"], *pair(PSb)) and _close(pair(PSa)[0] - pair(PSa)[1], Linv @ dx, 1e-6)
                require(ok, lambda: "%s tag %r does not name the jump %s -> %s dx=%s" % (ttype, tag, PSa, PSb, np.asarray(dx).tolist()))
                book(tag, ttype, c)


# ------------------------------------------------------------------------------------------------
class Layout(object):
    """the perfect crystal laid out in the supercell, by brute force"""

    def __init__(self, crys, chem, kind, M):
        self.L, self.atoms = cs.atoms_of(crys)
        self.N = np.array(M, dtype=int)
        self.A = self.L @ self.N
        self.chem, self.kind = chem, kind
        if kind == "interstitial":
            self.host = sg.supercell_sites(self.atoms, self.N, lambda c: c != chem)
            self.inter = sg.supercell_sites(self.atoms, self.N, lambda c: c == chem)
            self.solute = None
        else:
            self.host = sg.supercell_sites(self.atoms, self.N)
            self.inter = None
            self.solute = len(crys.basis)

    def defects(self, poslists, what="supercell"):
        try:
            return sg.find_defects(self.A, poslists, self.host, self.chem, self.solute, self.inter, POS_TOL)
        except sg.GeomMismatch as e:
            raise Violation("%s: %s" % (what, e))


def poslists_of(sup):
    return [[np.array(u, dtype=float) for u in pl] for pl in sup.occposlist()]


def match_named(lay, found, named, what, free_translation=False):
    """found defects == named defects (positions modulo the supercell, within the tag's rounding)"""
    counts = {t: sum(1 for tt, _ in named if tt == t) for t in "isv"}
    got = {t: len(found[t]) for t in "isv"}
    require(counts == got, lambda: "%s: contains %s but the tag names %s" % (what, got, counts))
    T = np.zeros(3)
    if free_translation:
        # the state may be presented shifted by one crystal lattice vector (solute kept in the first cell in the tag)
        t0, u0 = named[0]
        T = np.round(lay.N @ np.asarray(found[t0][0]) - u0)
    for t, u in named:
        errs = [sg.named_position_error(lay.N, s, u + T) for s in found[t]]
        require(min(errs) <= NAMED_TOL, lambda: "%s: no '%s' defect at the named position %s (closest is off by %.2e in unit coordinates; found at %s)"
                % (what, t, (u + T).tolist(), min(errs), [(lay.N @ np.asarray(s)).tolist() for s in found[t]]))


def coincide(lay, ulist):
    """do two of the unit-coordinate positions coincide modulo the supercell (within the tag rounding)?"""
    for a in range(len(ulist)):
        for b in range(a + 1, len(ulist)):
            if sg.in_superlattice(lay.N, np.asarray(ulist[a]) - np.asarray(ulist[b]), tol=2.5e-3):
                return True
    return False


def kinetic_geometry(crys, chem, calc, lay):
    """(alias?, ample?) from the calculator's list of kinetic pair states, by plain geometry"""
    basis = [np.asarray(u, dtype=float) for u in crys.basis[chem]]
    Ninv = np.linalg.inv(lay.N.astype(float))
    by_solute = {}
    smax = 0.
    for PS in calc.kinetic.states:
        du = basis[PS.j] + np.asarray(PS.R, dtype=float) - basis[PS.i]
        by_solute.setdefault(PS.i, []).append(du)
        smax = max(smax, float(np.abs(Ninv @ du).max()))
    alias = False
    for i, dus in by_solute.items():
        dus = np.array(dus + [np.zeros(3)])  # the solute's own site: a vacancy cannot sit on an image of the solute
        d = (dus[:, None, :] - dus[None, :, :]) @ Ninv.T
        distinct = np.abs(dus[:, None, :] - dus[None, :, :]).max(axis=2) > 1e-6
        same = np.abs(d - np.round(d)).max(axis=2) < 1e-6
        if np.any(distinct & same):
            alias = True
            break
    return alias, smax <= AMPLE, smax


def retains_symmetry(crys, lay):
    Ninv = np.linalg.inv(lay.N.astype(float))
    for g in crys.G:
        R = Ninv @ np.asarray(g.rot, dtype=float) @ lay.N
        if np.abs(R - np.round(R)).max() > 1e-9:
            return False
    return True


def check_mapping(lay, sd, tag, which, entry, endpoint_pl, cache):
    name, g, mapping = entry
    what = "%s endpoint %d mapping" % (tag, which)
    require(name in sd["states"], lambda: "%s names %r which is not a state" % (what, name))
    rot, trans = np.asarray(g.rot), np.asarray(g.trans, dtype=float)
    require(rot.shape == (3, 3) and np.all(rot == np.round(rot)) and trans.shape == (3,), "%s: operation is not an integer 3x3 rotation + translation" % what)
    require(sg.is_isometry(lay.A, rot), lambda: "%s: the operation %s is not an isometry of the supercell lattice" % (what, rot.tolist()))
    if name not in cache:
        cache[name] = poslists_of(sd["states"][name])
    spl = cache[name]
    require(len(mapping) == len(spl), lambda: "%s has %d species lists for %d species" % (what, len(mapping), len(spl)))
    for c, (cmap, pl) in enumerate(zip(mapping, spl)):
        require(sorted(int(i) for i in cmap) == list(range(len(pl))), lambda: "%s: species %d map %s is not a permutation of %d atoms" % (what, c, list(cmap), len(pl)))
    new = sg.apply_map(spl, rot, trans, mapping)
    bad = sg.ordered_mismatch(new, endpoint_pl, ORDER_TOL)
    require(bad is None, lambda: "%s: transforming state %r does not reproduce the endpoint's ordered atom list (%s)" % (what, name, bad))


def check_super(case, crys, sl, jn, calc, M):
    chem, kind = case["chem"], case["kind"]
    lay = Layout(crys, chem, kind, M)
    Linv = np.linalg.inv(lay.L)
    sd, small, _ = su.make_superdict(calc, M)
    ncell = abs(su.det(M))
    classes = ["super_" + su.label(M), "cells_%s" % ("1" if ncell == 1 else "2-8" if ncell <= 8 else "9-27" if ncell <= 27 else "28-64" if ncell <= 64 else ">64")]
    for key in ("states", "transitions", "transmapping", "indices"):
        require(key in sd, "superdict lacks %r" % key)
    sym = retains_symmetry(crys, lay)
    classes.append("symmetric_super" if sym else "symmetry_breaking_super")

    # --- what must be there: one state / transition per class, filed under the class index
    if kind == "interstitial":
        want_states = {calc.tags["states"][w][0]: w for w in range(len(sl))}
        want_trans = {calc.tags["transitions"][c][0]: (c, "transitions") for c in range(len(jn))}
        nets = {"transitions": jn}
    else:
        want_states = {}
        for t in ("vacancy", "solute", "solute-vacancy"):
            for w, tags in enumerate(calc.tags[t]):
                want_states[tags[0]] = (t, w)
        nets = {"omega0": calc.om0_jn, "omega1": calc.om1_jn, "omega2": calc.om2_jn}
        want_trans = {calc.tags[t][c][0]: (c, t) for t in nets for c in range(len(nets[t]))}
        require("reference" in sd, "superdict lacks the defect-free reference")
        ref = lay.defects(poslists_of(sd["reference"]), "reference supercell %s" % (M,))
        require(not ref["v"] and not ref["s"] and not ref["i"], "the reference supercell contains defects")
    require(set(sd["states"]) == set(want_states), lambda: "state tags %s differ from the class representatives %s" % (sorted(sd["states"]), sorted(want_states)))
    require(set(sd["transitions"]) == set(want_trans) and set(sd["transmapping"]) == set(want_trans),
            lambda: "transition tags %s / mapping tags %s differ from the class representatives %s" % (sorted(sd["transitions"]), sorted(sd["transmapping"]), sorted(want_trans)))
    for tag, w in want_states.items():
        require(sd["indices"].get(tag) == w, lambda: "indices[%r] = %r, expected %r" % (tag, sd["indices"].get(tag), w))
    for tag, (c, t) in want_trans.items():
        exp = c if kind == "interstitial" else (t, c)
        require(sd["indices"].get(tag) == exp, lambda: "indices[%r] = %r, expected %r" % (tag, sd["indices"].get(tag), exp))
    require(len(sd["indices"]) == len(want_states) + len(want_trans), "indices has extra entries")

    # --- warnings
    if kind == "vacancy":
        alias, ample, smax = kinetic_geometry(crys, chem, calc, lay)
        if alias and ample:
            raise HarnessError("oracle inconsistency: aliasing states inside the half cell")
        if alias:
            classes.append("warn_required")
            require(len(small) > 0, lambda: "supercell %s: two distinct kinetic states coincide modulo the supercell but no 'too small' warning was issued" % (M,))
        elif ample:
            classes.append("warn_forbidden")
            require(len(small) == 0, lambda: "supercell %s holds every kinetic state well inside the half cell (max direct coordinate %.3f) but warned: %s" % (M, smax, small[0]))
        else:
            classes.append("warn_band_" + ("warned" if small else "silent"))
    elif small:
        classes.append("interstitial_warned")

    # --- states
    nstates_checked = 0
    for tag, sup in sd["states"].items():
        p = _named(tag)
        named = p["initial"]
        require(np.abs(np.asarray(sup.lattice, dtype=float) - lay.A).max() <= 1e-12 * np.abs(lay.A).max(), "state %r: supercell lattice is not L.N" % tag)
        if coincide(lay, [u for _, u in named]):
            classes.append("state_collision")
            require(kind != "vacancy" or len(small) > 0, "state %r: solute and vacancy coincide modulo the supercell without a warning" % tag)
            continue
        found = lay.defects(poslists_of(sup), "state %r in supercell %s" % (tag, M))
        match_named(lay, found, named, "state %r in supercell %s" % (tag, M))
        nstates_checked += 1

    # --- transitions
    ngood, nmapped, ndegenerate, nnone = 0, 0, 0, 0
    plcache = {}
    for tag, pairsup in sd["transitions"].items():
        require(len(pairsup) == 2, "transition %r does not have two endpoints" % tag)
        c, t = want_trans[tag]
        (i0, j0), dx0 = nets[t][c][0]
        dx0 = np.asarray(dx0, dtype=float)
        p = _named(tag)
        ini, fin = p["initial"], p["final"]
        # the distinct physical positions involved: fixed solute (if any), moving defect before and after
        mover0 = ini[-1][1]
        mover1 = mover0 + Linv @ dx0
        involved = [u for _, u in ini] + [mover1]
        if t == "omega2":
            involved = [u for _, u in ini]  # the vacancy lands on the solute site
        degenerate = coincide(lay, involved)
        tm = sd["transmapping"][tag]
        pl0, pl1 = poslists_of(pairsup[0]), poslists_of(pairsup[1])
        if degenerate:
            ndegenerate += 1
            require(kind != "vacancy" or len(small) > 0, "transition %r is degenerate in supercell %s but no warning was issued" % (tag, M))
        else:
            what = "transition %r in supercell %s" % (tag, M)
            f0, f1 = lay.defects(pl0, what + " initial endpoint"), lay.defects(pl1, what + " final endpoint")
            match_named(lay, f0, ini, what + " initial endpoint")
            match_named(lay, f1, fin, what + " final endpoint", free_translation=(t == "omega2"))
            if t == "omega2":
                # exchange: the final solute sits where the vacancy was and vice versa
                require(np.linalg.norm(lay.A @ sg.wrap(f1["s"][0] - f0["v"][0])) < POS_TOL and np.linalg.norm(lay.A @ sg.wrap(f1["v"][0] - f0["s"][0])) < POS_TOL,
                        "%s: solute and vacancy are not exchanged between the endpoints" % what)
            if t == "omega1":
                require(np.linalg.norm(lay.A @ sg.wrap(f1["s"][0] - f0["s"][0])) < POS_TOL, "%s: the solute moves" % what)
            # single moving atom, aligned order
            require([len(x) for x in pl0] == [len(x) for x in pl1], lambda: "%s: endpoints have different species counts" % what)
            moved = [(cc, n) for cc, (a, b) in enumerate(zip(pl0, pl1)) for n, (u, v) in enumerate(zip(a, b)) if np.abs(sg.wrap(u - v)).max() > ORDER_TOL]
            require(len(moved) == 1, lambda: "%s: %d atoms differ between the ordered endpoint lists %s (exactly one must move)" % (what, len(moved), moved[:6]))
            cc, n = moved[0]
            mover_species = chem if t != "omega2" else lay.solute
            require(cc == mover_species, lambda: "%s: the moving atom has species %d, expected %d" % (what, cc, mover_species))
            move = dx0 if kind == "interstitial" else -dx0
            disp = lay.A @ (pl1[cc][n] - pl0[cc][n])
            resid = np.linalg.inv(lay.A) @ (disp - move)
            require(np.abs(resid - np.round(resid)).max() < 1e-7, lambda: "%s: the moving atom is displaced by %s (mod supercell), the jump requires %s"
                    % (what, sg.min_images(lay.A, pl1[cc][n] - pl0[cc][n])[0].tolist(), move.tolist()))
            imgs = sg.min_images(lay.A, np.linalg.inv(lay.A) @ move)
            if len(imgs) == 1 and np.abs(imgs[0] - move).max() < 1e-7:
                obs = sg.min_images(lay.A, pl1[cc][n] - pl0[cc][n])
                require(len(obs) == 1 and np.abs(obs[0] - move).max() < 1e-7, lambda: "%s: minimum-image displacement %s differs from the jump %s" % (what, obs[0].tolist(), move.tolist()))
                classes.append("jump_is_min_image")
            else:
                classes.append("jump_not_unique_min_image")
            ngood += 1
        # recorded mappings: one slot per endpoint (None = no equivalent tagged state)
        require(len(tm) == 2, lambda: "transition %r in supercell %s: transmapping has %d entries for the two endpoints, so entries cannot be attributed to an endpoint "
                "(consumers read slot 0 as the initial and slot 1 as the final endpoint)" % (tag, M, len(tm)))
        for which, (entry, epl) in enumerate(zip(tm, (pl0, pl1))):
            if entry is None:
                nnone += 1
                if sym and not degenerate:
                    require(kind == "vacancy" and t == "omega1", lambda: "transition %r in supercell %s: endpoint %d is a tagged state but no mapping is recorded" % (tag, M, which))
                continue
            check_mapping(lay, sd, tag, which, entry, epl, plcache)
            if not degenerate:
                nmapped += 1
        if sym and not degenerate and kind == "vacancy":
            require(any(e is not None for e in tm), lambda: "transition %r in supercell %s connects to no tagged state" % (tag, M))
    if ndegenerate:
        classes.append("degenerate_transitions")
    if nnone:
        classes.append("unmapped_endpoints")
    if kind == "vacancy":
        for t in ("omega0", "omega1", "omega2"):
            if any(tt == t for (_, tt) in want_trans.values()):
                classes.append("has_" + t)
    return {"classes": classes, "good": ngood, "mapped": nmapped, "states": nstates_checked, "warned": len(small)}


def check(case):
    crys, sl, jn, calc = su.calculator(case)
    chem, kind = case["chem"], case["kind"]
    if crys.dim != 3:
        raise HarnessError("C29 cases must be 3D")
    check_tags(crys, chem, kind, sl, jn, calc)
    classes = cs.describe(crys) + [kind, "wyckoff%d" % min(len(sl), 4), "jumpclasses%d" % min(len(jn), 5)]
    if len(crys.basis) > 1:
        classes.append("multispecies")
    nt = False
    summary = []
    for M in case["supers"]:
        r = check_super(case, crys, sl, jn, calc, M)
        classes += r["classes"]
        nt = nt or (r["good"] > 0 and r["mapped"] > 0)
        summary.append({"super": M, "transitions_checked": r["good"], "mappings_verified": r["mapped"], "states_checked": r["states"], "too_small_warnings": r["warned"]})
    return {"key": canon([case["recipe"]["lattice"], case["recipe"]["basis"], chem, kind, case["k"], case["supers"]]), "nontrivial": nt,
            "classes": sorted(set(classes)),
            "sample": {"crystal": case["recipe"]["name"], "basis": case["recipe"]["basis"], "chem": chem, "kind": kind, "shell": case["k"], "supercells": summary}}


excluded = [0]


def catalogue_cases(quick):
    from ..strategies import networks as nw
    out = []
    excluded[0] = 0
    vac = ["FCC", "HCP", "B2", "diamond"] if quick else ["FCC", "BCC", "HCP", "B2", "diamond", "omega", "tetP2", "SC", "mono2"]
    for kind, names in (("vacancy", vac), ("interstitial", ["HCPoct", "FCCoct", "NbO"] if quick else ["HCPoct", "FCCoct", "B2", "NbO", "tetP2"])):
        for name in names:
            rec = cs.CATALOGUE[name]
            crys = cs.build(rec)
            pool = su.supers_for(crys.N, maxsites=130 if quick else 260, maxcells=64 if quick else 125)
            k = 1
            if kind == "vacancy":
                k = nw.smallest_percolating(crys, 0) or 1
            sl, jn, _ = nw.network(crys, 0, k)
            if kind == "interstitial" and EXCLUDE_INT_NOMAP:
                keep = [M for M in pool if not su.nomap_region(crys, 0, sl, jn, M)]
                excluded[0] += len(pool) - len(keep)
                pool = keep
            step = 3
            for n in range(0, len(pool), step * (2 if quick else 1)):
                out.append({"recipe": rec, "chem": 0, "kind": kind, "k": k, "supers": pool[n:n + step]})
    return out


def run(ctx):
    ctx.known(check)
    ctx.corpus(check)
    base = catalogue_cases(ctx.quick)
    if EXCLUDE_INT_NOMAP and ctx.shard == 0:
        ctx.exclude("interstitial-nomap (catalogue supercells dropped)", excluded[0])
    ctx.cases([c for i, c in enumerate(base) if ctx.mine(i)], check, label="catalogue")
    ctx.given(cases(), check, quick=80, thorough=3000)
    if EXCLUDE_INT_NOMAP:
        ctx.exclude("interstitial-nomap (supercells dropped from generated pools)", su.COUNTERS["nomap_dropped"])


def replay(case):
    check(case)
