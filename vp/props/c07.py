"""C07  Results do not depend on the thermodynamic range beyond the interactions."""
import numpy as np
from hypothesis import strategies as st

from ..core import Violation, HarnessError, require, canon
from ..strategies import crystals as cs, vacancy as vs, data as dt

ID = "C07"
RULE = ("Hypothesis draws a crystal (1-3 vacancy sites, with and without origin states, 2D/3D), a percolating vacancy network, a pair "
        "(N, N+1) in {(1,2),(2,3)}, kT, and (prefactor, energy) for every tag class of the calculator with range N together with a random "
        "member tag per class; the same tag dictionary is given to both calculators through tags2preene -> preene2betafree -> Lij. "
        "Oracle (differential): the four tensors agree to 1e-8 * scale (both calculators evaluate the same Green function; only the "
        "star/vector-star machinery differs).  Non-trivial: some binding energy != 0 and non-uniform site energies or >= 2 classes of "
        "transitions with data off the default; distinct by (crystal, network, N, tag data).")
ASSUMPTIONS = ["missing transitions of the larger calculator are back-filled by the package default (LIMB), as the statement says",
               "tolerance 1e-8 relative to max(|L0vv|,|tensor|); with origin states the bias correction enters through the k-mesh and the bound is decided by refinement"]
SHARDS = {"quick": 8, "thorough": 16}
TOL = 1e-8
CHEAP3 = ["SC", "BCC", "square", "tria", "honeycomb", "B2o", "rect2", "diamond"]
TYPES = (("vacancy", "V"), ("solute", "S"), ("solute-vacancy", "SV"), ("omega0", "T0"), ("omega1", "T1"), ("omega2", "T2"))


@st.composite
def cases(draw):
    if draw(st.floats(0, 1)) < 0.25:
        setup = draw(vs.setups(nthermo=(2,), names=CHEAP3, p_catalogue=1.0))
    else:
        setup = draw(vs.setups(nthermo=(1,)))
    return draw(vals_for(setup))


@st.composite
def vals_for(draw, setup):
    """tag-class values (prefactor, energy) for every class of the calculator of this setup, barriers positive"""
    crys, sl, jn, calc = vs.calculator(setup)
    kT = draw(st.sampled_from([0.5, 1.0, 2.0]))
    n = len(sl)
    vals = {}
    eneV = [draw(dt.energy(0., 1.5)) for _ in range(n)]
    eneS = [draw(dt.energy(0., 1.5)) for _ in range(n)]
    vals["vacancy"] = [[draw(dt.prefactor()), e] for e in eneV]
    vals["solute"] = [[draw(dt.prefactor()), e] for e in eneS]
    eneSV = [draw(dt.energy(-1., 1.)) for _ in range(calc.thermo.Nstars)]
    vals["solute-vacancy"] = [[draw(dt.prefactor()), e] for e in eneSV]
    eneT0 = [float(np.round(max(eneV[a], eneV[b]) + draw(dt.barrier(0.2, 2.0)), 4)) for (a, b) in calc.omega0vacancyWyckoff]
    vals["omega0"] = [[draw(dt.prefactor()), e] for e in eneT0]
    # total energies of the kinetic stars (for positive barriers)
    tot = np.array([eneS[s] + eneV[v] for (s, v) in calc.kineticsvWyckoff])
    for t, k in enumerate(calc.thermo2kin):
        tot[k] += eneSV[t]
    vals["omega1"] = [[draw(dt.prefactor()), float(np.round(max(tot[a], tot[b]) + draw(dt.barrier(0.2, 2.0)), 4))] for (a, b) in calc.om1_SP]
    vals["omega2"] = [[draw(dt.prefactor()), float(np.round(max(tot[a], tot[b]) + draw(dt.barrier(0.2, 2.0)), 4))] for (a, b) in calc.om2_SP]
    member = {t: [draw(st.integers(0, 10 ** 6)) for _ in calc.tags[t]] for t, _ in TYPES}
    return {"setup": setup, "kT": kT, "vals": vals, "member": member}


def tagdict(calc, case):
    d = {}
    for t, _ in TYPES:
        if len(case["vals"][t]) != len(calc.tags[t]):
            raise HarnessError("stale case: %s classes %d vs %d" % (t, len(case["vals"][t]), len(calc.tags[t])))
        for tags, (pre, ene), m in zip(calc.tags[t], case["vals"][t], case["member"][t]):
            d[tags[m % len(tags)]] = (pre, ene)
    return d


def evaluate(calc, usertags, kT):
    thermo = calc.tags2preene(usertags)
    return calc.Lij(*calc.preene2betafree(kT, **thermo))


def check(case):
    setup = case["setup"]
    crys, sl, jn, small = vs.calculator(setup)
    big_setup = dict(setup)
    big_setup["Nthermo"] = setup["Nthermo"] + 1
    _, _, _, big = vs.calculator(big_setup)
    usertags = tagdict(small, case)
    # every supplied tag must be known to the larger calculator too (same orbit, same tag text)
    unknown = [t for t in usertags if t not in big.tagdict]
    require(not unknown, lambda: "tags of the smaller calculator are not recognised by the larger one: %s" % unknown[:3])
    La = evaluate(small, usertags, case["kT"])
    Lb = evaluate(big, usertags, case["kT"])
    scale = np.abs(La[0]).max()
    classes = cs.describe(crys) + vs.describe(small) + ["pair%d%d" % (setup["Nthermo"], setup["Nthermo"] + 1)]

    def resid(pair):
        A, B = pair
        return max(np.abs(np.asarray(a) - np.asarray(b)).max() / max(scale, np.abs(a).max()) for a, b in zip(A, B))
    r = resid((La, Lb))
    if r > TOL:
        ok, r8 = (False, None)
        if vs.has_originstates(small) and r <= 1e-3:
            s8 = vs.calculator(setup, NGFmax=8)[3]
            b8 = vs.calculator(big_setup, NGFmax=8)[3]
            r8 = resid((evaluate(s8, usertags, case["kT"]), evaluate(b8, usertags, case["kT"])))
            ok = r8 <= max(TOL, vs.SHRINK * r)
            if ok:
                classes.append("integration_limited")
        if not ok:
            names = ["L0vv", "Lss", "Lsv", "L1vv"]
            worst = max(range(4), key=lambda k: np.abs(np.asarray(La[k]) - np.asarray(Lb[k])).max())
            raise Violation("Nthermo=%d and Nthermo=%d give different %s for the same tag data: relative difference %.3e (refined mesh: %s): %s vs %s"
                            % (setup["Nthermo"], setup["Nthermo"] + 1, names[worst], r, r8, np.asarray(La[worst]).tolist(), np.asarray(Lb[worst]).tolist()))
    v = case["vals"]
    nt = any(abs(e) > 0.05 for _, e in v["solute-vacancy"]) and (np.ptp([e for _, e in v["vacancy"]] + [0.]) > 0.05 or np.ptp([e for _, e in v["solute"]] + [0.]) > 0.05 or len(v["omega1"]) >= 2)
    return {"key": canon([vs.setup_key(setup), case["vals"], case["kT"]]), "nontrivial": bool(nt), "classes": classes,
            "sample": {"crystal": setup["recipe"]["name"], "basis": setup["recipe"]["basis"], "shell": setup["k"], "Nthermo_pair": [setup["Nthermo"], setup["Nthermo"] + 1],
                       "kT": case["kT"], "tags": {k: list(val) for k, val in list(usertags.items())[:6]}, "n_tags": len(usertags), "rel_difference": r}}


def run(ctx):
    ctx.corpus(check)
    ctx.given(cases(), check, quick=48, thorough=800, shrink=False)


def replay(case):
    check(case)
