"""C30  Automation tarballs are complete and self-consistent."""
import importlib
import importlib.util
import io
import json
import os
import shutil
import subprocess
import sys
import tarfile
import tempfile
import types

import numpy as np
from hypothesis import strategies as st

from ..core import Violation, HarnessError, require, canon
from ..strategies import crystals as cs, calcsetup as su
from ..oracles import setup_geom as sg
from . import c29

ID = "C30"
RULE = ("Hypothesis draws a calculator setup exactly as C29 does (small 3D crystal, Interstitial or VacancyMediated Nthermo=1, one supercell "
        "matrix from n*I, anisotropic, non-diagonal, skewed and left-handed ones) plus archive options (basedir, with/without KPOINTS, "
        "with/without the YAML dump, plain or gzip stream); makesupercells output is written by automator.supercelltar into an in-memory "
        "tar and re-read with tarfile. Oracle: tags.json is a bijection between the archive's directories and the state/transition tags "
        "(states under relax.*, transitions under neb.*); every POSCAR/POS file parsed by an independent reader equals the supercell's ordered "
        "atom list and lattice, and POSCAR_occ into a fresh supercell gives the same occupation and ordering; for every recorded mapping the "
        "archive's own trans.pl is run by perl on the archive's trans.init/final and the named state's POSCAR (standing for the relaxed "
        "CONTCAR) and its output must have the endpoint's lattice, counts and positions modulo 1 in order (1e-9); every explicit Makefile "
        "rule's prerequisites exist in the archive or are relax.NN/CONTCAR of an archived state directory, every neb directory's POSCAR.init "
        "and POSCAR.final either exist or are targets of such a rule, and (when make is installed) `make` on the extracted tree with "
        "CONTCAR:=POSCAR regenerates the endpoint. Non-trivial: at least one transformation executed by perl and compared; distinct by "
        "(crystal, species, kind, cutoff, supercell, options).")
ASSUMPTIONS = ["inputs are the superdicts of C29's generator (same preconditions: 3D, percolating network for the vacancy-mediated calculator)",
               "the relaxed structure is represented by the unrelaxed POSCAR of the state (a relaxation preserves order and periodic cell)",
               "perl is installed; positions are printed with 16 decimals so agreement is asserted at 1e-9 modulo 1; POSCAR text vs supercell at 1e-12",
               "default directory names (relax./neb./{:02d}); the YAML dump is requested only for supercells of <= 16 cells (it costs seconds for larger ones) and must then simply be written",
               "while EXCLUDE_R9 is True the module is loaded with a stub pkg_resources (import pkg_resources fails in this environment: known finding R9); with the flag False the plain import is required",
               "(interstitial calculator, supercell) pairs in the region of the C29 finding interstitial-nomap are not generated while c29.EXCLUDE_INT_NOMAP is True (their transmapping tuples are malformed)"]
SHARDS = {"quick": 4, "thorough": 16}

# Known finding R9: `import pkg_resources` at the top of onsager/automator.py raises ModuleNotFoundError (no setuptools
# pkg_resources in this environment), i.e. the property fails for every input.  While the flag is True the generator does
# not ask for the plain import (cases carry plain_import=False) and the module is loaded from its source file with a stub
# `pkg_resources` placed in sys.modules for the duration of the import only.  Flip to False once /repo is repaired.
EXCLUDE_R9 = False  # repaired in /repo (3198581)

POSCAR_TOL = 1e-12
PERL_TOL = 1e-9
MARKER = "# structure of NEB runs:"
DRIVER = r"""use strict; use warnings; no warnings 'redefine';
my $script = shift @ARGV;
my @jobs = @ARGV;
while (@jobs) {
    my ($t, $c, $o) = splice(@jobs, 0, 3);
    local @ARGV = ($t, $c);
    open(my $save, '>&', \*STDOUT) or die "dup: $!";
    open(STDOUT, '>', $o) or die "cannot write $o: $!";
    my $ret = do $script;
    my $err = $@;
    close(STDOUT);
    open(STDOUT, '>&', $save) or die "restore: $!";
    if ($err) { print STDERR "FAILED on $t: $err"; exit 3; }
    if (!defined($ret) && $!{ENOENT}) { print STDERR "cannot run $script: $!"; exit 4; }
}
"""


# ------------------------------------------------------------------------------------------------
# loading the module under test
# ------------------------------------------------------------------------------------------------
_auto = {}


def _package_dir():
    import onsager
    return os.path.dirname(os.path.abspath(onsager.__file__))


def load_automator(plain):
    """the automator module; plain=True: ordinary import (a failure is a violation of the property for every input);
    plain=False: ordinary import if it works, else the source file executed with a stub pkg_resources"""
    if plain in _auto:
        return _auto[plain]
    try:
        mod = importlib.import_module("onsager.automator")
    except ImportError as e:
        sys.modules.pop("onsager.automator", None)
        if plain:
            raise Violation("onsager.automator cannot be imported: %s: %s" % (type(e).__name__, e))
        if not EXCLUDE_R9:
            raise HarnessError("stub loading of automator requested although EXCLUDE_R9 is False")
        pkgdir = _package_dir()
        stub = types.ModuleType("pkg_resources")

        def resource_string(package, name):
            with open(os.path.join(pkgdir, name), "rb") as f:
                return f.read()
        stub.resource_string = resource_string
        spec = importlib.util.spec_from_file_location("onsager.automator", os.path.join(pkgdir, "automator.py"))
        mod = importlib.util.module_from_spec(spec)
        saved = sys.modules.get("pkg_resources")
        sys.modules["pkg_resources"] = stub
        try:
            spec.loader.exec_module(mod)
        finally:
            if saved is None:
                sys.modules.pop("pkg_resources", None)
            else:
                sys.modules["pkg_resources"] = saved
    _auto[plain] = mod
    return mod


# ------------------------------------------------------------------------------------------------
@st.composite
def cases(draw):
    s = draw(su.setups(nsupers=(1, 1), exclude_nomap=c29.EXCLUDE_INT_NOMAP))
    M = s.pop("supers")[0]
    s["super"] = M
    s["opts"] = {"basedir": draw(st.sampled_from(["", "", "job", "a/b/"])), "kpoints": draw(st.booleans()),
                 "yaml": draw(st.booleans()) and abs(su.det(M)) <= 16, "gz": draw(st.booleans())}
    s["plain_import"] = not EXCLUDE_R9
    return s


def read_archive(data):
    with tarfile.open(fileobj=io.BytesIO(data), mode="r:*") as tar:
        members = tar.getmembers()
        names = [m.name for m in members]
        files, dirs, links = {}, [], {}
        for m in members:
            if m.isdir():
                dirs.append(m.name)
            elif m.issym():
                links[m.name] = m.linkname
            elif m.isfile():
                files[m.name] = (tar.extractfile(m).read().decode("ascii"), m.mode)
            else:
                raise Violation("archive member %r has unexpected type %r" % (m.name, m.type))
    return names, files, dirs, links


def compare_poscar(text, sup, A, what, title):
    """archive text == supercell, by an independent reader and by POSCAR_occ into a fresh supercell"""
    from onsager import supercell
    try:
        p = sg.parse_poscar(text)
    except (sg.GeomMismatch, ValueError, IndexError) as e:
        raise Violation("%s cannot be parsed as a POSCAR: %s" % (what, e))
    pl = c29.poslists_of(sup)
    require(p["name"].startswith(title), lambda: "%s: title line %r does not start with %r" % (what, p["name"], title))
    require(np.abs(p["lattice"] - A).max() <= POSCAR_TOL * max(1., np.abs(A).max()), lambda: "%s: lattice %s differs from the supercell lattice %s" % (what, p["lattice"].tolist(), A.tolist()))
    require(not p["trailing"], lambda: "%s: unexpected trailing lines %s" % (what, p["trailing"][:2]))
    bad = sg.ordered_mismatch(p["poslists"], pl, POSCAR_TOL)
    require(bad is None, lambda: "%s: atom list differs from the supercell (%s)" % (what, bad))
    fresh = supercell.Supercell(sup.crys, np.array(sup.superlatt, dtype=int), interstitial=tuple(sup.interstitial), Nsolute=sup.Nchem - sup.crys.Nchem, NOSYM=True)
    name = fresh.POSCAR_occ(text)
    require(np.array_equal(np.asarray(fresh.occ), np.asarray(sup.occ)) and [list(map(int, c)) for c in fresh.chemorder] == [list(map(int, c)) for c in sup.chemorder],
            lambda: "%s: POSCAR_occ into a fresh supercell does not reproduce the occupation/order of the given supercell" % what)
    require(str(name).startswith(title), lambda: "%s: POSCAR_occ returns the name %r" % (what, name))
    return p


def parse_trans(text, what):
    lines = text.split("\n")
    require(len(lines) >= 6 and text.endswith("\n"), "%s: expected six lines and a trailing newline" % what)
    try:
        rot = np.array([[int(x) for x in lines[1 + i].split()] for i in range(3)])
        trans = np.array([float(x) for x in lines[4].split()])
        flat = [int(x) for x in lines[5].split()]
    except ValueError as e:
        raise Violation("%s: cannot parse (%s)" % (what, e))
    require(rot.shape == (3, 3) and trans.shape == (3,), "%s: malformed rotation/translation" % what)
    return lines[0], rot, trans, flat


def check(case):
    auto = load_automator(bool(case["plain_import"]))
    crys, sl, jn, calc = su.calculator(case)
    M, opts = case["super"], case["opts"]
    sd, small, _ = su.make_superdict(calc, M)
    A = np.asarray(crys.lattice, dtype=float) @ np.array(M, dtype=float)
    kw = {"timestamp": 0, "basedir": opts["basedir"]}
    if not opts["kpoints"]:
        kw["KPOINTS"] = None
    if not opts["yaml"]:
        kw["YAMLdef"] = None
    buf = io.BytesIO()
    with tarfile.open(fileobj=buf, mode="w:gz" if opts["gz"] else "w") as tar:
        auto.supercelltar(tar, sd, **kw)
    names, files, dirs, links = read_archive(buf.getvalue())
    # writing is a read-only use of the supercell dictionary: a second archive written from the same dictionary (say, with another
    # KPOINTS setting) must contain the same files
    buf2 = io.BytesIO()
    with tarfile.open(fileobj=buf2, mode="w") as tar:
        auto.supercelltar(tar, sd, **kw)
    names2, files2, dirs2, links2 = read_archive(buf2.getvalue())
    require(sorted(names2) == sorted(names), "a second archive written from the same dictionary has other member names")
    for n in files:
        require(files2[n][0] == files[n][0], lambda: "a second archive written from the same dictionary differs in %s (the first write changed the dictionary)" % n)
    base = opts["basedir"]
    if base and not base.endswith("/"):
        base += "/"
    classes = [case["kind"], "basedir" if base else "nobasedir", "gz" if opts["gz"] else "plain_tar", "kpoints" if opts["kpoints"] else "nokpoints",
               "yaml" if opts["yaml"] else "noyaml", "super_" + su.label(M)]
    require(len(set(names)) == len(names), lambda: "archive contains duplicate member names: %s" % sorted(n for n in set(names) if names.count(n) > 1)[:4])
    require(all(n.startswith(base) for n in names), "members outside basedir %r" % base)

    def rel(n):
        return n[len(base):]
    F = {rel(n): v[0] for n, v in files.items()}
    D = [rel(n) for n in dirs]
    for need in ("Makefile", "tags.json", "trans.pl", "nebmake.pl", "Vasp.pm", "INCAR.relax", "INCAR.NEB"):
        require(need in F, "archive lacks %s" % need)
    require(("KPOINTS" in F) == bool(opts["kpoints"]), "KPOINTS presence does not follow the option")
    require(("supercell.yaml" in F) == bool(opts["yaml"]), "supercell.yaml presence does not follow the option")
    require(F["trans.pl"] == open(os.path.join(_package_dir(), "trans.pl")).read(), "archived trans.pl differs from the packaged script")

    # ---- tag map: bijection between directories and tags
    try:
        tagmap = json.loads(F["tags.json"])
    except ValueError as e:
        raise Violation("tags.json is not JSON: %s" % e)
    require(isinstance(tagmap, dict) and all(isinstance(v, str) for v in tagmap.values()), "tags.json is not a dictionary of strings")
    require(sorted(tagmap) == sorted(D), lambda: "tags.json keys %s differ from the archive's directories %s" % (sorted(tagmap)[:6], sorted(D)[:6]))
    alltags = list(sd["states"]) + list(sd["transitions"])
    require(len(set(tagmap.values())) == len(tagmap) and sorted(tagmap.values()) == sorted(alltags),
            lambda: "tags.json values are not exactly the state and transition tags (%d entries for %d tags)" % (len(tagmap), len(alltags)))
    dirof = {t: d for d, t in tagmap.items()}
    for t in sd["states"]:
        require(dirof[t].startswith("relax."), lambda: "state %r is filed under %r" % (t, dirof[t]))
    for t in sd["transitions"]:
        require(dirof[t].startswith("neb."), lambda: "transition %r is filed under %r" % (t, dirof[t]))

    # ---- POSCAR files read back to the supercells
    if "reference" in sd:
        require("POSCAR" in F, "reference POSCAR missing")
        compare_poscar(F["POSCAR"], sd["reference"], A, "reference POSCAR", "Defect-free reference")
    for t, sup in sd["states"].items():
        fn = dirof[t] + "/POSCAR"
        require(fn in F, lambda: "%s missing" % fn)
        compare_poscar(F[fn], sup, A, fn, t)
    endpoints = []  # (tag, dir, which, label, mapping entry, supercell)
    for t, (s0, s1) in sd["transitions"].items():
        tm = sd["transmapping"][t]
        require(len(tm) == 2, lambda: "transmapping[%r] has %d entries" % (t, len(tm)))
        for which, (lab, sup, title) in enumerate((("init", s0, "initial " + t), ("final", s1, "final " + t))):
            m = tm[which]
            have, other = ("POS.", "POSCAR.") if m is not None else ("POSCAR.", "POS.")
            fn = dirof[t] + "/" + have + lab
            require(fn in F, lambda: "%s missing (mapping %s)" % (fn, "recorded" if m is not None else "absent"))
            require(dirof[t] + "/" + other + lab not in F, lambda: "both POS.%s and POSCAR.%s present in %s" % (lab, lab, dirof[t]))
            compare_poscar(F[fn], sup, A, fn, title)
            require((dirof[t] + "/trans." + lab in F) == (m is not None), lambda: "%s/trans.%s presence does not follow the mapping" % (dirof[t], lab))
            endpoints.append((t, dirof[t], which, lab, m, sup))

    # ---- Makefile
    mk = F["Makefile"]
    require(MARKER in mk, "Makefile lacks the rule section")
    rules = {}
    for line in mk.split(MARKER, 1)[1].split("\n"):
        if not line.strip():
            continue
        require(":" in line and not line.startswith("\t"), lambda: "unexpected Makefile line %r" % line)
        target, pre = line.split(":", 1)
        require(target.strip() not in rules, lambda: "two rules for %s" % target)
        rules[target.strip()] = pre.split()
    statedirs = set(dirof[t] for t in sd["states"])
    for target, pre in rules.items():
        for x in pre:
            produced = x.endswith("/CONTCAR") and x[:-len("/CONTCAR")] in statedirs
            require(x in F or produced, lambda: "Makefile rule for %s needs %s, which is neither in the archive nor the CONTCAR of a state directory" % (target, x))
    for (t, d, which, lab, m, sup) in endpoints:
        target = d + "/POSCAR." + lab
        if m is None:
            require(target in F and target not in rules, lambda: "%s has no mapping but is not shipped as a file" % target)
        else:
            require(target in rules, lambda: "%s has to be generated but the Makefile has no rule for it" % target)
            require(sorted(rules[target]) == sorted([d + "/trans." + lab, dirof[m[0]] + "/CONTCAR"]),
                    lambda: "rule for %s has prerequisites %s, expected the transformation file and the CONTCAR of state %r (%s)" % (target, rules[target], m[0], dirof[m[0]]))
    require(set(rules) <= set(d + "/POSCAR." + lab for (_, d, _, lab, _, _) in endpoints), "Makefile has rules for unknown targets")

    # ---- run the bundled script
    mapped = [e for e in endpoints if e[4] is not None]
    nrun = 0
    nmake = 0
    if mapped:
        perl = shutil.which("perl")
        if perl is None:
            raise HarnessError("perl is not installed")
        make = shutil.which("make")
        tmp = tempfile.mkdtemp(prefix="verif-c30-")
        try:
            script = os.path.join(tmp, "trans.pl")
            with open(script, "w") as f:
                f.write(F["trans.pl"])
            # all transformations in ONE perl process (spawning costs 0.1-0.2 s here): the driver executes the bundled file once
            # per job with @ARGV = (transformation file, CONTCAR) and STDOUT redirected, exactly what the command line does
            todo = mapped if len(mapped) <= 80 else mapped[:80]
            jobs = []
            for n, (t, d, which, lab, m, sup) in enumerate(todo):
                what = "%s/trans.%s" % (d, lab)
                first, rot, trans, flat = parse_trans(F[what], what)
                require(first == dirof[m[0]], lambda: "%s names %r, the state %r lives in %s" % (what, first, m[0], dirof[m[0]]))
                tf, cf, of = [os.path.join(tmp, "%s%03d" % (x, n)) for x in ("trans", "CONTCAR", "out")]
                with open(tf, "w") as f:
                    f.write(F[what])
                with open(cf, "w") as f:
                    f.write(F[dirof[m[0]] + "/POSCAR"])
                jobs += [tf, cf, of]
            driver = os.path.join(tmp, "driver.pl")
            with open(driver, "w") as f:
                f.write(DRIVER)
            r = subprocess.run([perl, driver, script] + jobs, capture_output=True, text=True)
            require(r.returncode == 0, lambda: "perl trans.pl failed: %s" % r.stderr[-400:])
            for n, (t, d, which, lab, m, sup) in enumerate(todo):
                what = "%s/trans.%s" % (d, lab)
                with open(os.path.join(tmp, "out%03d" % n)) as f:
                    stdout = f.read()
                try:
                    out = sg.parse_poscar(stdout)
                except (sg.GeomMismatch, ValueError, IndexError) as e:
                    raise Violation("output of trans.pl on %s is not a POSCAR: %s; stderr %s" % (what, e, r.stderr[:200]))
                pl = c29.poslists_of(sup)
                require(np.abs(out["lattice"] - A).max() <= PERL_TOL * max(1., np.abs(A).max()), "trans.pl on %s changes the lattice" % what)
                bad = sg.ordered_mismatch(out["poslists"], pl, PERL_TOL)
                require(bad is None, lambda: "trans.pl applied to %s and the POSCAR of %s does not reproduce the %s endpoint of %r (%s)"
                        % (what, dirof[m[0]], lab, t, bad))
                nrun += 1
            # the real command line, through the archive's Makefile when make is installed (CONTCAR := POSCAR of the state),
            # for one endpoint (the last one; the batch above covered all of them)
            (t, d, which, lab, m, sup) = mapped[-1]
            target = d + "/POSCAR." + lab
            root = os.path.join(tmp, "tree")
            need = {"Makefile": None, "trans.pl": None, d + "/trans." + lab: None, dirof[m[0]] + "/POSCAR": dirof[m[0]] + "/CONTCAR"}
            for src, dst in need.items():
                txt, mode = files[base + src]
                pth = os.path.join(root, dst or src)
                os.makedirs(os.path.dirname(pth), exist_ok=True)
                with open(pth, "w") as f:
                    f.write(txt)
                os.chmod(pth, mode | 0o600)
            if make is not None:
                r = subprocess.run([make, "-s", target], cwd=root, capture_output=True, text=True)
                require(r.returncode == 0, lambda: "make %s failed: %s" % (target, (r.stderr or r.stdout)[:300]))
                with open(os.path.join(root, target)) as f:
                    txt = f.read()
            else:
                r = subprocess.run([os.path.join(root, "trans.pl"), os.path.join(root, d, "trans." + lab), os.path.join(root, dirof[m[0]], "CONTCAR")], capture_output=True, text=True)
                require(r.returncode == 0, lambda: "./trans.pl failed: %s" % r.stderr[:300])
                txt = r.stdout
            try:
                out = sg.parse_poscar(txt)
            except (sg.GeomMismatch, ValueError, IndexError) as e:
                raise Violation("make %s did not produce a POSCAR: %s" % (target, e))
            bad = sg.ordered_mismatch(out["poslists"], c29.poslists_of(sup), PERL_TOL)
            require(bad is None, lambda: "make %s does not reproduce the %s endpoint of %r (%s)" % (target, lab, t, bad))
            nmake += 1
        finally:
            shutil.rmtree(tmp, ignore_errors=True)
    if nmake:
        classes.append("make_end_to_end")
    if any(e[4] is None for e in endpoints):
        classes.append("unmapped_endpoints")
    classes.append("transforms_%s" % ("0" if nrun == 0 else "1-9" if nrun < 10 else "10+"))
    classes += [c for c in cs.describe(crys) if c.startswith(("G", "natoms"))]
    return {"key": canon([case["recipe"]["lattice"], case["recipe"]["basis"], case["chem"], case["kind"], case["k"], M, opts]), "nontrivial": nrun > 0,
            "classes": classes,
            "sample": {"crystal": case["recipe"]["name"], "basis": case["recipe"]["basis"], "chem": case["chem"], "kind": case["kind"], "shell": case["k"], "super": M,
                       "opts": opts, "members": len(names), "directories": len(D), "transformations_run": nrun, "make_targets": nmake}}


def catalogue_cases(quick):
    out = []
    n = 0
    for c in c29.catalogue_cases(quick):
        for M in c["supers"]:
            n += 1
            if quick and n % 6 != 0:
                continue
            q = len(out)
            d = {k: v for k, v in c.items() if k != "supers"}
            d["super"] = M
            d["opts"] = {"basedir": ["", "job", "a/b/"][q % 3], "kpoints": q % 2 == 0, "yaml": abs(su.det(M)) <= 8 and q % 4 == 0, "gz": q % 5 == 0}
            d["plain_import"] = not EXCLUDE_R9
            out.append(d)
    return out


def run(ctx):
    ctx.known(check)
    if EXCLUDE_R9:
        ctx.note("R9", "plain `import onsager.automator` is not demanded (known finding); module loaded with a stub pkg_resources")
    ctx.corpus(check)
    base = catalogue_cases(ctx.quick)
    if EXCLUDE_R9:
        ctx.exclude("R9", len([1 for i in range(len(base)) if ctx.mine(i)]))
    ctx.cases([c for i, c in enumerate(base) if ctx.mine(i)], check, label="catalogue")
    n0 = ctx.evaluations
    ctx.given(cases(), check, quick=60, thorough=1500)
    if EXCLUDE_R9:
        ctx.exclude("R9", ctx.evaluations - n0)
    if c29.EXCLUDE_INT_NOMAP:
        ctx.exclude("interstitial-nomap (supercells dropped from generated pools)", su.COUNTERS["nomap_dropped"])


def replay(case):
    check(case)
