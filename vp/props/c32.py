"""C32  All cluster-expansion evaluators agree on every configuration."""
import numpy as np
from hypothesis import strategies as st

from ..core import Violation, HarnessError, require, canon
from ..strategies import crystals as cs, clusterexp as cxs
from ..oracles import cluster_ref as cref

ID = "C32"
RULE = ("A case is a cluster-expansion setup of strategies/clusterexp.py (3D crystal from the catalogue or generated, spectator and "
        "mobile species, integer supercell matrix incl. triangular/skew/negative-determinant ones, makeclusters at a brute-force "
        "shell cutoff with order <= 4, optional fixed vacancy with vacancy clusters appended, optional constant term, values from a "
        "pool of distinct irrational magnitudes, spectator occupation) plus either a list of mobile occupations (bit masks; all-empty "
        "and all-full always added) or the flag `exhaustive` (all 2^n occupations of the n<=12 non-vacancy mobile sites).  Oracle: "
        "cluster_ref places every cluster of every set at every lattice translation of the periodic supercell (own enumeration of "
        "Z^3/S Z^3), finds each site by explicit position lookup in the published mobilepos/specpos arrays, and multiplies "
        "occupations; a vacancy cluster is placed only where its vacancy site lands on the vacancy. Compared per occupation: "
        "evalcluster counts (exactly, per set) and energy, expandcluster_matrices counts, the clusterevaluator interaction list "
        "evaluated by its documented rule, MonteCarloSampler.start/E without and (when the setup has one) with a jump network. "
        "Non-trivial: >= 2 mobile sites, a set of order >= 2, and the occupations checked give >= 2 different reference energies; "
        "distinct by (setup, occupations).")
ASSUMPTIONS = ["the cluster sets are inputs produced by makeclusters / makeVacancyClusters (their correctness is C31's subject)",
               "energies are compared with tolerance 1e-10 * (|const| N + sum over placements of |value|): every evaluator adds the same "
               "<= few thousand terms in a different order, so differences are pure summation round-off; counts are compared exactly",
               "supercell matrices come from the families accepted by Supercell.maketrans (see clusterexp.supercells)",
               "with a vacancy the mobile occupation carries -1 at the vacancy site, as MonteCarloSampler.start requires"]
SHARDS = {"quick": 4, "thorough": 16}
TOL = 1e-10

MAX_OCC_LIST = 6


MULTI = ["B2o", "L12", "L12m", "NbO", "FCCoct"]
_value = st.sampled_from(cxs.POOL)


def _fit(crys, k, order):
    """largest (k, order) not above the request whose total cluster count stays below clusterexp.MAX_CLUSTERS"""
    while cxs.nclusters(cxs.plain_clusters(crys, k, order)) > cxs.MAX_CLUSTERS and (k > 1 or order > 1):
        if order > 2:
            order -= 1
        elif k > 1:
            k -= 1
        else:
            order -= 1
    return k, order


@st.composite
def setups(draw, max_sites=12, max_order=4):
    """setup dicts in the schema of strategies/clusterexp.py, biased towards several species with spectators"""
    kind = draw(st.integers(0, 3))
    if kind <= 1:
        rec = draw(st.sampled_from(cs.catalogue(MULTI, 3)))
    elif kind == 2:
        rec = draw(st.sampled_from(cs.catalogue(cxs.NAMES3, 3)))
    else:
        rec = draw(cs.crystal_recipes(dim=3, max_species=3, max_mobile=3, max_other=3))
    try:
        crys = cs.build(rec)
    except ArithmeticError as e:
        if "Reduction did not produce" not in str(e):
            raise
        # Crystal() rejects the generated recipe (cell reduction, subject of C19): fall back to a catalogue structure
        rec = cs.CATALOGUE["B2o"]
        crys = cs.build(rec)
    nsp = len(crys.basis)
    chem = draw(st.integers(0, nsp - 1))
    others = [c for c in range(nsp) if c != chem]
    spectator = []
    if others and draw(st.integers(0, 3)) > 0:
        spectator = sorted(draw(st.sets(st.sampled_from(others), min_size=1, max_size=len(others))))
    nmob = sum(len(crys.basis[c]) for c in range(nsp) if c not in spectator)
    if nmob > max_sites:
        spectator, nmob = others, len(crys.basis[chem])
    S = draw(cxs.supercells(max(1, max_sites // nmob)))
    size = abs(int(round(np.linalg.det(np.array(S)))))
    k, order = _fit(crys, draw(st.sampled_from([1, 1, 2, 2, 3])), draw(st.sampled_from([o for o in (1, 2, 2, 2, 3, 3, 3, 3, 4, 4) if o <= max_order])))
    nspec = sum(len(crys.basis[c]) for c in spectator) * size
    socc = [draw(st.integers(0, 1)) for _ in range(nspec)]
    const = draw(st.booleans())
    setup = {"recipe": rec, "chem": chem, "spectator": spectator, "super": S, "cl_shell": k, "order": order, "socc": socc, "const": const,
             "jn_shell": 0, "kra": 0., "ts": False, "tsvalues": [], "vacancy": None, "vaccl": False}
    if draw(st.integers(0, 2)) == 0:
        setup["vacancy"] = draw(st.integers(0, len(crys.basis[chem]) * size - 1))
        setup["vaccl"] = draw(st.integers(0, 3)) > 0
    ncl = len(cxs.plain_clusters(crys, k, order)) + (len(cxs.vacancy_clusters(crys, chem, k, order)) if setup["vaccl"] else 0)
    setup["values"] = [draw(_value) for _ in range(ncl + (1 if const else 0))]
    if draw(st.integers(0, 3)) == 0:
        # the sampler built with a jump network must report the same energy
        from ..strategies import networks as nw
        sl, jnet, cut = nw.network(crys, chem, 1)
        if jnet and sum(len(j) for j in jnet) <= 40:
            setup["jn_shell"] = 1
            setup["kra"] = draw(st.sampled_from([0., 0.7312]))
            if draw(st.booleans()) and (setup["vacancy"] is None or setup["vaccl"]):
                ts = cxs.ts_clusters(crys, chem, k, order, 1, setup["vacancy"] is not None)
                if 0 < cxs.nclusters(ts) <= 2 * cxs.MAX_CLUSTERS:
                    setup["ts"] = True
                    setup["tsvalues"] = [draw(_value) for _ in ts]
    return setup


@st.composite
def cases(draw, max_sites=12, exhaustive=False, max_order=4, own=True):
    if own:
        setup = draw(setups(max_sites=max_sites, max_order=max_order))
    else:
        # catalogue structures only: the shared generator builds crystals while drawing
        setup = draw(cxs.setups(max_sites=max_sites, jn="maybe", vacancy="maybe", max_order=max_order, p_catalogue=1.0))
    b = cxs.build(setup)
    n = b.nsites
    if exhaustive:
        return {"setup": setup, "exhaustive": True}
    occs = draw(st.lists(st.integers(0, 2 ** n - 1), min_size=1, max_size=MAX_OCC_LIST))
    return {"setup": setup, "occs": occs}


def _bits(masks, n):
    return np.array([[(int(m) >> k) & 1 for k in range(n)] for m in masks], dtype=np.int64).reshape(len(masks), n)


def occupations(case, b):
    """array (nocc, nsites) of 0/1 with -1 at the vacancy"""
    n = b.nsites
    free = b.free_sites()
    if case.get("exhaustive"):
        if len(free) > 12:
            raise HarnessError("exhaustive case with more than 12 free mobile sites")
        occ = np.zeros((2 ** len(free), n), dtype=np.int64)
        m = np.arange(2 ** len(free))
        for k, site in enumerate(free):
            occ[:, site] = (m >> k) & 1
    else:
        masks = [int(x) for x in case["occs"]] + [0, 2 ** n - 1]
        occ = _bits(masks, n)
    if b.vacancy is not None:
        occ[:, b.vacancy] = -1
    return occ


def matrix_counts(mats, ngroups, occ):
    """cluster counts from expandcluster_matrices by its documented rule: a row counts when all its indices are occupied (== 1);
    an empty row (no mobile site) always counts"""
    out = np.zeros(ngroups, dtype=np.int64)
    require(len(mats) == ngroups, "expandcluster_matrices returned %d lists for %d cluster sets" % (len(mats), ngroups))
    for m, lst in enumerate(mats):
        for mat in lst:
            mat = np.asarray(mat)
            if mat.ndim == 1:
                require(mat.size == 0, lambda: "expandcluster_matrices: one-dimensional non-empty index array %s" % mat.tolist())
                continue
            if mat.shape[1] == 0:
                out[m] += mat.shape[0]
            else:
                out[m] += int(np.sum(np.all(occ[mat] == 1, axis=1)))
    return out


def interaction_energy(siteinteract, interact, occ):
    """energy from clusterevaluator's output by the rule used by its consumers: an interaction is switched off by every
    unoccupied (== 0) site that lists it; the last entry is the constant"""
    cnt = np.zeros(len(interact), dtype=np.int64)
    for s, lst in zip(occ, siteinteract):
        if s == 0:
            for m in lst:
                cnt[m] += 1
    return float(sum(E for E, c in zip(interact, cnt) if c == 0))


def check(case):
    setup = case["setup"]
    b = cxs.build(setup)
    sup = b.supercell(b.vacancy)
    crys = b.crys
    S = np.array(setup["super"], dtype=int)
    basis = [[np.array(u, dtype=float) for u in sp] for sp in crys.basis]
    ngroups = len(b.clusters)
    const = float(b.values[-1]) if len(b.values) > ngroups else 0.
    vals = np.array(b.values[:ngroups], dtype=float)
    if len(b.values) not in (ngroups, ngroups + 1):
        raise HarnessError("values do not match the cluster sets")
    socc = b.socc
    occs = occupations(case, b)

    # ---- reference ---------------------------------------------------------------------------
    require(sup.mobilepos.shape[0] == b.nsites and sup.specpos.shape[0] == b.nspec, "mobilepos/specpos have the wrong number of rows")
    pos = {c: (sup.specpos if c in b.spectator else sup.mobilepos) for c in range(len(basis))}
    lookup = cref.Lookup(S, basis, pos)
    groups = [sorted((cref.from_library(cl) for cl in clset), key=lambda p: canon(p)) for clset in b.clusters]
    c0, rows, ncell = cref.expand_rows(groups, S, lookup, set(b.spectator), socc, b.vacancy)
    require(ncell == sup.size, "supercell size %d != |det| %d" % (sup.size, ncell))
    Nref = cref.counts(c0, rows, occs)
    Eref = Nref @ vals + const * ncell
    nplace = np.array(c0, dtype=float)
    for m, idx in rows:
        nplace[m] += 1
    scale = max(1., abs(const) * ncell + float(np.abs(vals) @ nplace))
    tol = TOL * scale

    # ---- library evaluators (built once per case) -----------------------------------------------
    vfull = np.append(vals, const)
    mats = sup.expandcluster_matrices(socc.copy(), b.clusters)
    siteinteract, interact = sup.clusterevaluator(socc.copy(), b.clusters, b.values.copy())
    require(len(siteinteract) == b.nsites, "clusterevaluator: siteinteract has %d entries for %d mobile sites" % (len(siteinteract), b.nsites))
    MC = b.sampler(jn=False)
    MCjn = b.sampler(jn=True) if b.jumpnetwork is not None else None
    worst = 0.

    def bad(name, occ, got, want):
        return "%s differs from the brute-force sum for occupation %s (spectators %s, vacancy %s): %s, reference %s" % (
            name, occ.tolist(), socc.tolist(), b.vacancy, got, want)

    for k in range(occs.shape[0]):
        occ = occs[k]
        cnt = np.asarray(sup.evalcluster(occ.copy(), socc.copy(), b.clusters))
        require(cnt.shape == (ngroups + 1,) and cnt[-1] == ncell, lambda: "evalcluster: count vector %s should have %d entries ending with the number of cells %d" % (cnt.tolist(), ngroups + 1, ncell))
        require(np.all(cnt[:-1] == Nref[k]), lambda: bad("evalcluster count vector", occ, cnt[:-1].tolist(), Nref[k].tolist()))
        Ea = float(vfull @ cnt)
        cm = matrix_counts(mats, ngroups, occ)
        require(np.all(cm == Nref[k]), lambda: bad("expandcluster_matrices count vector", occ, cm.tolist(), Nref[k].tolist()))
        Ec = interaction_energy(siteinteract, interact, occ)
        MC.start(occ.copy())
        Ed = float(MC.E())
        es = [("evalcluster . values", Ea), ("clusterevaluator interaction list", Ec), ("MonteCarloSampler.E", Ed)]
        if MCjn is not None:
            MCjn.start(occ.copy())
            es.append(("MonteCarloSampler(with jump network).E", float(MCjn.E())))
        for name, E in es:
            err = abs(E - Eref[k])
            worst = max(worst, err / scale)
            require(err <= tol, lambda: bad(name, occ, "%.12g" % E, "%.12g (difference %.3e, tolerance %.1e)" % (Eref[k], err, tol)))

    classes = cxs.describe(b) + cs.describe(crys)
    classes.append("exhaustive" if case.get("exhaustive") else "sampled_occupations")
    maxord = max(len(p[2]) + len(p[1]) for g in groups for p in g)
    classes.append("maxclusterorder%d" % maxord)
    # placements whose sites coincide in the periodic cell (a cluster wrapping onto itself), and index tuples hit several times
    if any(len(set(idx)) < len(idx) for m, idx in rows):
        classes.append("self_aliased_placement")
    tuples = [tuple(sorted(idx)) for m, idx in rows]
    if len(set(tuples)) < len(tuples):
        classes.append("repeated_index_tuple")
    if any(c for c in c0):
        classes.append("constant_from_spectator_clusters")
    if b.spectator and any(any(s[0] in b.spectator for s in p[2]) and any(s[0] not in b.spectator for s in p[2]) for g in groups for p in g):
        classes.append("mixed_spectator_mobile_cluster")
    nE = len(set(np.round(Eref / tol).astype(np.int64).tolist())) if occs.shape[0] else 0
    nt = len(b.free_sites()) >= 2 and maxord >= 2 and nE >= 2
    return {"key": canon([setup, case.get("occs"), bool(case.get("exhaustive"))]), "nontrivial": nt, "classes": classes,
            "sample": {"crystal": setup["recipe"]["name"], "basis": setup["recipe"]["basis"], "super": setup["super"], "spectator": setup["spectator"],
                       "vacancy": b.vacancy, "sets": [len(g) for g in groups], "values": b.values.tolist(), "socc": socc.tolist(),
                       "occupations": int(occs.shape[0]), "first_occ": occs[0].tolist(), "first_E": float(Eref[0]),
                       "distinct_energies": nE, "max_rel_diff": worst}}


def run(ctx):
    ctx.corpus(check)
    # bounded-exhaustive part: fixed catalogue of small supercells, every occupation
    nmax = 8 if ctx.quick else 12
    small = [{"setup": s, "exhaustive": True} for s in cxs.small_setups(max_sites=nmax, jn=True)]
    ok = ctx.cases([c for i, c in enumerate(small) if ctx.mine(i)], check, label="small-exhaustive")
    ctx.note("exhaustive_part", "all 2^n occupations of %d fixed setups with n <= %d free mobile sites" % (len(small), nmax))
    # generated setups, every occupation (n <= 7 quick, n <= 12 thorough)
    ctx.given(cases(max_sites=7 if ctx.quick else 12, exhaustive=True), check, quick=60, thorough=1600, salt=1, label="generated-exhaustive")
    # generated setups incl. larger supercells, sampled occupations
    ctx.given(cases(max_sites=12), check, quick=120, thorough=3000, salt=2)
    ctx.given(cases(max_sites=12, own=False), check, quick=40, thorough=1000, salt=4, label="shared-generator")
    ctx.given(cases(max_sites=48, max_order=3), check, quick=60, thorough=1500, salt=3, label="larger")


def replay(case):
    check(case)
