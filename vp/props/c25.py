"""C25  Vector-star bases are orthonormal, equivariant and complete; expansions reproduce projected direct assemblies."""
import os

import numpy as np
from hypothesis import strategies as st

from ..core import Violation, HarnessError, require, canon
from ..strategies import crystals as cs, pairs
from ..oracles import pairstates_ref as ref

ID = "C25"
RULE = ("Hypothesis draws a crystal recipe (2D/3D, generated or catalogue incl. crystals whose vacancy sites carry a vector basis, <= 3 vacancy "
        "sites), vacancy species, cutoff shell k in 1..3, range N in 1..3 (lowered by construction until <= 160 brute-force states and a bounded size of the dense expansion arrays), origin "
        "states (on in 3 of 4 cases) and lists of positive numbers used as Green-function values per difference orbit, symmetric rates per "
        "jump class and escape rates per (class, end star) and per (omega0 class, vacancy Wyckoff set). Oracle: states, operations and orbits "
        "from own integer arithmetic (oracles/pairstates_ref); each vector star must be a vector field on one complete star, the fields on a "
        "star must be orthonormal and equivariant (v(g.s) = R_g v(s) for every operation) and as many as the dimension of the stabiliser's "
        "invariant vector space (SVD); outer must be the summed outer products; GF, omega1/omega2 rate, bias and bare expansions contracted "
        "with the drawn numbers must equal the projection onto the basis of matrices/fields assembled state by state (exchange reference "
        "jumps to/from origin states included), the bias fields must be reproduced from their coefficients (completeness) and the "
        "origin-state fold-down must be the projection of site fields. Non-trivial: some star carries >= 2 vector stars or an origin-state "
        "star carries a vector star; distinct by (crystal, species, cutoff, N, origin).")
ASSUMPTIONS = ["the vacancy jump network and the omega1/omega2 jump lists handed to the expansions are the library's own (their correctness is C21/C26's subject); "
               "the direct assembly runs over exactly those lists",
               "Green-function values are equal for a difference and its reverse (the symmetrised Green function is symmetric); GFexpansion relies on it",
               "expansions are evaluated only for non-empty jump lists (VacancyMediated always has Nkinetic >= 2)",
               "rateexpansions(omega2=True): the diagonal (escape) entry of an origin-state vector star in the omega0 reference is not asserted: no docstring or test "
               "defines it, the library counts the escape once per vector star living on the partner state, and the plain count (once per jump) would make "
               "Lij's Dyson inversion singular (origin states fully decoupled), so neither value can be called the specification",
               "vectors compared to 1e-8 absolute (unit-length quantities; the library compares with 1e-8 thresholds and zero-cleans 1e-8), "
               "contracted expansions to 1e-7 x (number of classes) x largest rate (zeroclean removes coefficients below 1e-8)"]
SHARDS = {"quick": 4, "thorough": 16}
CAP = 160
COST = 3e6    # bound on Nv^2 x (GF stars or omega1 classes): the library cleans these arrays element by element in Python
VTOL = 1e-8
EXCLUDE_C2AXIS = False   # stars whose stabiliser has a two-fold axis along dx and no mirror: spurious, non-equivariant vector star


@st.composite
def cases(draw):
    c = draw(pairs.setups())
    c["origin"] = draw(st.sampled_from([True, True, True, False]))
    num = st.floats(0.1, 10.0, allow_nan=False).map(lambda x: float(np.round(x, 3)))
    c["gf"] = draw(st.lists(num, min_size=7, max_size=7))
    c["rates"] = draw(st.lists(num, min_size=11, max_size=11))
    c["escapes"] = draw(st.lists(num, min_size=13, max_size=13))
    return c


def keyset(S):
    return [(int(ps.i), int(ps.j)) + tuple(int(x) for x in ps.R) for ps in S.states]


def c2_axis_only(pg, s, stab):
    """True when the stabiliser of a non-zero state in 3D is exactly {identity, rotation by pi about dx}"""
    if pg.iszero(s) or pg.d != 3 or len(stab) != 2:
        return False
    for g in stab:
        C = pg.cartrot(g)
        if np.linalg.det(C) > 0 and abs(np.trace(C) + 1) < 1e-6:
            return True
    return False


def check(case, exclude=None):
    """exclude=None: follow the module flag; False: assert the full property (replays, known-finding witnesses)"""
    from onsager import crystalStars as stars
    crys, chem, sl, jn, pg, jcl, where = pairs.prepare(case)
    classes = cs.describe(crys)
    if not jn:
        return {"classes": classes + ["empty_network"], "nontrivial": False}
    jumps = [t for cl in jcl for t in cl]
    origin = bool(case["origin"])
    N, expected = ref.capped_range(pg, jumps, case["N"], CAP, origin)
    while N > 1 and pairs.basis_cost(pg, expected, jumps)[1] > COST:
        N -= 1
        expected = pg.reachable(jumps, N, origin)
    d = pg.d
    S = stars.StarSet(jn, crys, chem, N, originstates=origin)
    keys = keyset(S)
    if set(keys) != set(expected) or len(set(keys)) != len(keys):
        raise HarnessError("star set states differ from the brute-force set (C24 domain)")
    nst = len(keys)
    try:
        P = pg.permutations(keys)
    except ref.NotClosed as e:
        raise HarnessError("state set not closed under the group (C21 domain): %s" % e)
    orbs = pg.orbits_from_perms(P)
    oid = [0] * nst
    for k, o in enumerate(orbs):
        for a in o:
            oid[a] = k
    if set(frozenset(o) for o in orbs) != set(frozenset(st_) for st_ in S.stars):
        raise HarnessError("stars are not the brute-force orbits (C24 domain)")
    dims, c2flag = {}, {}
    for k, o in enumerate(orbs):
        dims[k], stab = pg.invariant_dim(keys[o[0]])
        c2flag[k] = c2_axis_only(pg, keys[o[0]], stab)
    # region of the known finding (excluded by construction behind the flag): count and equivariance are not asserted on such stars
    bad = set(k for k, f in c2flag.items() if f) if (EXCLUDE_C2AXIS if exclude is None else exclude) else set()
    if bad:
        classes.append("c2_axis_star(excluded)")

    V = stars.VectorStarSet(S)
    nv = V.Nvstars
    # an existing vector-star object re-generated for another star set must give the same basis as a fresh one
    # (the calculators regenerate their vector stars in place when the thermodynamic range changes)
    if S.Nshells >= 1:
        S1 = S.copy(empty=True)
        S1.generate(1, originstates=False)
        Vre = stars.VectorStarSet(S1)
        Vre.generate(S)
        require(Vre.Nvstars == nv and len(Vre.vecpos) == nv and len(Vre.vecvec) == nv and
                all(list(a) == list(b) for a, b in zip(Vre.vecpos, V.vecpos)) and
                all(np.abs(np.array(a) - np.array(b)).max() < 1e-12 for a, b in zip(Vre.vecvec, V.vecvec)),
                lambda: "a VectorStarSet re-generated for another star set differs from a fresh one (%d vs %d vector stars)" % (len(Vre.vecpos), nv))
    require(nv == len(V.vecpos) == len(V.vecvec), lambda: "Nvstars %s, len(vecpos) %d, len(vecvec) %d" % (nv, len(V.vecpos), len(V.vecvec)))
    # ---- 1. every vector star is a field on one complete star --------------------------------------
    F = np.zeros((nv, nst, d))       # F[n, a] = vector of vector star n on state a
    star_of = []
    for n in range(nv):
        pos, vec = V.vecpos[n], V.vecvec[n]
        require(len(pos) == len(vec), lambda: "vector star %d: %d positions, %d vectors" % (n, len(pos), len(vec)))
        require(len(set(pos)) == len(pos) and all(0 <= x < nst for x in pos), lambda: "vector star %d: repeated or invalid state indices %s" % (n, list(pos)[:6]))
        k = oid[pos[0]]
        require(sorted(pos) == sorted(orbs[k]), lambda: "vector star %d does not cover exactly one star: positions %s, star %s" % (n, sorted(pos)[:8], orbs[k][:8]))
        star_of.append(k)
        for x, v in zip(pos, vec):
            v = np.asarray(v, dtype=float)
            require(v.shape == (d,) and np.all(np.isfinite(v)), lambda: "vector star %d has a malformed vector %s" % (n, v))
            F[n, x] = v
    per = {}
    for n, k in enumerate(star_of):
        per.setdefault(k, []).append(n)
    # ---- 2. count = dimension of the stabiliser-invariant space -------------------------------------
    for k, o in enumerate(orbs):
        have = len(per.get(k, []))
        if k in bad:
            continue
        require(have == dims[k], lambda: "star of state %s (%d states, dx=%s) carries %d vector stars but the invariant space of its stabiliser has dimension %d"
                % (keys[o[0]], len(o), np.round(pg.dx(keys[o[0]]), 6).tolist(), have, dims[k]))
    # ---- 3. orthonormal ---------------------------------------------------------------------------------
    gram = np.einsum('nax,max->nm', F, F)
    err = np.abs(gram - np.eye(nv)).max() if nv else 0.
    require(err <= VTOL, lambda: "vector stars are not orthonormal: max |<v_n, v_m> - delta| = %.3e at %s" % (err, np.unravel_index(np.abs(gram - np.eye(nv)).argmax(), gram.shape)))
    # ---- 4. equivariant ---------------------------------------------------------------------------------
    for g in range(pg.nops):
        C = pg.cartrot(g)
        # field value on the image state must be the rotated value
        diff = F[:, P[g], :] - F @ C.T
        for n in range(nv):
            if star_of[n] in bad:
                diff[n] = 0.
        e = np.abs(diff).max() if nv else 0.
        if e > VTOL:
            n, a, _ = np.unravel_index(np.abs(diff).argmax(), diff.shape)
            raise Violation("vector star %d is not equivariant: v(g.s) != R_g v(s) for s=%s, g.s=%s, R_g=%s: %s vs %s"
                            % (n, keys[a], keys[P[g][a]], np.round(C, 6).tolist(), F[n, P[g][a]].tolist(), (C @ F[n, a]).tolist()))
    # ---- 5. outer products ------------------------------------------------------------------------------
    out = np.asarray(V.outer)
    require(out.shape == (d, d, nv, nv), lambda: "outer has shape %s" % (out.shape,))
    want = np.einsum('nax,may->xynm', F, F)
    for n in range(nv):
        for m in range(nv):
            if star_of[n] != star_of[m]:
                want[:, :, n, m] = 0.
    e = np.abs(out - want).max() if nv else 0.
    require(e <= 2e-8, lambda: "outer differs from the summed outer products of the vector stars by %.3e" % e)

    classes += ["N%d" % N, "origin" if origin else "noorigin", "sites%d" % pg.n,
                "states_%s" % ("le20" if nst <= 20 else "le60" if nst <= 60 else "gt60"),
                "maxvs_per_star%d" % max([len(v) for v in per.values()] + [0])]
    origin_vs = [n for n in range(nv) if pg.iszero(keys[V.vecpos[n][0]])]
    if origin_vs:
        classes.append("origin_vector_stars")
    if nv == 0:
        return {"key": canon([case["recipe"]["lattice"], case["recipe"]["basis"], chem, case["k"], N, origin]), "nontrivial": False, "classes": classes + ["no_vector_stars"]}

    # ---- 6. expansions -----------------------------------------------------------------------------------
    inv_w = {}
    for w, sites in enumerate(sl):
        for i in sites:
            inv_w[i] = w
    starof_state = oid
    rates, escs, gfv = case["rates"], case["escapes"], case["gf"]
    index = {s: a for a, s in enumerate(keys)}

    def proj_matrix(W):
        return sum(F[:, :, x] @ W @ F[:, :, x].T for x in range(d))

    def proj_field(b):
        return np.einsum('nax,ax->n', F, b)

    # 6a. Green function
    if nst <= 120:
        GFexp, GFS = V.GFexpansion()
        gkeys = keyset(GFS)
        gset = set(gkeys)
        # values per orbit of differences, identical for a difference and its reverse
        canon_of = {}

        def gvalue(ds):
            return canon_of[ds]
        diffs = {}
        for a, sa in enumerate(keys):
            for b, sb in enumerate(keys):
                if sa[0] == sb[0]:
                    diffs[(a, b)] = pg.endpoint_difference(sa, sb)
        alld = sorted(set(diffs.values()) | set(gkeys))
        c1_, c2_ = pg.canonical(alld), pg.canonical([pg.neg(x) for x in alld])
        for x, r1_, r2_ in zip(alld, c1_, c2_):
            canon_of[x] = min(r1_, r2_)
        reps = sorted(set(canon_of.values()))
        val = {r: pairs.values(gfv, n) for n, r in enumerate(reps)}
        G = np.zeros((nst, nst))
        for (a, b), ds in diffs.items():
            require(ds in gset, lambda: "GF star set lacks the endpoint difference %s" % (ds,))
            G[a, b] = val[gvalue(ds)]
        gvec = np.array([val[gvalue(gkeys[star[0]])] for star in GFS.stars])
        require(GFexp.shape == (nv, nv, GFS.Nstars), lambda: "GFexpansion has shape %s" % (GFexp.shape,))
        lib = GFexp @ gvec
        e = np.abs(lib - proj_matrix(G)).max()
        tol = 1e-7 * max(gfv) * 2 * max(1, GFS.Nstars)
        require(e <= tol, lambda: "GF expansion contracted with per-orbit values differs from the projected state-space Green matrix by %.3e (tol %.1e)" % (e, tol))
        classes.append("GF_checked")

    # 6b. omega1 / omega2
    def do_network(label, jnet, jt, sp, omega2):
        nk = len(jnet)
        n0 = len(jn)
        om = np.array([pairs.values(rates, k) for k in range(nk)])            # symmetric rate per class
        om0 = np.array([pairs.values(rates, 5 + k) for k in range(n0)])       # symmetric omega0 rate per omega0 class
        # escape rate per (class, star of the initial state); origin stars get a value too (arbitrary)
        ends = [sorted(set(starof_state[a] for (a, b), dx in jl)) for jl in jnet]

        def esc(k, star):
            return pairs.values(escs, 3 * k + (ends[k].index(star) if star in ends[k] else 2))
        # omega0 escape per (omega0 class, Wyckoff set of the vacancy site)
        def esc0(t, w):
            return pairs.values(escs, 7 + 2 * t + (w % 2))
        W1, W0 = np.zeros((nst, nst)), np.zeros((nst, nst))
        b1, b0 = np.zeros((nst, d)), np.zeros((nst, d))
        D1 = np.zeros((d, d))
        D0 = np.zeros((d, d))
        for k, jl in enumerate(jnet):
            t = jt[k]
            for (a, b), dx in jl:
                dx = np.asarray(dx, dtype=float)
                sa = keys[a]
                W1[a, b] += om[k]
                W1[a, a] -= esc(k, starof_state[a])
                b1[a] += esc(k, starof_state[a]) * dx
                D1 += 0.5 * om[k] * np.outer(dx, dx)
                D0 += 0.5 * om0[t] * np.outer(dx, dx)
                if not omega2:
                    W0[a, b] += om0[t]
                    W0[a, a] -= esc0(t, inv_w[sa[1]])
                    b0[a] += esc0(t, inv_w[sa[1]]) * dx
                else:
                    # reference process: the vacancy jumps onto the (empty) solute site = origin state of the solute's site, and back
                    W0[a, a] -= esc0(t, inv_w[sa[1]])
                    b0[a] += esc0(t, inv_w[sa[1]]) * dx
                    o = index.get(pg.zero(sa[0]))
                    if o is not None:
                        W0[a, o] += om0[t]
                        W0[o, a] += om0[t]
                        W0[o, o] -= esc0(t, inv_w[sa[0]])
                        b0[o] += esc0(t, inv_w[sa[0]]) * (-dx)
                        b1[o] += esc(k, starof_state[o]) * (-dx)
        r0, r0e, r1, r1e = V.rateexpansions(jnet, jt, omega2=omega2)
        require(r1.shape == (nv, nv, nk) and r1e.shape == (nv, nk) and r0.shape == (nv, nv, n0) and r0e.shape == (nv, n0),
                lambda: "%s rate expansions have shapes %s %s %s %s" % (label, r0.shape, r0e.shape, r1.shape, r1e.shape))
        big = max(max(rates), max(escs)) * 2
        lib1 = r1 @ om
        lib0 = r0 @ om0
        for n in range(nv):
            k_ = star_of[n]
            lib1[n, n] += sum(r1e[n, k] * esc(k, k_) for k in range(nk))
            wv = inv_w[keys[orbs[k_][0]][1]]
            lib0[n, n] += sum(r0e[n, t] * esc0(t, wv) for t in range(n0))
        e = np.abs(lib1 - proj_matrix(W1)).max()
        require(e <= 1e-7 * big * max(1, nk), lambda: "%s rate expansion (+ escape) differs from the projected state-space rate matrix by %.3e" % (label, e))
        dev0 = lib0 - proj_matrix(W0)
        if omega2:
            # the self term of an origin state in the exchange reference is not asserted (see ASSUMPTIONS)
            for n in origin_vs:
                dev0[n, n] = 0.
        e = np.abs(dev0).max()
        if e > 1e-7 * big * max(1, n0):
            n, m = np.unravel_index(np.abs(dev0).argmax(), lib0.shape)
            raise Violation("%s omega0-reference rate expansion (+ escape) differs from the projected state-space matrix by %.3e at vector stars (%d on %s, %d on %s): %s vs %s"
                            % (label, e, n, keys[V.vecpos[n][0]], m, keys[V.vecpos[m][0]], lib0[n, m], proj_matrix(W0)[n, m]))
        bb0, bb1 = V.biasexpansions(jnet, jt, omega2=omega2)
        require(bb1.shape == (nv, nk) and bb0.shape == (nv, n0), lambda: "%s bias expansions have shapes %s %s" % (label, bb0.shape, bb1.shape))
        c1 = np.array([sum(bb1[n, k] * esc(k, star_of[n]) for k in range(nk)) for n in range(nv)])
        c0 = np.array([sum(bb0[n, t] * esc0(t, inv_w[keys[orbs[star_of[n]][0]][1]]) for t in range(n0)) for n in range(nv)])
        for nm, c, b, cnt in (("bias", c1, b1, nk), ("omega0-reference bias", c0, b0, n0)):
            tolb = 1e-7 * big * max(1, cnt) * 4
            e = np.abs(c - proj_field(b)).max()
            require(e <= tolb, lambda: "%s %s expansion differs from the projection of the state-space bias field by %.3e" % (label, nm, e))
            rec = np.einsum('n,nax->ax', c, F)
            e = np.abs(rec - b).max()
            require(e <= tolb, lambda: "%s %s field is not reproduced by its vector-star coefficients (basis incomplete?): max deviation %.3e" % (label, nm, e))
        DD0, DD1 = V.bareexpansions(jnet, jt)
        require(DD1.shape == (d, d, nk) and DD0.shape == (d, d, n0), lambda: "%s bare expansions have shapes %s %s" % (label, DD0.shape, DD1.shape))
        e = max(np.abs(DD1 @ om - D1).max(), np.abs(DD0 @ om0 - D0).max())
        require(e <= 1e-7 * big * max(1, nk) * 4, lambda: "%s bare-diffusivity expansion differs from the direct sum over jumps by %.3e" % (label, e))

    om1 = S.jumpnetwork_omega1()
    om2 = S.jumpnetwork_omega2()
    if om1 and len(om1[0]) > 0:
        do_network("omega1", om1[0], om1[1], om1[2], False)
        classes.append("omega1_checked")
    else:
        classes.append("omega1_empty")
    if om2 and len(om2[0]) > 0:
        do_network("omega2", om2[0], om2[1], om2[2], True)
        classes.append("omega2_checked")
        if origin_vs:
            classes.append("omega2_with_origin_vector_stars")
        # the suite's convention (omega2=False): exchange jumps treated like any other jump list
        do_network("omega2-as-plain-list", om2[0], om2[1], om2[2], False)

    # 6c. origin-state fold-down: projection of site fields onto the basis
    for elem, col in (("solute", 0), ("vacancy", 1)):
        OSi, fold, OSVB = V.originstateVectorBasisfolddown(elem)
        require(list(OSi) == origin_vs, lambda: "fold-down(%s): origin-state vector stars %s, expected %s" % (elem, list(OSi), origin_vs))
        require(fold.shape == (len(origin_vs), nv) and OSVB.shape == (len(origin_vs), pg.n, d), lambda: "fold-down(%s) shapes %s %s" % (elem, fold.shape, OSVB.shape))
        for r, n in enumerate(origin_vs):
            site = np.zeros((pg.n, d))
            for i in range(pg.n):
                o = index.get(pg.zero(i))
                if o is not None:
                    site[i] = F[n, o]
            e = np.abs(OSVB[r] - site).max()
            require(e <= 2e-8, lambda: "fold-down(%s): OS_VB[%d] is not the origin-state vector field (%.3e)" % (elem, r, e))
            field = np.array([site[s[col]] for s in keys])
            e = np.abs(fold[r] - proj_field(field)).max()
            require(e <= 1e-7 * nst, lambda: "fold-down(%s) row %d differs from the projection of the site field by %.3e" % (elem, r, e))
            rec = np.einsum('n,nax->ax', fold[r], F)
            e = np.abs(rec - field).max()
            require(e <= 1e-7 * nst, lambda: "fold-down(%s): the site field of origin vector star %d is not reproduced by the basis (%.3e)" % (elem, r, e))
    if origin_vs:
        classes.append("folddown_checked")

    nt = max(len(v) for v in per.values()) >= 2 or bool(origin_vs)
    return {"key": canon([case["recipe"]["lattice"], case["recipe"]["basis"], chem, case["k"], N, origin]),
            "nontrivial": nt, "classes": classes,
            "sample": {"crystal": case["recipe"]["name"], "lattice": case["recipe"]["lattice"], "basis": case["recipe"]["basis"], "chem": chem,
                       "shell": case["k"], "N": N, "origin": origin, "Nstates": nst, "Nstars": len(orbs), "Nvstars": nv, "origin_vector_stars": len(origin_vs),
                       "gf": gfv, "rates": rates, "escapes": escs}}


def catalogue_cases():
    out = []
    for name in pairs.NAMES:
        for N in (1, 2):
            out.append({"recipe": cs.CATALOGUE[name], "chem_pick": 0, "k": 1, "N": N, "origin": True,
                        "gf": [0.7, 1.9, 0.31, 2.3, 1.1, 0.53, 3.7], "rates": [1.3, 0.45, 2.1, 0.9, 3.3, 0.62, 1.7, 0.28, 5.1, 0.81, 2.9],
                        "escapes": [0.9, 2.2, 0.37, 1.6, 4.1, 0.73, 1.21, 0.55, 3.1, 0.19, 2.6, 1.05, 0.47]})
    return out


def run(ctx):
    def chk(case):
        info = check(case)
        if "c2_axis_star(excluded)" in info.get("classes", ()):
            ctx.exclude("C25-c2-axis-vector-star")
        return info
    ctx.corpus(chk)
    ctx.known(lambda case: check(case, exclude=False))
    base = catalogue_cases()
    ctx.cases([c for i, c in enumerate(base) if ctx.mine(i)], chk, label="catalogue")
    ctx.given(cases(), chk, quick=160, thorough=5000, shrink=os.environ.get('VERIF_NOSHRINK') is None)


def replay(case):
    check(case, exclude=False)
