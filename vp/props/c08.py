"""C08  The two omega2 algorithms agree and stay finite for extreme rates."""
import numpy as np
from hypothesis import strategies as st

from ..core import Violation, HarnessError, require, canon, known_ids
from ..strategies import crystals as cs, vacancy as vs

ID = "C08"
RULE = ("Hypothesis draws a crystal, percolating vacancy network, Nthermo in {1,2}, random data with omega2 comparable to omega0, and a scale "
        "r0 in 1e-3..1e6 (log-uniform) and a unit of time (every rate x 1, 1e-6, 1e-12 or 1e6); all omega2 prefactors are multiplied by r (bFT2 -> bFT2 - ln r).  Oracles: (i) Lij(large_om2=0) "
        "[large-rate algorithm forced] vs Lij(large_om2=inf) [standard algorithm forced] at r0 agree to (1e-9 + 1e-14 r0) x scale; (ii) the "
        "default call at r in {1e8,1e10,1e12,1e14,1e16} returns finite tensors, symmetric where symmetry is forced; (iii) continuity across "
        "the default switch: at the smallest r of a decade ladder for which default == forced-large and != forced-standard, default and "
        "forced-standard differ by <= (1e-6 + 1e-14 r) x scale; (iv) smooth approach to the limit: |L(r) - L(1e9)| <= min(0.25, 1e-6 + 2e-15 r) x "
        "scale for r = 1e10..1e16.  Non-trivial: crystal with a site vector basis or >= 2 omega2 classes; distinct by (crystal, network, data, r0).")
ASSUMPTIONS = ["the standard algorithm loses digits linearly in r (measured 1e-17..1e-15 x r on FCC/HCP), hence the r-dependent tolerances",
               "scale = largest entry of the four tensors at r=1e9"]
SHARDS = {"quick": 4, "thorough": 16}
EXCLUDE_R13 = "R13" in known_ids("known")
EXCLUDE_R11 = "R11" in known_ids("known")   # origin states: L1vv diverges ~ r^2 in both algorithms
LADDER = [1e8, 1e10, 1e12, 1e14, 1e16]


def om2_joins_inequivalent_sites(calc):
    return any(calc.kineticsvWyckoff[a][0] != calc.kineticsvWyckoff[b][0] for (a, b) in calc.om2_SP)


EXCLUDE_R41 = "R41" in known_ids("known")


def low_symmetry_orbit(calc):
    """region of known finding R41: a single Wyckoff set of three or more sites whose stabiliser has order <= 4"""
    n = sum(len(w) for w in calc.sitelist)
    return len(calc.sitelist) == 1 and n >= 3 and len(calc.crys.G) <= 4 * n


@st.composite
def cases(draw):
    why = "R13"
    for _ in range(3):
        setup = draw(vs.setups(originstates="no" if EXCLUDE_R11 else "any"))
        crys, sl, jn, calc = vs.calculator(setup)
        if EXCLUDE_R41 and low_symmetry_orbit(calc):
            why = "R41"
            continue
        if not (EXCLUDE_R13 and om2_joins_inequivalent_sites(calc)):
            break
        why = "R13"
        setup["_r13"] = True
    else:
        setup = {"recipe": cs.CATALOGUE["HCP"], "chem": 0, "k": 1, "closest": 0, "Nthermo": 1, "redrawn": why}
        crys, sl, jn, calc = vs.calculator(setup)
    setup.pop("_r13", None)
    data = draw(vs.datasets(calc))
    lr0 = float(np.round(draw(st.floats(-3, 6)), 2))
    # unit of time: every rate multiplied by 10^u (the statement is about the exchange rate RELATIVE to the bare rates)
    return {"setup": setup, "data": data, "log10_r0": lr0, "log10_unit": draw(st.sampled_from([0, 0, -6, -12, 6]))}


def scaled(data, r):
    d = {k: list(v) for k, v in data.items()}
    d["bFT2"] = [x - np.log(r) for x in d["bFT2"]]
    return d


def check(case):
    from . import c03
    crys, sl, jn, calc = vs.calculator(case["setup"])
    data = case["data"]
    if not vs.sizes_ok(calc, data):
        raise HarnessError("stale case")
    u = case.get("log10_unit", 0)
    if u:
        sh = -u * np.log(10.)
        data = dict(data, bFT0=[x + sh for x in data["bFT0"]], bFT1=[x + sh for x in data["bFT1"]], bFT2=[x + sh for x in data["bFT2"]])
    r13 = om2_joins_inequivalent_sites(calc)
    classes = cs.describe(crys) + vs.describe(calc, data) + (["om2_joins_inequivalent_sites"] if r13 else []) + ["time_unit_1e%d" % u]
    if case["setup"].get("redrawn") == "R13":
        classes.append("excluded_R13_redrawn")
    if case["setup"].get("redrawn") == "R41":
        classes.append("excluded_R41_redrawn")
    if case["setup"].get("redrawn") == "originstates":
        classes.append("excluded_R11_redrawn")
    ref = calc.Lij(*vs.args(scaled(data, 1e9)))
    # scale: the largest of the four plateau tensors (with strong binding Lss, L1vv exceed L0vv by the state probability)
    scale = max(np.abs(np.asarray(T)).max() for T in ref)
    require(np.isfinite(scale), "omega2-scaling: non-finite tensors at r=1e9")
    names = ["L0vv", "Lss", "Lsv", "L1vv"]

    def diff(A, B):
        return max(np.abs(np.asarray(a) - np.asarray(b)).max() for a, b in zip(A, B)) / scale
    # (i) the two algorithms where the standard one is valid
    r0 = 10. ** case["log10_r0"]
    d0 = scaled(data, r0)
    A = calc.Lij(*vs.args(d0), large_om2=0.)
    B = calc.Lij(*vs.args(d0), large_om2=np.inf)
    for nm, T in zip(names, A):
        require(np.all(np.isfinite(T)), lambda: "omega2-scaling: forced large-omega2 algorithm returns non-finite %s at r=%.3g" % (nm, r0))
    # the threshold is a keyword: 0 and a tiny positive value (the form used in examples/LargeOmega2) both mean "always the
    # large-rate algorithm" and must therefore give the same numbers
    A1 = calc.Lij(*vs.args(d0), large_om2=1e-33)
    e01 = diff(A, A1)
    require(e01 <= 1e-12, lambda: "omega2-scaling: large_om2=0 and large_om2=1e-33 (both force the large-rate algorithm) differ by %.3e at r=%.3g; L1vv %s vs %s"
            % (e01, r0, np.asarray(A[3]).tolist(), np.asarray(A1[3]).tolist()))
    e = diff(A, B)
    tol = 1e-9 + 1e-14 * r0
    require(e <= tol, lambda: "omega2-scaling: large-omega2 and standard algorithms disagree at r=%.3g: relative difference %.3e > %.1e; e.g. Lss %s vs %s"
            % (r0, e, tol, np.asarray(A[1]).tolist(), np.asarray(B[1]).tolist()))
    # (ii)-(iv) default selection on the ladder
    G = list(crys.G)
    asym_ok = c03.antisymmetric_allowed(G)
    switch_checked = False
    prev_large = None
    for r in LADDER:
        dr = scaled(data, r)
        D = calc.Lij(*vs.args(dr))
        for nm, T in zip(names, D):
            T = np.asarray(T)
            require(np.all(np.isfinite(T)), lambda: "omega2-scaling: default algorithm returns non-finite %s at r=%.1e: %s" % (nm, r, T.tolist()))
            if not (nm == "Lsv" and asym_ok):
                a = np.abs(T - T.T).max() / max(scale, np.abs(T).max())
                require(a <= 1e-6 + 2e-15 * r, lambda: "omega2-scaling: default algorithm returns a non-symmetric %s at r=%.1e: %.3e" % (nm, r, a))
        if r >= 1e10:
            # Lss: the coefficient the large-rate algorithm is built for; the suite itself asserts 1e-6 at r=1e16.
            # Lsv, L1vv: float64 cancellation of O(r) terms leaves an error ~ eps*r (measured <= 2.2e-16 r on the unchanged
            # tree); largest amplification seen 2.8e-14 r (thorough tier); anything beyond 1e-13 r is a divergence.  The strict reading (every tensor within 0.25 of the plateau
            # up to 1e16) fails on the unchanged tree and is kept as known finding R18 (witness replayed with strict=True).
            for nm, T, Tr in zip(names, D, ref):
                e = np.abs(np.asarray(T) - np.asarray(Tr)).max() / scale
                bound = 1e-6 if nm in ("L0vv", "Lss") else 1e-6 + 1e-13 * r
                if case.get("strict"):
                    bound = min(bound, 0.25)
                require(e <= bound, lambda: "omega2-scaling: default %s at r=%.1e is %.3e (relative to the largest plateau tensor) away from the r=1e9 plateau "
                        "(bound %.2e): %s vs %s" % (nm, r, e, bound, np.asarray(T).tolist(), np.asarray(Tr).tolist()))
        if not switch_checked and r <= 1e12:
            S = calc.Lij(*vs.args(dr), large_om2=np.inf)
            Lg = calc.Lij(*vs.args(dr), large_om2=0.)
            is_large = diff(D, Lg) == 0. and diff(D, S) != 0.
            if is_large:
                e = diff(D, S)
                require(e <= 1e-6 + 1e-14 * r, lambda: "omega2-scaling: discontinuity at the default switch (r=%.1e): default(large) vs standard differ by %.3e" % (r, e))
                switch_checked = True
                classes.append("switch_at_%.0e" % r)
    nt = vs.has_originstates(calc) or len(calc.om2_jn) >= 2
    return {"key": canon([vs.setup_key(case["setup"]), data, case["log10_r0"]]), "nontrivial": bool(nt), "classes": classes,
            "sample": {"crystal": case["setup"]["recipe"]["name"], "basis": case["setup"]["recipe"]["basis"], "Nthermo": case["setup"]["Nthermo"], "log10_r0": case["log10_r0"],
                       "bFT2": data["bFT2"], "Lss_plateau": np.asarray(ref[1]).tolist()}}


def run(ctx):
    ctx.corpus(check)
    ctx.known(check)
    ctx.given(cases(), check, quick=60, thorough=2000, shrink=not ctx.quick)


def replay(case):
    check(case)
