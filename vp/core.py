"""Shared machinery: case recording, Hypothesis driving, replay files, evidence, known findings.

Every property module exposes
    ID, RULE, ASSUMPTIONS, run(ctx), replay(case)
and decides its property only through `ctx.given` (Hypothesis search), `ctx.cases` (corpus /
bounded-exhaustive enumeration) and `ctx.known` (committed witnesses of known findings).
A check function takes one JSON-able `case` and either returns an info dict
    {"key": <hashable canonical key>, "nontrivial": bool, "classes": [str, ...]}
or raises `Violation`.  Nothing in a check function may use randomness, clocks or dict order.
"""
import collections, hashlib, json, math, os, sys, time, traceback

import numpy as np

VERIF = os.path.dirname(os.path.dirname(os.path.abspath(__file__)))
REPO = os.environ.get("ONSAGER_REPO", "/repo")


class Violation(Exception):
    """The property under test does not hold for this case."""


class HarnessError(Exception):
    """The machinery itself is broken (oracle self-check failed, bad generator...). Exit code 2."""


def jsonable(x):
    if isinstance(x, dict):
        return {str(k): jsonable(v) for k, v in x.items()}
    if isinstance(x, (list, tuple, set, frozenset)):
        return [jsonable(v) for v in x]
    if isinstance(x, np.ndarray):
        return jsonable(x.tolist())
    if isinstance(x, (np.integer,)):
        return int(x)
    if isinstance(x, (np.floating,)):
        return float(x)
    if isinstance(x, (np.bool_,)):
        return bool(x)
    if isinstance(x, complex):
        return {"re": x.real, "im": x.imag}
    if isinstance(x, float) and (math.isnan(x) or math.isinf(x)):
        return repr(x)
    return x


def canon(x):
    return json.dumps(jsonable(x), sort_keys=True, separators=(",", ":"))


def digest(x):
    return hashlib.sha1(canon(x).encode()).hexdigest()[:16]


def library_frame(tb):
    """innermost frame of traceback inside the repository package, else None"""
    hit = None
    for fs in traceback.extract_tb(tb):
        fn = os.path.abspath(fs.filename)
        if os.sep + "onsager" + os.sep in fn and not fn.startswith(VERIF):
            hit = "%s:%s" % (os.path.basename(fn), fs.name)
    return hit


def innermost_is_harness(tb):
    fs = traceback.extract_tb(tb)
    if not fs:
        return True
    return os.path.abspath(fs[-1].filename).startswith(VERIF)


class Ctx(object):
    def __init__(self, pid, tier, seed, shard=0, nshards=1):
        self.id, self.tier, self.seed, self.shard, self.nshards = pid, tier, int(seed), shard, nshards
        self.evaluations = 0
        self.keys = set()
        self.classes = collections.Counter()
        self.samples = []
        self.sample_keys = set()
        self.excluded = collections.Counter()
        self.notes = {}
        self.violations = []  # (replay path, message)
        self.known_lines = []
        self.exhaustive = None
        self.t0 = time.time()
        self._last_fail = None
        self.max_samples = 6

    # ---- budgets / sharding ------------------------------------------------
    @property
    def quick(self):
        return self.tier == "quick"

    def budget(self, quick, thorough):
        n = quick if self.quick else thorough
        return max(1, int(math.ceil(n / float(self.nshards))))

    def mine(self, i):
        return i % self.nshards == self.shard

    def hseed(self, salt=0):
        return (self.seed * 64 + self.shard) * 1000 + salt

    # ---- recording ---------------------------------------------------------
    def record(self, case, info):
        self.evaluations += 1
        if info is None:
            info = {}
        for c in info.get("classes", ()):
            self.classes[c] += 1
        nt = bool(info.get("nontrivial", False))
        key = info.get("key", None)
        if key is None:
            key = digest(case)
        elif not isinstance(key, str):
            key = digest(key)
        if nt:
            self.keys.add(key)
            self.classes["_nontrivial"] += 1
        if (nt or len(self.samples) < 2) and len(self.samples) < self.max_samples and key not in self.sample_keys:
            self.sample_keys.add(key)
            s = info.get("sample", case)
            txt = canon(s)
            if len(txt) > 3000:
                s = {"truncated": txt[:3000]}
            self.samples.append(jsonable(s))

    def exclude(self, what, n=1):
        self.excluded[what] += n

    def note(self, k, v):
        self.notes[k] = jsonable(v)

    # ---- violation bookkeeping ----------------------------------------------
    def save_replay(self, case, message):
        d = os.path.join(VERIF, "replays", self.id)
        os.makedirs(d, exist_ok=True)
        path = os.path.join(d, digest(case) + ".json")
        with open(path, "w") as f:
            json.dump({"property": self.id, "message": str(message)[:4000], "case": jsonable(case)}, f, indent=1, sort_keys=True)
        return path

    def violation(self, case, message):
        path = self.save_replay(case, message)
        self.violations.append((path, str(message)))
        print("VIOLATION property=%s replay=%s" % (self.id, path))
        print("  detail: %s" % str(message)[:1500])
        sys.stdout.flush()

    def _wrap(self, fn):
        """classify exceptions of a check function: Violation stays, library exceptions on valid
        cases become Violations (bucketed by type and innermost library frame), harness exceptions
        propagate as HarnessError"""
        import hypothesis.errors as herr

        def inner(case):
            try:
                info = fn(case)
            except Violation as e:
                self._last_fail = (case, str(e))
                raise
            except (HarnessError, herr.HypothesisException, KeyboardInterrupt, MemoryError):
                raise
            except Exception as e:
                tb = sys.exc_info()[2]
                frame = library_frame(tb)
                if frame is None or innermost_is_harness(tb):
                    raise HarnessError("harness exception %s: %s\n%s" % (type(e).__name__, e, traceback.format_exc()))
                msg = "unexpected %s in %s: %s" % (type(e).__name__, frame, str(e)[:300])
                self._last_fail = (case, msg)
                raise Violation(msg)
            self.record(case, info)
            return info

        return inner

    # ---- drivers -------------------------------------------------------------
    def given(self, strategy, fn, quick, thorough=None, salt=0, shrink=True, label=None):
        """Hypothesis search for a counterexample of fn over strategy. Returns True if none found."""
        import hypothesis
        from hypothesis import HealthCheck, Phase, settings

        n = self.budget(quick, thorough if thorough is not None else quick)
        phases = [Phase.explicit, Phase.generate] + ([Phase.shrink] if shrink else [])
        wrapped = self._wrap(fn)
        self._last_fail = None

        @hypothesis.seed(self.hseed(salt))
        @settings(max_examples=n, database=None, deadline=None, derandomize=False, report_multiple_bugs=False,
                  phases=phases, suppress_health_check=list(HealthCheck), print_blob=False)
        @hypothesis.given(strategy)
        def test(case):
            wrapped(case)

        try:
            test()
        except Violation as e:
            case, msg = self._last_fail if self._last_fail is not None else (None, str(e))
            self.violation(case, "%s%s" % ("[%s] " % label if label else "", msg))
            return False
        except hypothesis.errors.Unsatisfiable as e:
            raise HarnessError("generator unsatisfiable: %s" % e)
        return True

    def cases(self, iterable, fn, label=None, stop_after=3):
        """deterministic list of cases (corpus, bounded-exhaustive enumeration); no shrinking needed"""
        wrapped = self._wrap(fn)
        nfail = 0
        for case in iterable:
            try:
                wrapped(case)
            except Violation as e:
                self.violation(case, "%s%s" % ("[%s] " % label if label else "", e))
                nfail += 1
                if nfail >= stop_after:
                    break
        return nfail == 0

    def corpus(self, fn, sub=None):
        d = os.path.join(VERIF, "corpus", self.id if sub is None else sub)
        if not os.path.isdir(d):
            return True
        items = []
        for name in sorted(os.listdir(d)):
            if name.endswith(".json") and not name.startswith("known-"):
                with open(os.path.join(d, name)) as f:
                    items.append(json.load(f)["case"])
        # every shard replays the corpus only once in total
        items = [c for i, c in enumerate(items) if self.mine(i)]
        return self.cases(items, fn, label="corpus")

    def known(self, fn):
        """replay witnesses of known (unrepaired) findings of this property: prints KNOWN-FINDING when
        the witness still fails as recorded; a different failure is a VIOLATION."""
        if self.shard != 0:
            return
        for ent in load_known():
            if ent.get("property") != self.id or ent.get("status") != "known":
                continue
            with open(os.path.join(VERIF, ent["witness"])) as f:
                case = json.load(f)["case"]
            try:
                try:
                    fn(case)
                except (Violation, HarnessError):
                    raise
                except Exception as ex:
                    tb = sys.exc_info()[2]
                    frame = library_frame(tb)
                    if frame is None or innermost_is_harness(tb):
                        raise
                    raise Violation("unexpected %s in %s: %s" % (type(ex).__name__, frame, str(ex)[:300]))
            except Violation as e:
                if ent["signature"] in str(e):
                    line = "KNOWN-FINDING: property=%s %s [%s]" % (self.id, ent["what"], ent["id"])
                    print(line)
                    self.known_lines.append(line)
                else:
                    self.violation(case, "known-finding witness %s fails differently: %s" % (ent["id"], e))
            else:
                print("NOTE: known finding %s (property %s) no longer reproduces on this tree" % (ent["id"], self.id))
            self.evaluations += 1

    # ---- evidence --------------------------------------------------------------
    def partial(self):
        return {
            "evaluations": self.evaluations, "keys": sorted(self.keys), "classes": dict(self.classes),
            "samples": self.samples, "excluded": dict(self.excluded), "notes": self.notes,
            "violations": self.violations, "known_lines": self.known_lines, "exhaustive": self.exhaustive,
            "wall_s": time.time() - self.t0,
        }


_known_cache = None


def load_known():
    global _known_cache
    if _known_cache is None:
        p = os.path.join(VERIF, "known_findings.json")
        _known_cache = json.load(open(p))["findings"] if os.path.exists(p) else []
    return _known_cache


def known_ids(status="known"):
    return set(e["id"] for e in load_known() if e.get("status") == status)


def merge_evidence(pid, tier, seed, module, parts, wall):
    keys = set()
    classes = collections.Counter()
    excluded = collections.Counter()
    samples, notes, viol, known = [], {}, [], []
    ev = 0
    exh = []
    for p in parts:
        ev += p["evaluations"]
        keys.update(p["keys"])
        classes.update(p["classes"])
        excluded.update(p["excluded"])
        for s in p["samples"]:
            if len(samples) < 8:
                samples.append(s)
        for k, v in p["notes"].items():
            notes.setdefault(k, v)
        viol += p["violations"]
        known += p["known_lines"]
        exh.append(p["exhaustive"])
    cov = {
        "evaluations": ev,
        "distinct_nontrivial": len(keys),
        "rule": module.RULE,
        "samples": samples,
        "class_histogram": dict(sorted(classes.items())),
        "excluded_by_known_findings": dict(excluded),
        "notes": notes,
        "shards": len(parts),
    }
    if exh and all(e is True for e in exh):
        cov["exhaustive"] = True
    if known:
        cov["known_findings_reported"] = known
    out = {
        "property_id": pid, "tier": tier, "seed": int(seed), "level": "exploration", "coverage": cov,
        "assumptions": list(getattr(module, "ASSUMPTIONS", [])), "wall_s": round(wall, 2), "violations": len(viol),
    }
    if viol:
        out["violation_replays"] = [v[0] for v in viol]
    return out


# ---- small numeric helpers shared by property modules ---------------------------
def relerr(a, b, scale=None):
    a, b = np.asarray(a, dtype=float), np.asarray(b, dtype=float)
    if scale is None:
        scale = max(np.abs(a).max() if a.size else 0., np.abs(b).max() if b.size else 0., 1e-300)
    return float(np.abs(a - b).max() / scale) if a.size else 0.


def require(cond, msg):
    if not cond:
        raise Violation(msg() if callable(msg) else msg)
