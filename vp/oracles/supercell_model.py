"""Reference model of a supercell, written from scratch (no onsager code inside).

Two parts:

1. `OccModel`: a dictionary model of the occupation (site -> species, -1 = vacant) and of the per-species
   presentation order (list of sites per species).  Its edit semantics are the documented ones: changing the
   species of a site removes the site from the list of the old species (the others keep their relative order)
   and appends it to the END of the list of the new species; writing the species a site already has changes
   nothing; an undeclared species (outside -1..Nchem-1) is refused and changes nothing.
2. Brute-force supercell geometry: coset representatives of Z^3 / M Z^3, the site layout, the permutation of
   the sites induced by an affine map (nearest-site search, no index arithmetic), orbits of the crystal's atoms
   under a list of (R, t), and a small POSCAR reader.

All positions are numpy arrays; supercell positions are direct coordinates of the supercell lattice
(lattice = crystal lattice @ M, columns are vectors).
"""
import itertools

import numpy as np

# Tolerance for "same position": positions are sums/products of a handful of O(1) doubles (errors ~1e-15),
# while distinct sites are at least 0.2 * (shortest lattice vector) apart by construction of the generators.
POS_TOL = 1e-6


class ModelError(Exception):
    """the model was asked to do something outside its preconditions (harness bug)"""


class OccModel(object):
    def __init__(self, nsites, nchem):
        self.n = int(nsites)
        self.nchem = int(nchem)
        self.occ = {i: -1 for i in range(self.n)}
        self.order = [[] for _ in range(self.nchem)]

    # ---- queries -----------------------------------------------------------
    def declared(self, c):
        """species that can be placed: vacancy (-1), crystal species, every declared solute"""
        return -1 <= c < self.nchem

    def state(self):
        return [self.occ[i] for i in range(self.n)], [list(l) for l in self.order]

    def clone(self):
        m = OccModel(self.n, self.nchem)
        m.occ = dict(self.occ)
        m.order = [list(l) for l in self.order]
        return m

    def counts(self):
        return [len(l) for l in self.order]

    def consistent(self):
        """self-check of the model: occ and order describe the same configuration"""
        seen = {}
        for c, l in enumerate(self.order):
            for i in l:
                if i in seen or self.occ[i] != c:
                    return False
                seen[i] = c
        return all((i in seen) == (self.occ[i] != -1) for i in range(self.n))

    # ---- edits -----------------------------------------------------------------
    def set(self, i, c):
        if not (0 <= i < self.n) or not self.declared(c):
            raise ModelError("set(%r, %r) outside the model's domain" % (i, c))
        old = self.occ[i]
        if old == c:
            return False
        if old >= 0:
            self.order[old].remove(i)
        if c >= 0:
            self.order[c].append(i)
        self.occ[i] = c
        return True

    def fill(self, sites, c, observed):
        """all `sites` become species c.  The order in which the library visits the sites is unspecified
        (it iterates a set), so the observed list of species c is accepted when it is
        old list (unchanged) + the newly converted sites in any order; that order is then adopted.
        Returns an error string or None."""
        if not (0 <= c < self.nchem):
            raise ModelError("fill with species %r" % (c,))
        sites = sorted(set(sites))
        new = [i for i in sites if self.occ[i] != c]
        keep = list(self.order[c])
        observed = [int(x) for x in observed]
        if observed[:len(keep)] != keep:
            return "fill changed the order of the sites that already held species %d: %s -> %s" % (c, keep, observed)
        tail = observed[len(keep):]
        if sorted(tail) != new:
            return "fill of species %d should append the sites %s, appended %s" % (c, new, tail)
        for i in tail:
            self.set(i, c)
        return None

    def permute(self, perm):
        """the atom on site i moves to site perm[i]; presentation order is carried along"""
        if sorted(perm) != list(range(self.n)):
            raise ModelError("permute needs a permutation of the sites")
        self.occ = {perm[i]: self.occ[i] for i in range(self.n)}
        self.order = [[perm[i] for i in l] for l in self.order]

    def reorder(self, mapping):
        """new order[c][i] = order[c][mapping[c][i]]; returns False (and changes nothing) unless every mapping[c]
        is a permutation of range(len(order[c]))"""
        if len(mapping) != self.nchem:
            raise ModelError("mapping needs one list per species")
        for l, mp in zip(self.order, mapping):
            if sorted(mp) != list(range(len(l))):
                return False
        self.order = [[l[k] for k in mp] for l, mp in zip(self.order, mapping)]
        return True


def lehmer(code, n, offset=0):
    """permutation of range(n) decoded from a list of non-negative ints (cyclically reused, empty = identity)"""
    items = list(range(n))
    out = []
    for k in range(n):
        d = code[(offset + k) % len(code)] if code else 0
        out.append(items.pop(d % len(items)))
    return out


# ------------------------------------------------------------------------------------------------------
# geometry
# ------------------------------------------------------------------------------------------------------
def int_det(M):
    M = np.asarray(M, dtype=int)
    return int(round(float(np.linalg.det(M))))


def adjugate(M):
    """integer adjugate: adj(M) @ M = det(M) * 1 (by cofactors, exact)"""
    M = np.asarray(M, dtype=int)
    A = np.zeros((3, 3), dtype=int)
    for i in range(3):
        for j in range(3):
            r = [k for k in range(3) if k != j]
            c = [k for k in range(3) if k != i]
            m = M[np.ix_(r, c)]
            A[i, j] = (-1) ** (i + j) * (int(m[0, 0]) * int(m[1, 1]) - int(m[0, 1]) * int(m[1, 0]))
    return A


def coset_key(M, n):
    """canonical residue of the integer vector n modulo the lattice M Z^3"""
    D = abs(int_det(M))
    return tuple(int(x) for x in (adjugate(M) @ np.asarray(n, dtype=int)) % D)


def coset_reps(M):
    """one integer vector per class of Z^3 / M Z^3.  Every class has a representative M f, f in [0,1)^3, whose
    i-th component is bounded by the i-th absolute row sum, so the box below contains them all."""
    M = np.asarray(M, dtype=int)
    D = abs(int_det(M))
    if D == 0:
        raise ModelError("singular supercell")
    adj = adjugate(M)
    B = [int(np.abs(M[i]).sum()) for i in range(3)]
    reps = {}
    for n in itertools.product(*[range(-b, b + 1) for b in B]):
        k = tuple(int(x) for x in (adj @ np.array(n)) % D)
        if k not in reps or (sum(abs(x) for x in n), n) < (sum(abs(x) for x in reps[k]), reps[k]):
            reps[k] = n
        # keep going: the smallest representative is kept so the result does not depend on the scan order
    if len(reps) != D:
        raise ModelError("found %d cosets for |det| = %d" % (len(reps), D))
    return [np.array(reps[k], dtype=int) for k in sorted(reps)]


def compatible_rotation(M, R0):
    """M^-1 R0 M as an exact integer matrix, or None when it is not integer (R0 does not preserve the supercell lattice)"""
    M = np.asarray(M, dtype=int)
    D = int_det(M)
    P = adjugate(M) @ np.asarray(R0, dtype=int) @ M
    if np.any(P % abs(D) != 0):
        return None
    return P // D if D > 0 else -(P // abs(D))


def wrap(d):
    d = np.asarray(d, dtype=float)
    return d - np.round(d)


def layout_error(lattice, atoms, M, pos, tol=POS_TOL):
    """pos[j] (supercell direct coordinates) must be: atom (j mod N) of the crystal, displaced by a lattice vector
    whose class modulo the supercell is the same for the N sites of block j // N and different between blocks.
    atoms = [(chem, unit position)] in the crystal's site order.  Returns an error string or None."""
    lattice = np.asarray(lattice, dtype=float)
    M = np.asarray(M, dtype=int)
    N = len(atoms)
    D = abs(int_det(M))
    pos = np.asarray(pos, dtype=float)
    if pos.shape != (N * D, 3):
        return "pos has shape %s, expected (%d, 3)" % (pos.shape, N * D)
    if np.any(pos < -1e-12) or np.any(pos >= 1 + 1e-12):
        return "positions are not inside the cell [0,1)"
    scale = np.linalg.norm(lattice, axis=0).max()
    blockkeys = []
    for j in range(N * D):
        ucrys = M @ pos[j]  # direct coordinates of the crystal: L^-1 (L M) pos
        d = ucrys - np.asarray(atoms[j % N][1], dtype=float)
        n = np.round(d)
        if np.linalg.norm(lattice @ (d - n)) > tol * scale:
            return "site %d is not a periodic image of crystal atom %d" % (j, j % N)
        k = coset_key(M, n.astype(int))
        if j % N == 0:
            blockkeys.append(k)
        elif k != blockkeys[-1]:
            return "site %d does not belong to the same unit cell as the first site of its block" % j
    if len(set(blockkeys)) != D:
        return "the %d blocks of sites are not %d different unit cells of the supercell" % (len(blockkeys), D)
    return None


def op_perm(pos, suplattice, rot, trans, tol=POS_TOL):
    """site permutation induced by u -> rot u + trans (supercell direct coordinates, periodic): perm[i] = the
    site whose position is the image of site i, by nearest-site search.  None if some image is not a site or two
    sites share an image."""
    pos = np.asarray(pos, dtype=float)
    L = np.asarray(suplattice, dtype=float)
    img = pos @ np.asarray(rot, dtype=float).T + np.asarray(trans, dtype=float)
    diff = img[:, None, :] - pos[None, :, :]
    diff -= np.round(diff)
    dist = np.linalg.norm(diff @ L.T, axis=2)
    j = np.argmin(dist, axis=1)
    scale = np.linalg.norm(L, axis=0).max()
    if np.any(dist[np.arange(len(pos)), j] > tol * scale):
        return None
    perm = [int(x) for x in j]
    if len(set(perm)) != len(perm):
        return None
    return perm


def min_direct_separation(pos):
    """smallest periodic distance between two sites measured in DIRECT coordinates (the metric Supercell.index uses)"""
    pos = np.asarray(pos, dtype=float)
    if len(pos) < 2:
        return 1.0
    diff = pos[:, None, :] - pos[None, :, :]
    diff -= np.round(diff)
    d = np.linalg.norm(diff, axis=2)
    d[np.arange(len(pos)), np.arange(len(pos))] = np.inf
    return float(min(d.min(), 1.0))


def atom_orbits(lattice, atoms, ops, tol=POS_TOL):
    """orbit label per atom under the maps u -> R u + t of ops (unit-cell coordinates), same species required.
    Returns (labels, error)."""
    lattice = np.asarray(lattice, dtype=float)
    n = len(atoms)
    parent = list(range(n))

    def find(a):
        while parent[a] != a:
            parent[a] = parent[parent[a]]
            a = parent[a]
        return a
    scale = np.linalg.norm(lattice, axis=0).max()
    for (R, t) in ops:
        for a, (c, u) in enumerate(atoms):
            v = np.asarray(R, dtype=float) @ np.asarray(u, dtype=float) + np.asarray(t, dtype=float)
            hit = None
            for b, (cb, ub) in enumerate(atoms):
                if cb == c and np.linalg.norm(lattice @ wrap(v - np.asarray(ub, dtype=float))) < tol * scale:
                    hit = b
                    break
            if hit is None:
                return None, "crystal operation does not map atom %d onto an atom of its species" % a
            ra, rb = find(a), find(hit)
            if ra != rb:
                parent[max(ra, rb)] = min(ra, rb)
    return [find(a) for a in range(n)], None


def parse_poscar(text):
    """minimal reader of the VASP format written by the library: returns
    (name line, lattice with vectors as COLUMNS, counts per species, direct positions in file order)"""
    lines = text.split("\n")
    name = lines[0]
    a0 = float(lines[1])
    vecs = [[float(x) for x in lines[2 + k].split()] for k in range(3)]
    k = 5
    first = lines[k].split()
    if first and not first[0][0].isdigit():
        k += 1
    counts = [int(x) for x in lines[k].split()]
    k += 1
    if lines[k].strip()[:1] in ("s", "S"):
        k += 1
    mode = lines[k].strip()
    if mode[:1] not in ("d", "D"):
        raise ModelError("parse_poscar only reads Direct coordinates, got %r" % mode)
    k += 1
    pos = []
    for _ in range(sum(counts)):
        pos.append([float(x) for x in lines[k].split()[:3]])
        k += 1
    rest = [l for l in lines[k:] if l.strip()]
    return name, a0 * np.array(vecs).T, counts, np.array(pos).reshape(-1, 3), rest
