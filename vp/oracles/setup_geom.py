"""Plain geometry for calculation-setup supercells (C29/C30), written from scratch.

Nothing in here calls the library.  A supercell is described by
    A          3x3 array, COLUMNS are the supercell lattice vectors (A = L N)
    poslists   list indexed by species of lists of positions in supercell direct coordinates (the *ordered* atom list,
               exactly what a POSCAR of the cell contains)
and the perfect crystal by (L, atoms=[(chem, unit position)]) together with the integer supercell matrix N.
"""
import re
from functools import reduce
from math import gcd

import numpy as np


class GeomMismatch(Exception):
    """the supercell does not have the content that plain geometry demands (turned into a Violation by the caller)"""


# ------------------------------------------------------------------------------------------------
# tags
# ------------------------------------------------------------------------------------------------
_NUM = r'[+-]\d+\.\d{3}'
_DEF = r'([isv]):(%s),(%s),(%s)' % (_NUM, _NUM, _NUM)
_DEF_NC = r'[isv]:%s,%s,%s' % (_NUM, _NUM, _NUM)
_SIDE = re.compile(r'(%s)(?:-(%s))?' % (_DEF_NC, _DEF_NC))
_ONE = re.compile(_DEF)
TAG_ROUNDING = 0.5e-3  # tags print unit coordinates with three decimals


def _defect(txt):
    m = _ONE.fullmatch(txt)
    return (m.group(1), np.array([float(m.group(2)), float(m.group(3)), float(m.group(4))]))


def _side(txt):
    m = _SIDE.fullmatch(txt)
    if m is None:
        raise GeomMismatch("cannot parse %r as a defect state" % txt)
    return [_defect(g) for g in m.groups() if g is not None]


def parse_tag(tag):
    """-> {"prefix": None|"omega0"|"omega1"|"omega2", "initial": [(type, u)], "final": None|[(type, u)]}
    type in "i","s","v"; u = unit-cell coordinates as printed (three decimals).
    For an omega1 tag the final state repeats the solute of the initial state."""
    prefix = None
    body = tag
    m = re.match(r'(omega[012]):', tag)
    if m:
        prefix, body = m.group(1), tag[m.end():]
    parts = body.split('^')
    if len(parts) > 2:
        raise GeomMismatch("cannot parse tag %r" % tag)
    ini = _side(parts[0])
    fin = _side(parts[1]) if len(parts) == 2 else None
    if prefix is not None and fin is None:
        raise GeomMismatch("transition prefix without final state in %r" % tag)
    if prefix == "omega1":
        if [t for t, _ in ini] != ["s", "v"] or [t for t, _ in fin] != ["v"]:
            raise GeomMismatch("omega1 tag %r is not solute-vacancy^vacancy" % tag)
        fin = [ini[0], fin[0]]
    elif prefix == "omega0":
        if [t for t, _ in ini] != ["v"] or [t for t, _ in fin] != ["v"]:
            raise GeomMismatch("omega0 tag %r is not vacancy^vacancy" % tag)
    elif prefix == "omega2":
        if [t for t, _ in ini] != ["s", "v"] or [t for t, _ in fin] != ["s", "v"]:
            raise GeomMismatch("omega2 tag %r is not complex^complex" % tag)
    return {"prefix": prefix, "initial": ini, "final": fin}


# ------------------------------------------------------------------------------------------------
# perfect crystal inside a supercell
# ------------------------------------------------------------------------------------------------
def coset_translations(N):
    """integer vectors R (one per coset of Z^3 / N Z^3), |det N| of them, by brute force"""
    N = np.asarray(N, dtype=int)
    det = int(round(np.linalg.det(N)))
    if det == 0:
        raise ValueError("singular supercell")
    adj = np.round(np.linalg.inv(N) * det).astype(int)  # inv(N) = adj / det
    ad = abs(det)
    # smallest m_i > 0 with m_i e_i in N Z^3
    per = [ad // reduce(gcd, [ad] + [abs(int(x)) for x in adj[:, i]]) for i in range(3)]
    grid = np.array(np.meshgrid(*[np.arange(m) for m in per], indexing='ij')).reshape(3, -1).T
    key = (grid @ adj.T) % det if det > 0 else (-(grid @ adj.T)) % ad  # det * inv(N) R  modulo det
    _, first = np.unique(key, axis=0, return_index=True)
    R = grid[np.sort(first)]
    if len(R) != ad:
        raise AssertionError("coset enumeration produced %d translations for |det|=%d" % (len(R), ad))
    return R


def wrap(d):
    d = np.asarray(d, dtype=float)
    return d - np.round(d)


def supercell_sites(atoms, N, which=None):
    """[(chem, n, s)] for every atom n=(index in atoms) of the perfect crystal inside the supercell; s = supercell
    direct coordinates in [0,1).  which: predicate on chem."""
    Ninv = np.linalg.inv(np.asarray(N, dtype=float))
    Rs = coset_translations(N)
    out = []
    for n, (c, u) in enumerate(atoms):
        if which is not None and not which(c):
            continue
        for R in Rs:
            s = Ninv @ (np.asarray(u, dtype=float) + R)
            s = s - np.floor(s)
            s[s > 1 - 1e-12] = 0.
            out.append((c, n, s))
    return out


def nearest(A, s_from, s_to):
    """for every position in s_from: (index of the position in s_to that is closest modulo the cell, Cartesian length of
    the difference wrapped to [-1/2,1/2) in direct coordinates).  Meant for coincidence tests (distance ~ 0), where the
    wrapped difference is the minimum image whatever the cell shape."""
    s_from = np.asarray(s_from, dtype=float).reshape(-1, 3)
    s_to = np.asarray(s_to, dtype=float).reshape(-1, 3)
    if len(s_to) == 0 or len(s_from) == 0:
        return np.full(len(s_from), -1), np.full(len(s_from), np.inf)
    A = np.asarray(A, dtype=float)
    d = wrap(s_to[None, :, :] - s_from[:, None, :])
    cart = np.linalg.norm(d @ A.T, axis=2)
    idx = np.argmin(cart, axis=1)
    return idx, cart[np.arange(len(s_from)), idx]


def min_images(A, d, rng=2, tol=1e-7):
    """all shortest periodic images (Cartesian vectors) of the direct-coordinate difference d"""
    A = np.asarray(A, dtype=float)
    d = wrap(d)
    r = range(-rng, rng + 1)
    shifts = np.array([[i, j, k] for i in r for j in r for k in r], dtype=float)
    cart = (d[None, :] + shifts) @ A.T
    ln = np.linalg.norm(cart, axis=1)
    keep = ln <= ln.min() + tol * max(1., ln.min())
    return cart[keep]


def same_mod_cell(s1, s2, tol=1e-7):
    """equal supercell direct coordinates modulo 1 (tolerance in direct coordinates)"""
    return bool(np.abs(wrap(np.asarray(s1) - np.asarray(s2))).max() <= tol)


def find_defects(A, poslists, host_sites, mobile, solute, inter_sites=None, tol=1e-6):
    """Locate the defects of a supercell by comparing its atom list with the perfect crystal.

    host_sites: [(chem, n, s)] of the perfect host crystal; mobile: species whose sites may be vacant / substituted;
    solute: species index of the substitutional solute (None: no solute allowed);
    inter_sites: [(chem, n, s)] of the interstitial sublattice (None: no interstitial allowed, then `mobile` is a host species).
    Returns {"v": [s], "s": [s], "i": [s], "where": {...indices into poslists...}}; raises GeomMismatch for anything else."""
    A = np.asarray(A, dtype=float)
    scale = np.linalg.norm(A, axis=0).min()
    hs = np.array([s for (_, _, s) in host_sites]).reshape(-1, 3)
    hc = [c for (c, _, _) in host_sites]
    occupied = np.zeros(len(host_sites), dtype=int)
    out = {"v": [], "s": [], "i": [], "where": {"s": [], "i": []}}
    for c, plist in enumerate(poslists):
        if len(plist) == 0:
            continue
        idx, dist = nearest(A, plist, hs)
        for a, (m, dd) in enumerate(zip(idx, dist)):
            s = np.asarray(plist[a], dtype=float)
            if m >= 0 and dd < tol * scale:
                occupied[m] += 1
                if c == hc[m]:
                    continue
                if solute is not None and c == solute and hc[m] == mobile and inter_sites is None:
                    out["s"].append(s)
                    out["where"]["s"].append((c, a))
                    continue
                raise GeomMismatch("atom %d of species %d sits on a host site of species %d" % (a, c, hc[m]))
            # not on a host site
            if inter_sites is not None and c == mobile:
                isx = np.array([t for (_, _, t) in inter_sites]).reshape(-1, 3)
                j, dj = nearest(A, [s], isx)
                if dj[0] < tol * scale:
                    out["i"].append(s)
                    out["where"]["i"].append((c, a))
                    continue
            raise GeomMismatch("atom %d of species %d at %s is neither on a host site nor an allowed interstitial" % (a, c, s.tolist()))
    if np.any(occupied > 1):
        raise GeomMismatch("two atoms on one site")
    for m in np.nonzero(occupied == 0)[0]:
        if inter_sites is None and hc[m] == mobile:
            out["v"].append(hs[m])
        else:
            raise GeomMismatch("host atom of species %d missing at %s" % (hc[m], hs[m].tolist()))
    return out


def named_position_error(N, s_found, u_named):
    """largest unit-cell-coordinate deviation between a found position (supercell direct coords) and a named one
    (unit-cell coords) modulo the supercell"""
    N = np.asarray(N, dtype=float)
    d = wrap(np.asarray(s_found) - np.linalg.inv(N) @ np.asarray(u_named))
    return float(np.abs(N @ d).max())


def in_superlattice(N, du, tol=1e-6):
    """is the unit-coordinate vector du a supercell lattice vector?"""
    s = np.linalg.inv(np.asarray(N, dtype=float)) @ np.asarray(du, dtype=float)
    return bool(np.abs(s - np.round(s)).max() <= tol)


# ------------------------------------------------------------------------------------------------
# transformation files
# ------------------------------------------------------------------------------------------------
def apply_map(poslists, rot, trans, mapping):
    """new[c][i] = rot . old[c][mapping[c][i]] + trans  (mod 1): what `trans.pl` does with a transformation file"""
    rot = np.asarray(rot, dtype=float)
    trans = np.asarray(trans, dtype=float)
    out = []
    for plist, cmap in zip(poslists, mapping):
        new = []
        for i in cmap:
            s = rot @ np.asarray(plist[i], dtype=float) + trans
            new.append(s - np.floor(s))
        out.append(new)
    return out


def ordered_mismatch(pl1, pl2, tol=1e-9):
    """None when both ordered atom lists agree modulo 1, else a description of the first difference"""
    if [len(p) for p in pl1] != [len(p) for p in pl2]:
        return "species counts differ: %s vs %s" % ([len(p) for p in pl1], [len(p) for p in pl2])
    for c, (a, b) in enumerate(zip(pl1, pl2)):
        for i, (u, v) in enumerate(zip(a, b)):
            if np.abs(wrap(np.asarray(u, dtype=float) - np.asarray(v, dtype=float))).max() > tol:
                return "species %d atom %d: %s vs %s" % (c, i, np.asarray(u).tolist(), np.asarray(v).tolist())
    return None


def is_isometry(A, rot, tol=1e-8):
    A = np.asarray(A, dtype=float)
    C = A @ np.asarray(rot, dtype=float) @ np.linalg.inv(A)
    return bool(np.abs(C @ C.T - np.eye(3)).max() <= tol)


# ------------------------------------------------------------------------------------------------
# POSCAR text
# ------------------------------------------------------------------------------------------------
def parse_poscar(text):
    """minimal reader of the VASP position format (Direct coordinates, optional element line).
    -> {"name", "lattice" (columns), "counts", "poslists"}"""
    lines = text.split('\n')
    name = lines[0]
    scale = float(lines[1].split()[0])
    A = scale * np.array([[float(x) for x in lines[2 + i].split()[:3]] for i in range(3)]).T
    k = 5
    tok = lines[k].split()
    if not tok or not tok[0].lstrip('+-').isdigit():
        k += 1
        tok = lines[k].split()
    counts = [int(t) for t in tok]
    k += 1
    if lines[k].strip()[:1] in ('s', 'S'):
        k += 1
    if lines[k].strip()[:1] not in ('d', 'D'):
        raise GeomMismatch("POSCAR is not in direct coordinates: %r" % lines[k])
    k += 1
    poslists = []
    for n in counts:
        pl = []
        for _ in range(n):
            if k >= len(lines) or not lines[k].split():
                raise GeomMismatch("POSCAR has fewer position lines than announced")
            pl.append(np.array([float(x) for x in lines[k].split()[:3]]))
            k += 1
        poslists.append(pl)
    rest = [l for l in lines[k:] if l.strip()]
    return {"name": name, "lattice": A, "counts": counts, "poslists": poslists, "trailing": rest}
