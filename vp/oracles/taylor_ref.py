"""Independent reference for direction/magnitude power expansions (oracle 3.4).

An expansion is a list of terms (n, l, c): c[p] is the (scalar / vector / matrix) coefficient of the p-th monomial
of the unit direction, the monomials being all products x^a y^b (z^c) of total degree <= l, ordered by total degree,
then by the exponent of x, then by the exponent of y.  Its value is

    f(u) = sum_{(n,l,c)} |u|^n  sum_p  uhat^pow(p) c[p]          uhat = u/|u|

Nothing here imports the library: the monomial enumeration, the evaluation, the harmonic functions (scipy's
sph_harm_y in 3D, exp(i l theta) in 2D) and the quadrature rules are written from scratch.
"""
import itertools, math

import numpy as np

LMAX = 4


def powers(dim, lmax=LMAX):
    """all exponent tuples of total degree <= lmax, in the documented storage order"""
    tups = [t for t in itertools.product(range(lmax + 1), repeat=dim) if sum(t) <= lmax]
    tups.sort(key=lambda t: (sum(t),) + t)
    return tups


def npow(dim, l):
    """number of monomials of total degree <= l (= length of the power axis of an l-term)"""
    if l < 0:
        return 0
    return math.comb(l + dim, dim)


_pow_cache = {}


def _pows(dim, lmax=LMAX):
    k = (dim, lmax)
    if k not in _pow_cache:
        _pow_cache[k] = powers(dim, lmax)
    return _pow_cache[k]


def monomials(dim, uhat, count, lmax=LMAX):
    """values of the first `count` monomials at the vector uhat (no normalisation done here)"""
    out = np.ones(count)
    for p, t in enumerate(_pows(dim, lmax)[:count]):
        v = 1.0
        for x, e in zip(uhat, t):
            v *= float(x) ** int(e)
        out[p] = v
    return out


def unit(u):
    u = np.asarray(u, dtype=float)
    r = math.sqrt(float(np.dot(u, u)))
    return (u / r, r) if r > 0 else (u, 0.0)


def orders(dim, terms, uhat, lmax=LMAX):
    """per-order angular parts: {n: V_n(uhat)} with f(u) = sum_n |u|^n V_n(uhat); uhat must be a unit vector"""
    out = {}
    for n, l, c in terms:
        c = np.asarray(c)
        cnt = npow(dim, l)
        if c.shape[0] != cnt:
            raise ValueError("term (%d,%d) has %d coefficients, expected %d" % (n, l, c.shape[0], cnt))
        mon = monomials(dim, uhat, cnt, lmax)
        val = np.tensordot(mon, c, axes=(0, 0))
        out[n] = out[n] + val if n in out else val
    return out


def bounds(dim, terms, uhat=None, lmax=LMAX):
    """per-order magnitude bound {n: sum_p sum|entries of c[p]|}: the scale of the round-off of any re-expression of
    the angular part (the monomials of a unit vector are bounded by 1, and equivalent representations - e.g. after a
    projection through the harmonics - cancel between monomials, so the bound must not be weighted with the monomial
    values at the particular direction).  Entrywise 1-norm, hence submultiplicative under matrix products."""
    out = {}
    for n, l, c in terms:
        c = np.asarray(c)
        out[n] = out.get(n, 0.0) + float(np.abs(c).sum())
    return out


def total(ords, r):
    """sum_n r^n V_n; r == 0 is only meaningful when no order is negative (0^0 = 1)"""
    tot = 0
    for n, v in ords.items():
        if r == 0:
            if n < 0:
                raise ZeroDivisionError("negative order at the origin")
            f = 1.0 if n == 0 else 0.0
        else:
            f = float(r) ** n
        tot = tot + f * v
    return tot


def evaluate(dim, terms, u, lmax=LMAX):
    uhat, r = unit(u)
    if r == 0:
        # the origin: only the constant monomial of the n = 0 terms survives (callers make sure that the function
        # is continuous there, i.e. n >= 0 and the n = 0 terms are isotropic)
        uhat = np.zeros(dim)
    return total(orders(dim, terms, uhat, lmax), r)


# ---- true harmonic functions ---------------------------------------------------------------------------------
def sph_harm(l, m, uhat):
    """Y_l^m at the unit 3-vector uhat (Condon-Shortley phase, orthonormal), from scipy"""
    from scipy.special import sph_harm_y
    x, y, z = (float(t) for t in uhat)
    theta = math.acos(max(-1.0, min(1.0, z)))
    phi = math.atan2(y, x) % (2 * math.pi)
    return complex(sph_harm_y(l, m, theta, phi))


def fourier(l, uhat):
    """exp(i l theta) at the unit 2-vector uhat"""
    theta = math.atan2(float(uhat[1]), float(uhat[0]))
    return complex(math.cos(l * theta), math.sin(l * theta))


def sphere_points():
    """deterministic set of 3D unit directions: axes, face/body diagonals and generic directions"""
    pts = []
    for t in itertools.product((-1, 0, 1), repeat=3):
        if any(t):
            pts.append(np.array(t, dtype=float))
    gold = (1 + 5 ** 0.5) / 2
    n = 48
    for k in range(n):  # Fibonacci spiral: generic points
        z = 1 - (2 * k + 1) / n
        r = math.sqrt(1 - z * z)
        ph = 2 * math.pi * k / gold
        pts.append(np.array([r * math.cos(ph), r * math.sin(ph), z]))
    return [p / math.sqrt(np.dot(p, p)) for p in pts]


def circle_points():
    pts = []
    for k in range(16):
        th = 2 * math.pi * k / 16
        pts.append(np.array([math.cos(th), math.sin(th)]))
    for k in range(21):
        th = 0.1234 + 2 * math.pi * k / 21 * 1.0
        pts.append(np.array([math.cos(th), math.sin(th)]))
    return pts


def sphere_quadrature(deg=12):
    """(points, weights) integrating polynomials of degree <= deg exactly over the unit sphere (total weight 4 pi):
    Gauss-Legendre in cos(theta) times the trapezoid rule in phi"""
    ng = deg // 2 + 1
    x, w = np.polynomial.legendre.leggauss(ng)
    nphi = deg + 2
    pts, wts = [], []
    for xi, wi in zip(x, w):
        s = math.sqrt(max(0.0, 1 - xi * xi))
        for k in range(nphi):
            ph = 2 * math.pi * (k + 0.5) / nphi
            pts.append(np.array([s * math.cos(ph), s * math.sin(ph), xi]))
            wts.append(wi * 2 * math.pi / nphi)
    return pts, wts


def circle_quadrature(deg=12):
    """(points, weights) integrating trigonometric polynomials of degree <= deg exactly (total weight 2 pi)"""
    n = deg + 3
    pts = [np.array([math.cos(2 * math.pi * (k + 0.25) / n), math.sin(2 * math.pi * (k + 0.25) / n)]) for k in range(n)]
    return pts, [2 * math.pi / n] * n


_H_cache = {}


def harmonic_matrix(dim, lmax=LMAX):
    """(labels, H): H[k, p] = <harmonic k | monomial p> on the unit sphere/circle by exact quadrature against the true
    orthonormal harmonics; labels[k] = (l, m) (3D) or (|l|, l) (2D)"""
    key = (dim, lmax)
    if key not in _H_cache:
        cnt = npow(dim, lmax)
        if dim == 3:
            pts, wts = sphere_quadrature(2 * lmax + 2)
            labels = [(l, m) for l in range(lmax + 1) for m in range(-l, l + 1)]
            Y = np.array([[sph_harm(l, m, p) for p in pts] for (l, m) in labels])
        else:
            pts, wts = circle_quadrature(2 * lmax + 2)
            labels = [(abs(l), l) for l in range(-lmax, lmax + 1)]
            Y = np.array([[fourier(l, p) / math.sqrt(2 * math.pi) for p in pts] for (_, l) in labels])
        M = np.array([monomials(dim, p, cnt, lmax) for p in pts])  # [point, monomial]
        _H_cache[key] = (labels, (Y.conj() * np.array(wts)) @ M)
    return _H_cache[key]


def harmonic_content(dim, coeffs, lmax=LMAX):
    """angular-momentum content of the function sum_p coeffs[p] uhat^pow(p) on the unit sphere/circle:
    {l: sqrt(sum_m |<Y_lm|f>|^2)} for l = 0..lmax; coeffs may be shorter than the full monomial list"""
    coeffs = np.asarray(coeffs)
    labels, H = harmonic_matrix(dim, lmax)
    amp = H[:, :coeffs.shape[0]] @ coeffs
    out = dict((l, 0.0) for l in range(lmax + 1))
    for (l, m), a in zip(labels, amp):
        out[l] += float(np.sum(np.abs(a) ** 2))
    return dict((l, math.sqrt(v)) for l, v in out.items())


def selfcheck():
    """consistency of this module's own pieces: orthonormality of the harmonics under the quadrature rules and the
    Parseval identity for every monomial; returns the largest deviation"""
    worst = 0.0
    for dim in (2, 3):
        if dim == 3:
            qp, qw = sphere_quadrature(2 * LMAX + 2)
            Y = np.array([[sph_harm(l, m, p) for p in qp] for l in range(LMAX + 1) for m in range(-l, l + 1)])
        else:
            qp, qw = circle_quadrature(2 * LMAX + 2)
            Y = np.array([[fourier(l, p) / math.sqrt(2 * math.pi) for p in qp] for l in range(-LMAX, LMAX + 1)])
        G = (Y.conj() * np.array(qw)) @ Y.T
        worst = max(worst, float(np.abs(G - np.eye(len(Y))).max()))
        cnt = npow(dim, LMAX)
        for p in range(cnt):
            e = np.zeros(cnt)
            e[p] = 1.0
            hc = harmonic_content(dim, e)
            norm2 = sum(w * monomials(dim, q, cnt)[p] ** 2 for q, w in zip(qp, qw))
            worst = max(worst, abs(sum(v * v for v in hc.values()) - norm2))
    return worst
