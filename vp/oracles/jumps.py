"""Brute-force jump enumeration and straight-line obstruction, written from scratch (no onsager code inside).

A crystal is (lattice [d x d, columns], basis = list (per species) of lists of unit positions).
A jump of species `chem` is (i, j, R): from atom i in cell 0 to atom j in cell R, dx = L (u_j + R - u_i).

Obstruction rule (the one documented in Crystal.jumpnetwork): an atom of ANOTHER species at relative
position x (from the start site) obstructs the jump dx when its foot point lies on the segment,
0 <= x.dx <= dx.dx (end points included), and its distance from the line, sqrt(x.x - (x.dx)^2/dx.dx),
is not larger than the closest distance requested for its species.
"""
import itertools

import numpy as np

from . import geom

S_EDGE = 1e-7   # |x.dx| or |x.dx - dx.dx| below this (lengths are O(1)): the foot point sits on an end point (tie)
D_EDGE = 2e-4   # |d - closest| below this: the distance sits on the threshold (tie); thresholds are chosen >= 5e-4 away
D_ZERO = 1e-6   # an atom closer than this to the line is on the line


def cells(lattice, reach, pad=2):
    """integer cell vectors certainly containing every pair of atoms (unit positions in [0,1)) closer than reach:
    reciprocal-lattice bound (geom.lattice_range) + 1 for the basis offsets + generous padding"""
    rng = [r + pad for r in geom.lattice_range(lattice, reach)]
    return np.array(list(itertools.product(*[range(-r, r + 1) for r in rng])), dtype=int)


def all_jumps(lattice, ulist, cutoff):
    """every (i, j, R(tuple), dx) with 0 < |dx| < cutoff among the atoms ulist of one species"""
    L = np.asarray(lattice, dtype=float)
    Rs = cells(L, cutoff)
    out = []
    for i, ui in enumerate(ulist):
        for j, uj in enumerate(ulist):
            dxs = (L @ (np.asarray(uj) - np.asarray(ui))[:, None]).T + Rs @ L.T
            d2 = np.einsum('ni,ni->n', dxs, dxs)
            for n in np.nonzero((d2 < cutoff * cutoff) & (d2 > 1e-16))[0]:
                out.append((i, j, tuple(int(x) for x in Rs[n]), dxs[n].copy()))
    return out


def shell_distances(lattice, ulist, nshell=5):
    """sorted distinct (1e-6) interatomic distances within one species, at least nshell+1 of them"""
    L = np.asarray(lattice, dtype=float)
    rmax = 1.01 * max(np.linalg.norm(L, axis=0))
    while True:
        ds = sorted(np.linalg.norm(dx) for (_, _, _, dx) in all_jumps(L, ulist, rmax))
        out = []
        for d in ds:
            if not out or d - out[-1] > 1e-6:
                out.append(d)
        if len(out) > nshell:
            return out
        rmax *= 1.5


def neighbours_of_other_species(lattice, basis, chem, reach):
    """rel[i] = list of (c, x) : atoms of species c != chem at Cartesian position x relative to atom i of species chem,
    |x| < reach"""
    L = np.asarray(lattice, dtype=float)
    Rs = cells(L, reach)
    rel = []
    for ui in basis[chem]:
        lis = []
        for c, ul in enumerate(basis):
            if c == chem:
                continue
            for u in ul:
                xs = (L @ (np.asarray(u) - np.asarray(ui))[:, None]).T + Rs @ L.T
                d2 = np.einsum('ni,ni->n', xs, xs)
                for n in np.nonzero(d2 < reach * reach)[0]:
                    lis.append((c, xs[n].copy()))
        rel.append(lis)
    return rel


def approach(dx, x):
    """(s, d): projection x.dx and distance of x from the line through 0 along dx"""
    dx2 = float(np.dot(dx, dx))
    s = float(np.dot(x, dx))
    d2 = float(np.dot(x, x)) - s * s / dx2
    return s, np.sqrt(max(d2, 0.))


def approach_table(jumps, rel):
    """per jump: list of (c, s, d, dx2) for the other-species atoms whose foot point is on the segment or within S_EDGE of
    an end point"""
    tab = []
    for (i, j, R, dx) in jumps:
        dx2 = float(np.dot(dx, dx))
        row = []
        for (c, x) in rel[i]:
            s, d = approach(dx, x)
            if -S_EDGE <= s <= dx2 + S_EDGE:
                row.append((c, s, d, dx2))
        tab.append(row)
    return tab


def threshold_candidates(table, species, dmax, mingap=1e-3):
    """obstruction distances that sit on no tie: 0 (only atoms on the line obstruct) and the midpoints of the gaps
    (>= mingap) between the distinct segment-to-atom distances < dmax of the given species"""
    ds = sorted(d for row in table for (c, s, d, dx2) in row if c in species and d < dmax)
    dist = []
    for d in ds:
        if not dist or d - dist[-1] > D_ZERO:
            dist.append(d)
    cand = []
    if not dist or dist[0] > mingap or (dist[0] < D_ZERO and (len(dist) == 1 or dist[1] > mingap)):
        cand.append(0.)
    for a, b in zip(dist[:-1], dist[1:]):
        if b - a >= mingap:
            cand.append(0.5 * (a + b))
    if dist and dist[-1] + 0.0105 + mingap < dmax:
        cand.append(dist[-1] + 0.0105)   # larger than every listed distance, still below dmax (all d < dmax are listed)
    return cand, dist


def status(row, closest):
    """'blocked', 'free' or 'tie' for one jump; closest[c] = distance for species c"""
    st = "free"
    for (c, s, d, dx2) in row:
        T = closest[c]
        inside = S_EDGE <= s <= dx2 - S_EDGE
        if T <= 0.:
            below, edge = d < D_ZERO, D_ZERO <= d < D_EDGE
        else:
            below, edge = d < T - D_EDGE, abs(d - T) <= D_EDGE
        if inside and below:
            return "blocked"
        if below or edge:
            st = "tie"     # foot point on an end point and/or distance on the threshold: decided by round-off
    return st


def true_segment_blocked(dx, x, T):
    """for information only: distance from the point to the closed segment (end caps included) <= T"""
    dx2 = float(np.dot(dx, dx))
    t = min(1., max(0., float(np.dot(x, dx)) / dx2))
    return np.linalg.norm(np.asarray(x) - t * np.asarray(dx)) <= max(T, D_ZERO)
