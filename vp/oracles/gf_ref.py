"""Exact lattice Green function on a periodic N_1 x ... x N_d supercell, by brute-force Fourier summation of the raw jump list.

No symmetry, no Taylor expansion, no pole subtraction: for every q of the uniform mesh the symmetrised rate matrix
    Om(q)_ab = sum_{jumps a->b, dx} sqrt(w_ab w_ba) exp(i q.dx) - delta_ab escape_a
is inverted (pseudo-inverse at q = 0) and g_N(a, b, x) = 1/prod(N) sum_q exp(-i q.x) [Om(q)^-1]_ab.
g_N is the infinite-lattice function summed over the periodic images minus a constant (the removed q = 0 mode), so only
differences g_N(x1) - g_N(x2) are compared with the library; the image contribution to such a difference is of relative
order (|x|/N)^3 and is estimated by the caller from two mesh sizes.
"""
import itertools
import numpy as np


class PeriodicGF(object):
    def __init__(self, lattice, rho, jumps, Ns):
        self.lattice = np.asarray(lattice, dtype=float)
        d = self.lattice.shape[0]
        self.Ns = [int(n) for n in Ns]
        n = len(rho)
        sq = np.sqrt(np.asarray(rho, dtype=float))
        recip = 2 * np.pi * np.linalg.inv(self.lattice).T     # columns: reciprocal vectors b_k with b_k . a_l = 2 pi delta_kl
        grids = np.meshgrid(*[np.arange(N) / float(N) for N in self.Ns], indexing="ij")
        frac = np.stack([g.ravel() for g in grids], axis=1)     # (Nq, d) fractional coordinates m/N
        self.q = frac @ recip.T                                  # (Nq, d) Cartesian q
        Nq = self.q.shape[0]
        Om = np.zeros((Nq, n, n), dtype=complex)
        for (a, b, dx, w) in jumps:
            Om[:, a, b] += (sq[a] * w / sq[b]) * np.exp(1j * (self.q @ np.asarray(dx, dtype=float)))
            Om[:, a, a] -= w
        G = np.empty_like(Om)
        G[1:] = np.linalg.inv(Om[1:])
        G[0] = np.linalg.pinv(Om[0].real, hermitian=True)
        self.G = G
        self.Nq = Nq

    def __call__(self, a, b, x):
        ph = np.exp(-1j * (self.q @ np.asarray(x, dtype=float)))
        v = (ph * self.G[:, a, b]).sum() / self.Nq
        return v


def self_check(pg, rho, jumps, basis, i, j, R):
    """residual of the periodic lattice equation at (i, j, R) (the right-hand side is delta minus the projection on the zero mode);
    used by the harness to validate the reference itself (sign and index conventions)"""
    sq = np.sqrt(np.asarray(rho, dtype=float))
    x = pg.lattice @ (np.asarray(R) + basis[j] - basis[i])
    s = 0.
    esc = 0.
    wrev = {}
    for (a, b, dx, w) in jumps:
        wrev[(a, b, tuple(np.round(dx, 6)))] = w
    for (a, b, dx, w) in jumps:
        if a != j:
            continue
        wb = wrev[(b, a, tuple(np.round(-np.asarray(dx), 6)))]
        s += np.sqrt(w * wb) * pg(i, b, x + dx)
        esc += w
    rhs = (1. if (i == j and not np.any(np.asarray(R) % np.array(pg.Ns))) else 0.) - sq[i] * sq[j] / pg.Nq
    return abs(s - esc * pg(i, j, x) - rhs), esc
