"""More brute-force crystal geometry (no onsager code inside): lattice reduction, primitive cells, supercells,
site stabilisers, subgroup enumeration, Brillouin-zone membership.  Conventions as in geom.py:
lattice = d x d array whose COLUMNS are lattice vectors, atoms = [(chem, unit position)], operation = (R, t[, perm]).
"""
import itertools

import numpy as np

from . import geom


# ------------------------------------------------------------------------------------------------
# lattice reduction
# ------------------------------------------------------------------------------------------------
def minkowski_reduce(lattice, maxiter=10000):
    """(L', S): L' = L S, S integer unimodular, columns of L' sorted by length, and no column can be shortened by
    adding a combination of the other columns with coefficients in {-1,0,1} (the finite Minkowski conditions for
    d <= 3); det L' > 0."""
    L = np.array(lattice, dtype=float)
    d = L.shape[0]
    S = np.eye(d, dtype=int)
    combos = [c for c in itertools.product((-1, 0, 1), repeat=d - 1) if any(c)]
    for _ in range(maxiter):
        order = sorted(range(d), key=lambda i: (round(float(L[:, i] @ L[:, i]), 12), i))
        L, S = L[:, order], S[:, order]
        improved = False
        for i in range(d - 1, -1, -1):
            others = [j for j in range(d) if j != i]
            best, bestc = float(L[:, i] @ L[:, i]), None
            for c in combos:
                v = L[:, i] + sum(cj * L[:, j] for cj, j in zip(c, others))
                n2 = float(v @ v)
                if n2 < best * (1 - 1e-11) - 1e-300:
                    best, bestc = n2, c
            if bestc is not None:
                for cj, j in zip(bestc, others):
                    L[:, i] = L[:, i] + cj * L[:, j]
                    S[:, i] = S[:, i] + cj * S[:, j]
                improved = True
                break
        if not improved:
            break
    else:
        raise RuntimeError("minkowski_reduce did not converge")
    if np.linalg.det(L) < 0:
        L[:, -1] = -L[:, -1]
        S[:, -1] = -S[:, -1]
    return L, S


def change_basis(atoms, S):
    """atoms expressed in the lattice L S (S integer unimodular): u' = S^-1 u (mod 1)"""
    Sinv = np.linalg.inv(np.asarray(S, dtype=float))
    out = []
    for c, u in atoms:
        v = np.mod(Sinv @ np.asarray(u, dtype=float), 1.0)
        v[np.abs(v - 1.0) < 1e-12] = 0.
        out.append((c, v))
    return out


def pairwise_reduced(lattice, tol=1e-7):
    """the conditions named in the docstring of Crystal.minlattice, as a list of failures (empty = reduced):
    right-handed, ordered from shortest to longest, pairwise |a_i.a_j| <= |a_i|^2/2 for the shorter vector a_i"""
    L = np.asarray(lattice, dtype=float)
    d = L.shape[0]
    g = L.T @ L
    bad = []
    if not np.linalg.det(L) > 0:
        bad.append("det(lattice) = %.3e is not positive" % np.linalg.det(L))
    for i in range(d - 1):
        if g[i, i] > g[i + 1, i + 1] * (1 + tol):
            bad.append("|a%d|^2 = %.12g > |a%d|^2 = %.12g: not ordered by length" % (i, g[i, i], i + 1, g[i + 1, i + 1]))
    for i in range(d):
        for j in range(i + 1, d):
            lim = 0.5 * min(g[i, i], g[j, j])
            if abs(g[i, j]) > lim * (1 + tol):
                bad.append("|a%d.a%d| = %.12g > min(|a|^2)/2 = %.12g: a vector can be shortened" % (i, j, abs(g[i, j]), lim))
    return bad


def is_minkowski(lattice, tol=1e-9):
    """True when no column can be shortened by {-1,0,1} combinations of the others"""
    L = np.asarray(lattice, dtype=float)
    d = L.shape[0]
    combos = [c for c in itertools.product((-1, 0, 1), repeat=d - 1) if any(c)]
    for i in range(d):
        others = [j for j in range(d) if j != i]
        n0 = float(L[:, i] @ L[:, i])
        for c in combos:
            v = L[:, i] + sum(cj * L[:, j] for cj, j in zip(c, others))
            if float(v @ v) < n0 * (1 - tol):
                return False
    return True


_UNIMOD = {}


def pairwise_stall_bases(lattice, tol=1e-8):
    """3D only: unimodular U (entries in {-1,0,1}) for which the description L U passes every pairwise test
    |a_i.a_j| <= (1/2 + tol) min(|a_i|^2, |a_j|^2) although some a_k + s a_i + s' a_j (s, s' = +-1) is strictly shorter
    than a_k: descriptions on which a purely pairwise reduction stops without being Minkowski-reduced."""
    L = np.asarray(lattice, dtype=float)
    if L.shape[0] != 3:
        return []
    if 3 not in _UNIMOD:
        ms = np.array(list(itertools.product((-1, 0, 1), repeat=9)), dtype=int).reshape(-1, 3, 3)
        _UNIMOD[3] = ms[np.abs(np.round(np.linalg.det(ms))) == 1]
    Us = _UNIMOD[3]
    g = np.einsum('nji,jk,nkl->nil', Us, L.T @ L, Us)
    ok = np.ones(len(Us), dtype=bool)
    for i in range(3):
        for j in range(i + 1, 3):
            ok &= np.abs(g[:, i, j]) <= (0.5 + tol) * np.minimum(g[:, i, i], g[:, j, j])
    short = np.zeros(len(Us), dtype=bool)
    for k in range(3):
        i, j = [x for x in range(3) if x != k]
        for s0, s1 in itertools.product((1, -1), repeat=2):
            short |= g[:, i, i] + g[:, j, j] + 2 * (s0 * g[:, i, k] + s1 * g[:, j, k] + s0 * s1 * g[:, i, j]) < -1e-8 * g[:, k, k]
    return [U.copy() for U in Us[ok & short]]


def same_lattice(L1, L2, tol=1e-7):
    """True when the columns of L1 and L2 generate the same point lattice"""
    A = np.linalg.solve(np.asarray(L1, dtype=float), np.asarray(L2, dtype=float))
    return bool(np.abs(A - np.round(A)).max() < tol and abs(abs(np.linalg.det(np.round(A))) - 1) < 1e-9)


# ------------------------------------------------------------------------------------------------
# translations, primitive cells, supercells
# ------------------------------------------------------------------------------------------------
def translations(lattice, atoms, tol=1e-6):
    """all pure translations t in [0,1)^d (unit coordinates, identity first) mapping the crystal onto itself"""
    lattice = np.asarray(lattice, dtype=float)
    chems = sorted(set(c for c, _ in atoms))
    counts = {c: sum(1 for cc, _ in atoms if cc == c) for c in chems}
    c0 = min(chems, key=lambda c: (counts[c], c))
    ref = [n for n, (c, _) in enumerate(atoms) if c == c0]
    u0 = np.asarray(atoms[ref[0]][1], dtype=float)
    out = []
    for n in ref:
        t = np.asarray(atoms[n][1], dtype=float) - u0
        if all(geom.find_atom(lattice, atoms, c, np.asarray(u) + t, tol) is not None for c, u in atoms):
            t = np.mod(t, 1.0)
            t[np.abs(t - 1.0) < 1e-9] = 0.
            out.append(t)
    out.sort(key=lambda t: (float(np.linalg.norm(lattice @ geom.wrap(t))) > tol, tuple(np.round(t, 9))))
    return out


def primitive_reduced(lattice, atoms, tol=1e-6):
    """(Lp, atoms_p, n): Minkowski-reduced primitive cell of the crystal and the number n of translations removed
    (n = 1: the description was already primitive; only the lattice basis may have changed)."""
    L1, S = minkowski_reduce(lattice)
    at1 = change_basis(atoms, S)
    T = translations(L1, at1, tol)
    n = len(T)
    d = L1.shape[0]
    if n == 1:
        return L1, at1, 1
    vol = abs(np.linalg.det(L1)) / n
    cands = []
    for t in T:
        for m in itertools.product(range(-2, 3), repeat=d):
            v = geom.wrap(t) + np.array(m)
            x = L1 @ v
            if np.linalg.norm(x) > tol:
                cands.append((round(float(x @ x), 10), tuple(np.round(v, 9)), x))
    cands.sort(key=lambda e: (e[0], e[1]))
    chosen = []
    for _, _, x in cands:
        trial = chosen + [x]
        # shortest independent vectors one after the other (successive minima form a basis for d <= 3); the last
        # one is accepted only if it closes a cell of exactly the primitive volume, which proves the basis property
        G = np.array([[a @ b for b in trial] for a in trial])
        gd = np.linalg.det(G)
        if len(trial) < d:
            if gd > 1e-9 * np.prod([a @ a for a in trial]):
                chosen = trial
        else:
            if abs(np.sqrt(max(gd, 0.)) - vol) < 1e-6 * vol:
                chosen = trial
                break
    if len(chosen) != d:
        raise RuntimeError("primitive_reduced: no basis of the translation lattice found")
    Lp = np.array(chosen).T
    if np.linalg.det(Lp) < 0:
        Lp[:, -1] = -Lp[:, -1]
    Linv = np.linalg.inv(Lp)
    newat = []
    for c, u in at1:
        v = np.mod(Linv @ (L1 @ np.asarray(u)), 1.0)
        v[np.abs(v - 1.0) < 1e-9] = 0.
        if geom.find_atom(Lp, newat, c, v, tol) is None:
            newat.append((c, v))
    if len(newat) * n != len(atoms):
        raise RuntimeError("primitive_reduced: %d atoms do not reduce by %d" % (len(atoms), n))
    L2, S2 = minkowski_reduce(Lp)
    at2 = change_basis(newat, S2)
    if len(translations(L2, at2, tol)) != 1:
        raise RuntimeError("primitive_reduced: result is not primitive")
    return L2, at2, n


def adjugate(M):
    M = np.asarray(M, dtype=int)
    det = int(round(np.linalg.det(M)))
    adj = np.round(det * np.linalg.inv(M)).astype(int)
    if not np.all(M @ adj == det * np.eye(M.shape[0], dtype=int)):
        raise RuntimeError("adjugate failed")
    return adj, det


def cosets(M):
    """representatives n (integer vectors) of Z^d / M Z^d, |det M| of them, in a fixed order"""
    adj, det = adjugate(M)
    d = adj.shape[0]
    D = abs(det)
    seen, out = set(), []
    for n in itertools.product(range(D), repeat=d):
        key = tuple(int(x) for x in (adj @ np.array(n)) % D)
        if key not in seen:
            seen.add(key)
            out.append(np.array(n))
    if len(out) != D:
        raise RuntimeError("coset enumeration found %d classes for det %d" % (len(out), det))
    return out


def supercell(lattice, atoms, M):
    """the same crystal described in the supercell lattice L M: (L M, atoms with |det M| copies of each atom)"""
    M = np.asarray(M, dtype=int)
    Minv = np.linalg.inv(M.astype(float))
    out = []
    for c, u in atoms:
        for n in cosets(M):
            v = np.mod(Minv @ (np.asarray(u, dtype=float) + n), 1.0)
            v[np.abs(v - 1.0) < 1e-12] = 0.
            out.append((c, v))
    return np.asarray(lattice, dtype=float) @ M, out


# ------------------------------------------------------------------------------------------------
# site symmetry
# ------------------------------------------------------------------------------------------------
def stabilizer(ops, u, lattice, tol=1e-6):
    """operations (R, t, ...) with R u + t = u modulo the lattice"""
    u = np.asarray(u, dtype=float)
    return [op for op in ops if geom.same_pos(lattice, op[0] @ u + op[1], u, tol)]


def rotkey(R):
    return tuple(int(x) for x in np.asarray(R).flatten())


def projector(cols):
    """orthogonal projector onto the span of the columns (cols may have zero columns)"""
    cols = np.asarray(cols, dtype=float)
    if cols.ndim != 2 or cols.shape[1] == 0:
        n = cols.shape[0] if cols.ndim == 2 else 0
        return np.zeros((n, n))
    q, r = np.linalg.qr(cols)
    return q @ q.T


def sym_tensor_coords(T, basis):
    """coordinates of a symmetric tensor in geom.sym_tensor_rep's orthonormal basis"""
    return np.array([np.sum(E * T) for E in basis])


# ------------------------------------------------------------------------------------------------
# finite matrix groups
# ------------------------------------------------------------------------------------------------
def mult_table(mats):
    """table[i][j] = index of mats[i] @ mats[j] (integer matrices forming a group)"""
    idx = {rotkey(m): n for n, m in enumerate(mats)}
    n = len(mats)
    tab = np.zeros((n, n), dtype=int)
    for i, a in enumerate(mats):
        for j, b in enumerate(mats):
            k = idx.get(rotkey(a @ b))
            if k is None:
                raise RuntimeError("matrices are not closed under multiplication")
            tab[i, j] = k
    return tab


def closure(gens, tab, ident):
    """indices of the subgroup generated by the indices gens"""
    H = {ident}
    frontier = [ident]
    gens = list(gens)
    while frontier:
        new = []
        for h in frontier:
            for g in gens:
                for k in (int(tab[h, g]), int(tab[g, h])):
                    if k not in H:
                        H.add(k)
                        new.append(k)
        frontier = new
    return frozenset(H)


def all_subgroups(mats):
    """every subgroup of the finite matrix group mats, as sorted tuples of indices; found by closing each known
    subgroup with one more element until nothing new appears (complete: every subgroup is reached through a chain
    of its own generators)"""
    tab = mult_table(mats)
    d = mats[0].shape[0]
    ident = [n for n, m in enumerate(mats) if np.all(m == np.eye(d, dtype=int))][0]
    found = {frozenset([ident])}
    frontier = [frozenset([ident])]
    while frontier:
        new = []
        for H in frontier:
            for g in range(len(mats)):
                if g in H:
                    continue
                K = closure(list(H) + [g], tab, ident)
                if K not in found:
                    found.add(K)
                    new.append(K)
        frontier = new
    for H in found:
        if len(mats) % len(H):
            raise RuntimeError("Lagrange violated: closure is wrong")
    return sorted((tuple(sorted(H)) for H in found), key=lambda h: (len(h), h))


# ------------------------------------------------------------------------------------------------
# reciprocal space
# ------------------------------------------------------------------------------------------------
def reciprocal(lattice):
    """columns b_i with a_i . b_j = 2 pi delta_ij"""
    return 2. * np.pi * np.linalg.inv(np.asarray(lattice, dtype=float)).T


def bz_excess(recip, kpts, rng=3):
    """for each k: max over reciprocal lattice vectors G = recip n, n in [-rng, rng]^d \\ 0, of |k| - |k - G|
    (<= 0 up to round-off when k lies in the first Brillouin zone)"""
    recip = np.asarray(recip, dtype=float)
    d = recip.shape[0]
    ns = np.array([n for n in itertools.product(range(-rng, rng + 1), repeat=d) if any(n)], dtype=float)
    Gs = ns @ recip.T  # (nG, d)
    kpts = np.asarray(kpts, dtype=float)
    kn = np.linalg.norm(kpts, axis=1)
    dist = np.linalg.norm(kpts[:, None, :] - Gs[None, :, :], axis=2)
    return kn - dist.min(axis=1)


def relevant_vectors(recip, rng=3, tol=1e-9):
    """Voronoi-relevant reciprocal lattice vectors (face normals of the first Brillouin zone) as integer index vectors
    n (G = recip n), in the enumeration order of itertools.product(range(-rng, rng+1)): G is relevant when G/2 is
    strictly closer to 0 (and G) than to every other lattice point of the search box"""
    recip = np.asarray(recip, dtype=float)
    d = recip.shape[0]
    ns = np.array([n for n in itertools.product(range(-rng, rng + 1), repeat=d) if any(n)], dtype=int)
    Gs = ns @ recip.T
    G2 = np.einsum('ij,ij->i', Gs, Gs)
    dots = Gs @ Gs.T  # G_a . G_b
    scale = G2.max()
    out = []
    for a in range(len(ns)):
        # G_a . G_b < G_b . G_b for all b != a
        viol = dots[a] >= G2 - tol * scale
        viol[a] = False
        if not viol.any():
            out.append(ns[a].copy())
    return out
