"""Brute-force crystal geometry, written from scratch (no onsager code inside).

A crystal is (lattice [d x d, columns], atoms = list of (chem, unit position)).
An operation is (R, t) in unit-cell coordinates: u -> R u + t  (R integer unimodular).
"""
import itertools
import functools

import numpy as np


def _intmats(dim, rng=1):
    vals = list(range(-rng, rng + 1))
    ms = np.array(list(itertools.product(vals, repeat=dim * dim)), dtype=int).reshape(-1, dim, dim)
    det = np.round(np.linalg.det(ms)).astype(int)
    return ms[np.abs(det) == 1]


_INTMATS = {}


def holohedry(lattice, tol=1e-7, rng=1):
    """all integer unimodular R (entries in [-rng, rng]) with R^T g R = g, g = L^T L"""
    lattice = np.asarray(lattice, dtype=float)
    dim = lattice.shape[0]
    if (dim, rng) not in _INTMATS:
        _INTMATS[(dim, rng)] = _intmats(dim, rng)
    ms = _INTMATS[(dim, rng)]
    g = lattice.T @ lattice
    gg = np.einsum('nji,jk,nkl->nil', ms, g, ms)
    ok = np.abs(gg - g).reshape(len(ms), -1).max(axis=1) < tol * np.abs(g).max()
    return [m.copy() for m in ms[ok]]


def wrap(d):
    """difference of unit positions reduced to [-1/2, 1/2)"""
    d = np.asarray(d, dtype=float)
    return d - np.round(d)


def same_pos(lattice, u, v, tol=1e-6):
    return np.linalg.norm(lattice @ wrap(np.asarray(u) - np.asarray(v))) < tol


def find_atom(lattice, atoms, chem, u, tol=1e-6):
    """index in atoms of the atom of species chem at unit position u (mod lattice), else None"""
    for n, (c, v) in enumerate(atoms):
        if c == chem and same_pos(lattice, u, v, tol):
            return n
    return None


def space_group(lattice, atoms, tol=1e-6, rng=1, spins=None, spin_equal=None):
    """brute force: list of (R, t, perm) with perm[n] = index of the image of atom n.
    t is reduced to [0,1).  Optional spins: list parallel to atoms, spin_equal(R_cart, s_old, s_new, phase)"""
    lattice = np.asarray(lattice, dtype=float)
    H = holohedry(lattice, rng=rng)
    chems = sorted(set(c for c, _ in atoms))
    counts = {c: sum(1 for cc, _ in atoms if cc == c) for c in chems}
    c0 = min(chems, key=lambda c: (counts[c], c))
    ref = [n for n, (c, _) in enumerate(atoms) if c == c0]
    ops = []
    for R in H:
        u0 = atoms[ref[0]][1]
        seen = []
        for n in ref:
            t = wrap(np.asarray(atoms[n][1]) - R @ np.asarray(u0))
            if any(np.linalg.norm(lattice @ wrap(t - s)) < tol for s in seen):
                continue
            seen.append(t)
            perm = []
            for (c, u) in atoms:
                m = find_atom(lattice, atoms, c, R @ np.asarray(u) + t, tol)
                if m is None:
                    break
                perm.append(m)
            else:
                if len(set(perm)) == len(atoms):
                    ops.append((R.copy(), np.mod(t, 1.0), tuple(perm)))
    return ops


def cartrot(lattice, R):
    lattice = np.asarray(lattice, dtype=float)
    return lattice @ R @ np.linalg.inv(lattice)


def invariant_subspace(mats, tol=1e-8):
    """orthonormal basis (columns) of vectors v with M v = v for all M in mats (any square matrices)"""
    mats = [np.asarray(m, dtype=float) for m in mats]
    n = mats[0].shape[0]
    A = np.vstack([m - np.eye(n) for m in mats])
    u, s, vt = np.linalg.svd(A)
    rank = int((s > tol).sum())
    return vt[rank:].T


def sym_tensor_rep(R):
    """action of rotation R on symmetric tensors in an orthonormal basis (dimension d(d+1)/2)"""
    d = R.shape[0]
    basis = []
    for i in range(d):
        for j in range(i, d):
            E = np.zeros((d, d))
            if i == j:
                E[i, i] = 1.
            else:
                E[i, j] = E[j, i] = np.sqrt(0.5)
            basis.append(E)
    n = len(basis)
    M = np.zeros((n, n))
    for b, E in enumerate(basis):
        RE = R @ E @ R.T
        for a, F in enumerate(basis):
            M[a, b] = np.sum(F * RE)
    return M, basis


def lattice_range(lattice, cutoff):
    """integer range per lattice direction that certainly contains every lattice vector of length <= cutoff
    (from the reciprocal lattice: |n_i| <= cutoff * |b_i|, b_i rows of the inverse)"""
    inv = np.linalg.inv(np.asarray(lattice, dtype=float))
    return [int(np.floor(cutoff * np.linalg.norm(inv[i]) + 1e-9)) + 1 for i in range(inv.shape[0])]


def neighbours(lattice, atoms, cutoff, from_index=None, chem=None):
    """all (n, m, Rint, dx) with 0 < |dx| < cutoff, dx = L (u_m + R - u_n); restricted to species chem when given"""
    lattice = np.asarray(lattice, dtype=float)
    maxspan = 1.0  # unit positions lie in [0,1): differences in (-1,1)
    rng = lattice_range(lattice, cutoff + np.linalg.norm(lattice, axis=0).sum() * 0 + 0.)
    # pad by 1 for the basis offsets
    rng = [r + 1 for r in rng]
    out = []
    idx = range(len(atoms)) if from_index is None else [from_index]
    Rs = list(itertools.product(*[range(-r, r + 1) for r in rng]))
    for n in idx:
        cn, un = atoms[n]
        if chem is not None and cn != chem:
            continue
        for m, (cm, um) in enumerate(atoms):
            if chem is not None and cm != chem:
                continue
            for R in Rs:
                dx = lattice @ (np.asarray(um) + np.array(R) - np.asarray(un))
                d = np.linalg.norm(dx)
                if 1e-9 < d < cutoff:
                    out.append((n, m, tuple(R), dx))
    return out


def shell_distances(lattice, atoms, chem, maxshell=4, rmax=None):
    """sorted distinct neighbour distances (tolerance 1e-6) among atoms of species chem"""
    lattice = np.asarray(lattice, dtype=float)
    if rmax is None:
        rmax = 2.01 * max(np.linalg.norm(lattice, axis=0))
    ds = sorted(np.linalg.norm(dx) for (_, _, _, dx) in neighbours(lattice, atoms, rmax, chem=chem))
    out = []
    for d in ds:
        if not out or d - out[-1] > 1e-6:
            out.append(d)
        if len(out) > maxshell + 1:
            break
    return out


def min_distance(lattice, atoms):
    lattice = np.asarray(lattice, dtype=float)
    best = min(np.linalg.norm(lattice, axis=0))
    rng = [1] * lattice.shape[0]
    Rs = [np.array(R) for R in itertools.product(*[range(-1, 2) for _ in rng])]
    for n, (_, un) in enumerate(atoms):
        for m, (_, um) in enumerate(atoms):
            if m <= n:
                continue
            d0 = wrap(np.asarray(um) - np.asarray(un))
            for R in Rs:
                best = min(best, np.linalg.norm(lattice @ (d0 + R)))
    return best


def orbit_positions(ops, u, lattice, tol=1e-6):
    """distinct images (mod lattice) of unit position u under ops [(R,t,...)]"""
    out = []
    for op in ops:
        v = np.mod(op[0] @ np.asarray(u) + op[1], 1.0)
        if not any(same_pos(lattice, v, w, tol) for w in out):
            out.append(v)
    return out


def atom_orbits(ops, natoms):
    """partition of atom indices into orbits under perms of ops"""
    parent = list(range(natoms))

    def find(a):
        while parent[a] != a:
            parent[a] = parent[parent[a]]
            a = parent[a]
        return a
    for op in ops:
        for n, m in enumerate(op[2]):
            ra, rb = find(n), find(m)
            if ra != rb:
                parent[ra] = rb
    orb = {}
    for n in range(natoms):
        orb.setdefault(find(n), []).append(n)
    return sorted(orb.values())


def is_group(ops, lattice, tol=1e-6):
    """closure / identity / inverse check modulo lattice translations for [(R,t,perm)]"""
    def key(R, t):
        return (tuple(R.flatten()), tuple(np.round(np.mod(t + 1e-9, 1.0), 5)))
    keys = set(key(R, t) for R, t, _ in ops)
    dim = lattice.shape[0]
    if key(np.eye(dim, dtype=int), np.zeros(dim)) not in keys:
        return False, "no identity"
    for (R1, t1, _) in ops:
        for (R2, t2, _) in ops:
            if key(R1 @ R2, R1 @ t2 + t1) not in keys:
                return False, "not closed"
    return True, ""
