"""Reference diffusivity of a continuous-time jump process on a periodic network: full site space, no symmetry.

jumps: list of (i, j, dx, rate_ij) for every jump out of every site i of the cell (i -> j with displacement dx)
rho:   site probabilities (sum 1); detailed balance rho_i rate_ij = rho_j rate_ji is assumed (and verified)
"""
import numpy as np


def rates_from_data(jumpnetwork, invmap, pre, ene, preT, eneT):
    """plain transition-state theory: rate(i->j) = preT/pre_i * exp(-(ET - E_i)); returns (rho, jumps)"""
    pre_i = np.array([pre[w] for w in invmap], dtype=float)
    ene_i = np.array([ene[w] for w in invmap], dtype=float)
    lw = np.log(pre_i) - ene_i
    lw -= lw.max()
    rho = np.exp(lw)
    rho /= rho.sum()
    jumps = []
    for jl, pT, eT in zip(jumpnetwork, preT, eneT):
        for (i, j), dx in jl:
            jumps.append((i, j, np.array(dx, dtype=float), pT * np.exp(ene_i[i] - eT) / pre_i[i]))
    return rho, jumps


def assemble(rho, jumps, dim):
    N = len(rho)
    sq = np.sqrt(rho)
    Om = np.zeros((N, N))
    b = np.zeros((N, dim))
    D0 = np.zeros((dim, dim))
    for (i, j, dx, w) in jumps:
        Om[i, j] += sq[i] * w / sq[j]
        Om[i, i] -= w
        b[i] += sq[i] * w * dx
        D0 += 0.5 * rho[i] * w * np.outer(dx, dx)
    return Om, b, D0


def diffusivity(rho, jumps, dim, parts=False):
    Om, b, D0 = assemble(rho, jumps, dim)
    asym = np.abs(Om - Om.T).max()
    scale = max(np.abs(Om).max(), 1e-300)
    if asym > 1e-9 * scale:
        raise ValueError("reference rate matrix is not symmetric: detailed balance broken in the supplied jumps (%g)" % (asym / scale))
    Om = 0.5 * (Om + Om.T)
    # pseudo-inverse on the complement of the null space (one null vector per connected component)
    w, v = np.linalg.eigh(Om)
    keep = np.abs(w) > 1e-11 * np.abs(w).max() if np.abs(w).max() > 0 else np.zeros(len(w), dtype=bool)
    pinv = (v[:, keep] / w[keep]) @ v[:, keep].T
    Dc = b.T @ pinv @ b
    if parts:
        return D0 + Dc, D0, Dc
    return D0 + Dc


def components(N, jumps):
    parent = list(range(N))

    def find(a):
        while parent[a] != a:
            parent[a] = parent[parent[a]]
            a = parent[a]
        return a
    for (i, j, dx, w) in jumps:
        parent[find(i)] = find(j)
    comp = {}
    for i in range(N):
        comp.setdefault(find(i), []).append(i)
    return sorted(comp.values())


def diffusivity_kspace(rho, jumps, dim, h=2e-3):
    """independent form: D_ab = -1/2 d^2 lambda_max / dk_a dk_b at k=0 (connected networks only)"""
    N = len(rho)
    sq = np.sqrt(rho)

    def lam(k):
        Om = np.zeros((N, N), dtype=complex)
        for (i, j, dx, w) in jumps:
            Om[i, j] += sq[i] * w / sq[j] * np.exp(1j * np.dot(k, dx))
            Om[i, i] -= w
        return np.linalg.eigvalsh(0.5 * (Om + Om.conj().T)).max()
    scale = max(np.linalg.norm(dx) for (_, _, dx, _) in jumps)
    D = np.zeros((dim, dim))
    E = np.eye(dim)

    def second(a, b, hh):
        if a == b:
            return (lam(hh * E[a]) - 2 * lam(0 * E[a]) + lam(-hh * E[a])) / hh ** 2
        return (lam(hh * (E[a] + E[b])) - lam(hh * (E[a] - E[b])) - lam(hh * (E[b] - E[a])) + lam(-hh * (E[a] + E[b]))) / (4 * hh ** 2)
    for a in range(dim):
        for b in range(a, dim):
            hh = h / scale
            d1, d2 = second(a, b, hh), second(a, b, hh / 2)
            D[a, b] = D[b, a] = -0.5 * (4 * d2 - d1) / 3.
    return D
