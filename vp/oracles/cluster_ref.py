"""Brute-force cluster reference, written from scratch (no onsager code inside).

Plain data only
    site      = (c, i, R)            c species, i index in the species' basis, R integer lattice vector (tuple)
    basis     = [[u, ...] per species]   unit-cell positions; lattice L has the lattice vectors as COLUMNS
    cluster   = (kind, special, rest)    kind in {"plain", "vac", "ts", "vts"}
                  plain : special = ()                 rest = the sites
                  vac   : special = (vacancy site,)    rest = the other sites
                  ts    : special = (site a, site b)   undirected transition a<->b, rest = other sites
                  vts   : special = (initial, final)   directed vacancy transition, rest = other sites
    key(cluster) is a canonical hashable value that is the same for two clusters iff they differ by a lattice
    translation and a reordering of `rest` (and, for "ts", an exchange of a and b).
    op        = (Rot, t, perm) as produced by geom.space_group for atoms listed in `flat_atoms(basis)` order.

Part 1 (C31): enumeration modulo translation of every set of <= maxorder distinct sites with all pairwise
distances inside the cutoff; derived vacancy / transition-state clusters; images and orbits under operations.
Part 2 (C32): energy of an occupation of a periodic supercell as the plain sum over cluster orbits, clusters,
and lattice translations of value * prod(occupation of the site found by explicit position lookup).
"""
import itertools

import numpy as np

from . import geom


# --------------------------------------------------------------------------------------------------
# sites, keys
# --------------------------------------------------------------------------------------------------
def flat_atoms(basis):
    """[(c, u)] and the list of (c, i) in the same order"""
    atoms, cis = [], []
    for c, sp in enumerate(basis):
        for i, u in enumerate(sp):
            atoms.append((c, np.asarray(u, dtype=float)))
            cis.append((c, i))
    return atoms, cis


def shift(site, T):
    c, i, R = site
    return (c, i, tuple(int(a) + int(b) for a, b in zip(R, T)))


def _neg(R):
    return tuple(-int(a) for a in R)


def key(cluster):
    kind, special, rest = cluster
    if kind == "plain":
        best = None
        for s0 in rest:
            T = _neg(s0[2])
            k = tuple(sorted(shift(s, T) for s in rest))
            if best is None or k < best:
                best = k
        return ("plain", best)
    if kind == "vac":
        T = _neg(special[0][2])
        return ("vac", shift(special[0], T), tuple(sorted(shift(s, T) for s in rest)))
    if kind == "vts":
        T = _neg(special[0][2])
        return ("vts", shift(special[0], T), shift(special[1], T), tuple(sorted(shift(s, T) for s in rest)))
    if kind == "ts":
        best = None
        for a, b in (special, special[::-1]):
            T = _neg(a[2])
            k = (shift(a, T), shift(b, T), tuple(sorted(shift(s, T) for s in rest)))
            if best is None or k < best:
                best = k
        return ("ts",) + best
    raise ValueError(kind)


def reverse(cluster):
    """the reverse transition: same sites, initial and final exchanged.  For a vacancy transition the atom that sat
    on the final site ends on the initial site, so an explicit `final` entry in rest becomes `initial`."""
    kind, special, rest = cluster
    a, b = special
    if kind == "vts":
        rest = tuple(a if s == b else s for s in rest)
    return (kind, (b, a), tuple(rest))


# --------------------------------------------------------------------------------------------------
# geometry: neighbour table and enumeration
# --------------------------------------------------------------------------------------------------
def site_cart(L, basis, site):
    c, i, R = site
    return L @ (np.asarray(basis[c][i], dtype=float) + np.asarray(R, dtype=float))


def neighbour_table(L, basis, cutoff, exclude=()):
    """nb[(c,i)] = sorted list of sites s (any cell) with 0 < |x(s) - x((c,i,0))| < cutoff, excluded species dropped"""
    L = np.asarray(L, dtype=float)
    d = L.shape[0]
    rng = [r + 1 for r in geom.lattice_range(L, cutoff)]  # +1: basis offsets are differences of positions in [0,1)
    Rs = np.array(list(itertools.product(*[range(-r, r + 1) for r in rng])), dtype=int)
    nb = {}
    sites = [(c, i) for c, sp in enumerate(basis) if c not in exclude for i in range(len(sp))]
    for (c0, i0) in sites:
        u0 = np.asarray(basis[c0][i0], dtype=float)
        out = []
        for (c1, i1) in sites:
            du = np.asarray(basis[c1][i1], dtype=float) - u0
            dx = (L @ (Rs + du).T).T
            r = np.sqrt((dx * dx).sum(axis=1))
            for n in np.nonzero((r > 1e-9) & (r < cutoff))[0]:
                out.append((c1, i1, tuple(int(x) for x in Rs[n])))
        nb[(c0, i0)] = sorted(out)
    return nb


def distances(L, basis, exclude=()):
    """sorted distinct inter-site distances (tolerance 1e-6) among the non-excluded species, a generous range"""
    L = np.asarray(L, dtype=float)
    rmax = 2.01 * max(np.linalg.norm(L, axis=0))
    nb = neighbour_table(L, basis, rmax, exclude)
    ds = sorted(np.linalg.norm(site_cart(L, basis, s) - site_cart(L, basis, (c, i, (0,) * L.shape[0])))
                for (c, i), lst in nb.items() for s in lst)
    out = []
    for x in ds:
        if not out or x - out[-1] > 1e-6:
            out.append(float(x))
    return out


def enumerate_plain(L, basis, cutoff, maxorder, exclude=()):
    """{key: cluster} of every plain cluster (1..maxorder distinct sites, pairwise within cutoff) modulo translation"""
    L = np.asarray(L, dtype=float)
    d = L.shape[0]
    zero = (0,) * d
    nb = neighbour_table(L, basis, cutoff, exclude)
    nbset = {}

    def near(s, t):
        # is t a neighbour of s ?  translate so that s sits in cell 0
        k = (s[0], s[1])
        if k not in nbset:
            nbset[k] = set(nb[k])
        return shift(t, _neg(s[2])) in nbset[k]

    found = {}
    for (c, i), lst in sorted(nb.items()):
        s0 = (c, i, zero)
        cl = ("plain", (), (s0,))
        found[key(cl)] = cl
        # grow subsets of the neighbour list of s0 that are mutually neighbours
        level = [((s0,), 0)]
        for order in range(2, maxorder + 1):
            new = []
            for sites, start in level:
                for n in range(start, len(lst)):
                    t = lst[n]
                    if all(near(s, t) for s in sites[1:]):
                        ns = sites + (t,)
                        new.append((ns, n + 1))
                        cl = ("plain", (), ns)
                        found.setdefault(key(cl), cl)
            level = new
    return found


def derive_vacancy(plain, chem):
    """{key: cluster}: every way of declaring one site of species chem of a plain cluster the vacancy"""
    out = {}
    for cl in plain.values():
        rest = cl[2]
        for n, s in enumerate(rest):
            if s[0] == chem:
                v = ("vac", (s,), rest[:n] + rest[n + 1:])
                out.setdefault(key(v), v)
    return out


def jump_pairs(L, basis, chem, jumpnetwork):
    """set of (i, j, R): species-chem atom i in cell 0 can jump to atom j in cell R, from ((i,j),dx) lists"""
    L = np.asarray(L, dtype=float)
    Linv = np.linalg.inv(L)
    out = set()
    for jl in jumpnetwork:
        for (i, j), dx in jl:
            R = Linv @ np.asarray(dx, dtype=float) - np.asarray(basis[chem][j], dtype=float) + np.asarray(basis[chem][i], dtype=float)
            Ri = np.round(R)
            if np.abs(R - Ri).max() > 1e-6:
                raise ValueError("jump does not connect the stated sites")
            out.add((int(i), int(j), tuple(int(x) for x in Ri)))
    return out


def _is_jump(jp, chem, a, b):
    if a[0] != chem or b[0] != chem:
        return False
    return (a[1], b[1], tuple(int(x) - int(y) for x, y in zip(b[2], a[2]))) in jp


def derive_ts(plain, chem, jp):
    """{key: cluster}: plain cluster + a pair of its sites joined by a jump of the network -> undirected TS cluster"""
    out = {}
    for cl in plain.values():
        rest = cl[2]
        for n, a in enumerate(rest):
            for m, b in enumerate(rest):
                if m != n and _is_jump(jp, chem, a, b):
                    t = ("ts", (a, b), tuple(s for k, s in enumerate(rest) if k not in (n, m)))
                    out.setdefault(key(t), t)
    return out


def derive_vts(vac, chem, jp):
    """{key: cluster}: vacancy cluster whose vacancy can jump onto one of its other sites b -> directed transitions
    vacancy->b with b's occupant unspecified (b dropped) and specified (b kept), and the reverses of both"""
    out = {}
    for cl in vac.values():
        (v,), rest = cl[1], cl[2]
        for n, b in enumerate(rest):
            if _is_jump(jp, chem, v, b):
                others = rest[:n] + rest[n + 1:]
                for t in (("vts", (v, b), others), ("vts", (v, b), (b,) + others)):
                    out.setdefault(key(t), t)
                    r = reverse(t)
                    out.setdefault(key(r), r)
    return out


# --------------------------------------------------------------------------------------------------
# symmetry images
# --------------------------------------------------------------------------------------------------
class OpTable(object):
    """integer action of brute-force space-group operations on sites: (c,i,R) -> (c,i',Rot R + s)"""

    def __init__(self, L, basis):
        self.L = np.asarray(L, dtype=float)
        self.basis = basis
        atoms, cis = flat_atoms(basis)
        self.cis = cis
        self.flat = {ci: n for n, ci in enumerate(cis)}
        self.ops = geom.space_group(self.L, atoms)
        self.table = []
        for (Rot, t, perm) in self.ops:
            img = []
            for n, (c, u) in enumerate(atoms):
                m = perm[n]
                s = Rot @ u + t - atoms[m][1]
                si = np.round(s)
                if np.abs(s - si).max() > 1e-5:
                    raise ValueError("operation does not map atom onto atom")
                img.append((cis[m], tuple(int(x) for x in si)))
            self.table.append(([[int(x) for x in row] for row in Rot], img))

    def __len__(self):
        return len(self.table)

    def site(self, g, s):
        rot, img = self.table[g]
        (c, i), sh = img[self.flat[(s[0], s[1])]]
        R = s[2]
        return (c, i, tuple(sum(row[k] * R[k] for k in range(len(R))) + sh[a] for a, row in enumerate(rot)))

    def image(self, g, cluster):
        kind, special, rest = cluster
        return (kind, tuple(self.site(g, s) for s in special), tuple(self.site(g, s) for s in rest))

    def orbit(self, cluster):
        """set of keys of all images"""
        return set(key(self.image(g, cluster)) for g in range(len(self.table)))


# --------------------------------------------------------------------------------------------------
# Part 2: periodic supercell energies
# --------------------------------------------------------------------------------------------------
def translations(S):
    """one integer representative per class of Z^d / S Z^d (|det S| of them), found by brute force"""
    S = np.asarray(S, dtype=int)
    d = S.shape[0]
    size = abs(int(round(np.linalg.det(S))))
    Sinv = np.linalg.inv(S)
    if size == 0:
        raise ValueError("singular supercell")
    reps, seen = [], set()
    m = -1
    while len(reps) < size:
        m += 1
        if m > size + 1:  # every class has a representative with |entries| <= size
            raise ValueError("could not enumerate the translations of the supercell")
        for T in itertools.product(range(-m, m + 1), repeat=d):
            if max(abs(x) for x in T) != m:
                continue  # inner shells were scanned before
            # S^-1 T has denominators dividing |det S|: classify by the exact integer numerators modulo |det S|
            k = tuple(int(x) % size for x in np.round(size * (Sinv @ np.array(T))))
            if k not in seen:
                seen.add(k)
                reps.append(tuple(int(x) for x in T))
    if len(reps) != size:
        raise ValueError("translation count %d != |det| %d" % (len(reps), size))
    return reps


class Lookup(object):
    """explicit position lookup: site (c,i,R) -> index of the row of `positions` (supercell direct coordinates,
    as published by the supercell object) that holds the same point modulo the supercell lattice"""

    def __init__(self, S, basis, positions_by_species_kind):
        """positions_by_species_kind: {c: array of direct supercell coordinates in which species c must be sought}"""
        self.Sinv = np.linalg.inv(np.asarray(S, dtype=float))
        self.basis = basis
        self.pos = positions_by_species_kind
        self.memo = {}

    def __call__(self, site):
        c, i, R = site
        k = (c, i, tuple(R))
        if k not in self.memo:
            q = self.Sinv @ (np.asarray(self.basis[c][i], dtype=float) + np.asarray(R, dtype=float))
            P = self.pos[c]
            dlt = P - q
            dlt -= np.round(dlt)
            r = np.abs(dlt).max(axis=1)
            hits = np.nonzero(r < 1e-6)[0]
            if len(hits) != 1:
                raise LookupError("site %s matches %d supercell positions" % (str(site), len(hits)))
            self.memo[k] = int(hits[0])
        return self.memo[k]


def expand_rows(groups, S, lookup, spectator, socc, vacancy=None):
    """Explicit expansion of the cluster counts  N_m(occ) = sum_{cluster in group m} sum_T prod occ(site + T).

    groups  : list of lists of plain clusters (kind "plain" or "vac")
    returns (c0, rows, ncell): c0[m] = constant part of N_m (placements without mobile sites), rows = list of
    (m, tuple of mobile indices): the placement counts when every listed mobile index is occupied; ncell = |det S|.
    Spectator factors are evaluated here (placements touching an empty spectator site are dropped).
    A vacancy cluster is placed only by the translation that puts its vacancy site on index `vacancy`;
    the vacancy position itself is never occupied (placements touching it are dropped)."""
    reps = translations(S)
    c0 = [0] * len(groups)
    rows = []
    for m, grp in enumerate(groups):
        for (kind, special, rest) in grp:
            for T in reps:
                if kind == "vac":
                    if vacancy is None:
                        continue
                    v = shift(special[0], T)
                    if v[0] in spectator or lookup(v) != vacancy:
                        continue
                elif kind != "plain":
                    raise ValueError(kind)
                ok, idx = True, []
                for s in rest:
                    st = shift(s, T)
                    n = lookup(st)
                    if st[0] in spectator:
                        if socc[n] != 1:
                            ok = False
                            break
                    else:
                        if vacancy is not None and n == vacancy:
                            ok = False
                            break
                        idx.append(n)
                if not ok:
                    continue
                if idx:
                    rows.append((m, tuple(idx)))
                else:
                    c0[m] += 1
    return c0, rows, len(reps)


def counts(c0, rows, occs):
    """cluster counts of many occupations at once: occs = array (nocc, nsites), a site is occupied iff its entry == 1;
    returns int array (nocc, ngroups)"""
    occs = np.asarray(occs)
    one = (occs == 1)
    N = np.tile(np.array(c0, dtype=np.int64), (occs.shape[0], 1))
    for m, idx in rows:
        p = one[:, idx[0]].copy()
        for n in idx[1:]:
            p &= one[:, n]
        N[:, m] += p
    return N


def from_library(cl):
    """adapter: a library Cluster object (read through its public accessors only) -> plain (kind, special, rest)"""
    def site(s):
        return (int(s.ci[0]), int(s.ci[1]), tuple(int(x) for x in s.R))
    rest = tuple(site(s) for s in cl)
    tr, va = bool(cl.__transition__), bool(cl.__vacancy__)
    if tr:
        a, b = cl.transitionstate()
        return ("vts" if va else "ts", (site(a), site(b)), rest)
    if va:
        return ("vac", (site(cl.vacancy()),), rest)
    return ("plain", (), rest)
