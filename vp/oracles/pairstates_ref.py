"""Brute-force solute-vacancy pair states, their symmetry orbits and transitions (no onsager code inside).

A pair state is the integer tuple (i, j, R_1..R_d): solute on basis site i of cell 0, vacancy on basis site j of
cell R; its Cartesian separation is dx = L (R + u_j - u_i).  A vacancy jump is a triple (j, k, R') (vacancy moves
from site j to site k in the cell displaced by R').  A space-group operation is plain data (rot, trans, perm):
u -> rot u + trans in unit coordinates, perm[i] = basis index the image of site i lands on.  Everything below is
integer arithmetic once the per-site cell shifts of every operation have been determined.
"""
import itertools

import numpy as np

from . import geom


class NotClosed(Exception):
    """the image of a state under a group operation left the given state set"""


class PairGeom(object):
    def __init__(self, lattice, basis, ops, tol=1e-6):
        """lattice: d x d (columns); basis: unit positions of the mobile species; ops: list of (rot, trans, perm)"""
        self.L = np.asarray(lattice, dtype=float)
        self.Linv = np.linalg.inv(self.L)
        self.d = self.L.shape[0]
        self.u = [np.asarray(x, dtype=float) for x in basis]
        self.n = len(self.u)
        self.ops = []
        scale = np.linalg.norm(self.L, axis=0).max()
        for rot, trans, perm in ops:
            rot = np.asarray(rot)
            if not np.all(rot == np.round(rot)):
                raise ValueError("rot is not integer")
            rot = np.round(rot).astype(int)
            trans = np.asarray(trans, dtype=float)
            perm = [int(p) for p in perm]
            if sorted(perm) != list(range(self.n)):
                raise ValueError("index map is not a permutation")
            shift = np.zeros((self.n, self.d), dtype=int)
            for i in range(self.n):
                v = rot @ self.u[i] + trans - self.u[perm[i]]
                shift[i] = np.round(v).astype(int)
                if np.linalg.norm(self.L @ (v - shift[i])) > tol * scale:
                    raise ValueError("operation does not map site %d onto site %d" % (i, perm[i]))
            C = self.L @ rot @ self.Linv
            if np.abs(C @ C.T - np.eye(self.d)).max() > 1e-7:
                raise ValueError("operation is not an isometry")
            self.ops.append((rot, np.array(perm, dtype=int), shift, C))
        self.nops = len(self.ops)

    # ---- plain geometry ---------------------------------------------------------------------
    def dx(self, s):
        return self.L @ (np.array(s[2:], dtype=float) + self.u[s[1]] - self.u[s[0]])

    def dx_array(self, S):
        S = np.asarray(S, dtype=int).reshape(-1, 2 + self.d)
        U = np.array(self.u)
        return (S[:, 2:] + U[S[:, 1]] - U[S[:, 0]]) @ self.L.T

    def zero(self, i):
        return (i, i) + (0,) * self.d

    @staticmethod
    def iszero(s):
        return s[0] == s[1] and not any(s[2:])

    @staticmethod
    def neg(s):
        return (s[1], s[0]) + tuple(-x for x in s[2:])

    @staticmethod
    def endpoint_difference(s1, s2):
        """from the vacancy of s1 to the vacancy of s2 (same solute site): (j1, j2, R2 - R1)"""
        assert s1[0] == s2[0]
        return (s1[1], s2[1]) + tuple(b - a for a, b in zip(s1[2:], s2[2:]))

    def jump_from_dx(self, i, j, dx, tol=1e-6):
        """(i, j, R) of a displacement dx from site i to site j; ValueError when dx is not such a displacement"""
        v = self.Linv @ np.asarray(dx, dtype=float) - self.u[j] + self.u[i]
        R = np.round(v).astype(int)
        if np.abs(v - R).max() > tol:
            raise ValueError("displacement does not connect the named sites")
        return (int(i), int(j)) + tuple(int(x) for x in R)

    # ---- reachable sets ------------------------------------------------------------------------
    def reachable(self, jumps, N, origin=False):
        """set of non-zero states (i, j, R): the vacancy, started on the solute's site i, can stand on (j, R) after a
        walk of n jumps for some 1 <= n <= N (walks are unrestricted; a walk that revisits the solute's site and goes
        on is a shorter walk from the solute's site, so nothing is gained or lost by allowing it);
        plus the zero states when origin=True"""
        out = set()
        byfrom = {}
        for t in jumps:
            byfrom.setdefault(int(t[0]), set()).add((int(t[1]), tuple(int(x) for x in t[2:])))
        for i in range(self.n):
            frontier = {(i,) + (0,) * self.d}
            for n in range(N):
                new = set()
                for pos in frontier:
                    for (k, Rp) in byfrom.get(pos[0], ()):
                        new.add((k,) + tuple(a + b for a, b in zip(pos[1:], Rp)))
                frontier = new
                for pos in frontier:
                    s = (i,) + pos
                    if not self.iszero(s):
                        out.add(s)
        if origin:
            for i in range(self.n):
                out.add(self.zero(i))
        return out

    # ---- symmetry -------------------------------------------------------------------------------
    def image(self, g, s):
        rot, perm, shift, C = self.ops[g]
        R = rot @ np.array(s[2:], dtype=int) + shift[s[1]] - shift[s[0]]
        return (int(perm[s[0]]), int(perm[s[1]])) + tuple(int(x) for x in R)

    def images(self, g, S):
        """vectorised image of an integer array of states (n x (2+d))"""
        rot, perm, shift, C = self.ops[g]
        S = np.asarray(S, dtype=int).reshape(-1, 2 + self.d)
        out = np.empty_like(S)
        out[:, 0] = perm[S[:, 0]]
        out[:, 1] = perm[S[:, 1]]
        out[:, 2:] = S[:, 2:] @ rot.T + shift[S[:, 1]] - shift[S[:, 0]]
        return out

    def cartrot(self, g):
        return self.ops[g][3]

    def permutations(self, states):
        """states: list of distinct tuples, closed under the group.  Returns int array P[nops, n] with
        states[P[g, a]] = g . states[a]; raises NotClosed otherwise"""
        index = {s: n for n, s in enumerate(states)}
        if len(index) != len(states):
            raise ValueError("duplicate states")
        S = np.array(states, dtype=int).reshape(-1, 2 + self.d)
        P = np.zeros((self.nops, len(states)), dtype=int)
        for g in range(self.nops):
            img = self.images(g, S)
            for a, row in enumerate(img):
                b = index.get(tuple(int(x) for x in row))
                if b is None:
                    raise NotClosed("image of %s under operation %d is %s, outside the set" % (states[a], g, tuple(int(x) for x in row)))
                P[g, a] = b
        return P

    @staticmethod
    def orbits_from_perms(P, extra=()):
        """partition of range(n) under the permutations P[g] (and optional extra permutations, e.g. reversal)"""
        n = P.shape[1]
        parent = list(range(n))

        def find(a):
            while parent[a] != a:
                parent[a] = parent[parent[a]]
                a = parent[a]
            return a
        for perm in list(P) + list(extra):
            for a in range(n):
                ra, rb = find(a), find(int(perm[a]))
                if ra != rb:
                    parent[max(ra, rb)] = min(ra, rb)
        orb = {}
        for a in range(n):
            orb.setdefault(find(a), []).append(a)
        return [orb[k] for k in sorted(orb)]

    def orbits(self, states):
        """(sorted state list, permutations, list of orbits as index lists, orbit id per state)"""
        states = sorted(states)
        P = self.permutations(states)
        orbs = self.orbits_from_perms(P)
        oid = [0] * len(states)
        for k, o in enumerate(orbs):
            for a in o:
                oid[a] = k
        return states, P, orbs, oid

    def orbit_of(self, s):
        """complete orbit of one state (no closure requirement)"""
        return frozenset(self.image(g, s) for g in range(self.nops))

    def canonical(self, states):
        """lexicographically smallest member of the orbit of every state of the list (vectorised)"""
        if not states:
            return []
        S = np.array(states, dtype=np.int64).reshape(-1, 2 + self.d)
        B = int(np.abs(S[:, 2:]).max()) * (2 * self.d + 1) + 8   # generous bound on |R| of any image (checked below)
        M = 2 * B + 1
        best, bestimg = None, None
        for g in range(self.nops):
            img = self.images(g, S).astype(np.int64)
            key = img[:, 0] * self.n + img[:, 1]
            for c in range(self.d):
                if np.abs(img[:, 2 + c]).max() > B:
                    raise ValueError("cell index out of the encoding range")
                key = key * M + (img[:, 2 + c] + B)
            if best is None:
                best, bestimg = key.copy(), img.copy()
            else:
                m = key < best
                best[m] = key[m]
                bestimg[m] = img[m]
        return [tuple(int(x) for x in row) for row in bestimg]

    def stabiliser(self, s):
        return [g for g in range(self.nops) if self.image(g, s) == tuple(s)]

    def invariant_dim(self, s):
        """dimension of the space of vectors fixed by every operation that fixes the state"""
        stab = self.stabiliser(s)
        return geom.invariant_subspace([self.cartrot(g) for g in stab]).shape[1], stab

    def invariant_basis(self, s):
        stab = self.stabiliser(s)
        return geom.invariant_subspace([self.cartrot(g) for g in stab])

    # ---- transitions with the solute fixed ----------------------------------------------------------
    def swing_jumps(self, states, jumps):
        """all ordered pairs (a, b) of non-zero states of the set with the same solute site such that the vacancy of a
        reaches the vacancy of b by one jump of the network; returns dict (a, b) -> (j, k, R') (the vacancy jump)"""
        sset = set(states)
        byfrom = {}
        for t in jumps:
            byfrom.setdefault(int(t[0]), set()).add((int(t[1]), tuple(int(x) for x in t[2:])))
        out = {}
        for a in sset:
            if self.iszero(a):
                continue
            for (k, Rp) in byfrom.get(a[1], ()):
                b = (a[0], k) + tuple(x + y for x, y in zip(a[2:], Rp))
                if self.iszero(b) or b not in sset:
                    continue
                out[(a, b)] = (a[1], k) + Rp
        return out

    def exchanges(self, states, jumps):
        """all non-zero states a of the set whose vacancy can jump onto the solute's site: a -> -a;
        returns dict (a, -a) -> vacancy jump (j, i, -R)"""
        jset = set(tuple(x) for x in jumps)
        out = {}
        for a in states:
            if self.iszero(a):
                continue
            jmp = (a[1], a[0]) + tuple(-x for x in a[2:])
            if jmp in jset:
                out[(a, self.neg(a))] = jmp
        return out

    def transition_orbits(self, trans):
        """orbits of ordered pairs of states under the group and reversal; trans: iterable of (a, b).
        Returns (sorted list, orbit index lists, orbit id per element); raises NotClosed when an image is missing"""
        tl = sorted(trans)
        index = {t: n for n, t in enumerate(tl)}
        n = len(tl)
        perms = []
        A = np.array([t[0] for t in tl], dtype=int).reshape(-1, 2 + self.d)
        B = np.array([t[1] for t in tl], dtype=int).reshape(-1, 2 + self.d)
        for g in range(self.nops):
            ia, ib = self.images(g, A), self.images(g, B)
            perm = np.zeros(n, dtype=int)
            for m in range(n):
                key = (tuple(int(x) for x in ia[m]), tuple(int(x) for x in ib[m]))
                if key not in index:
                    raise NotClosed("image of transition %s under operation %d is not a transition" % (tl[m], g))
                perm[m] = index[key]
            perms.append(perm)
        rev = np.zeros(n, dtype=int)
        for m, (a, b) in enumerate(tl):
            if (b, a) not in index:
                raise NotClosed("reverse of transition %s is not a transition" % (tl[m],))
            rev[m] = index[(b, a)]
        orbs = self.orbits_from_perms(np.array(perms).reshape(self.nops, n), extra=[rev])
        oid = [0] * n
        for k, o in enumerate(orbs):
            for m in o:
                oid[m] = k
        return tl, orbs, oid


def from_crystal(crys, chem):
    """PairGeom from the plain data of a constructed crystal: lattice, basis of one species and, for every operation,
    (rot, trans, indexmap[chem]); operations are sorted by a canonical key (crys.G is a frozenset)"""
    ops = []
    for g in crys.G:
        ops.append((np.array(g.rot), np.array(g.trans, dtype=float), tuple(g.indexmap[chem])))
    ops.sort(key=lambda o: (tuple(int(x) for x in o[0].flatten()), tuple(np.round(o[1], 6).tolist())))
    return PairGeom(np.array(crys.lattice), [np.array(u) for u in crys.basis[chem]], ops)


def convert_network(pg, jumpnetwork):
    """library jump network [[((i, j), dx), ...], ...] -> list of classes of (i, j, R) and flat dict jump -> class"""
    classes, where = [], {}
    for c, jl in enumerate(jumpnetwork):
        cl = []
        for (i, j), dx in jl:
            t = pg.jump_from_dx(i, j, dx)
            cl.append(t)
            where[t] = c
        classes.append(cl)
    return classes, where


def capped_range(pg, jumps, N, cap, origin=False):
    """largest n <= N whose reachable set has at most cap states (at least 1); returns (n, set)"""
    best = None
    for n in range(1, N + 1):
        s = pg.reachable(jumps, n, origin)
        if best is not None and len(s) > cap:
            break
        best = (n, s)
    return best
