"""Exact dilute one-solute / one-vacancy Markov chain on periodic supercells, extrapolated to infinite dilution.

Brute force: every (solute site, vacancy site, cell offset) state of an L^d supercell is a row of a sparse symmetrised rate
matrix; transport coefficients are L = D_bare + b^T Omega^-1 b for solute and vacancy displacements.  No stars, no vector
stars, no Green function, no symmetry.

Normalisation (matches VacancyMediated.Lij): state weights e^{-F}/(z_S z_V) with z_S, z_V the site averages of e^{-F_S},
e^{-F_V}; results divided by the number of sites per cell.  In this normalisation
    Lss, Lsv            -> library Lss, Lsv as N_sites -> infinity
    Lvv - (N_s - 1) D0  -> library L1vv when the solute site energies are uniform; otherwise the site occupied by the
                           solute removes a vacancy site with the solute's site probability: the reference adds
                           sum_s (p_S(s) - 1) X_s / n_b with X_s the site-resolved lone-vacancy diffusivity.
"""
import itertools

import numpy as np
import scipy.sparse as sp
import scipy.sparse.linalg as spl


def chain(lattice, nb, jumps, Ls, Fstate, Ftrans, FS, FV, FT0):
    """
    jumps: list of (i, j, dR(int tuple), dx(cart), jt)     vacancy jumps of the bare network
    Fstate(i, j, R) -> binding free energy of solute at (i,0), vacancy at (j,R)  (0 outside the interaction range)
    Ftrans(i, j, R, j2, R2, jt) -> total TS free energy, R2 None flags the exchange; None -> unperturbed (FT0[jt] + FS[i])
    returns Lss, Lsv, Lvv, number of states
    """
    d = lattice.shape[0]
    Ls = np.array(Ls)
    cells = list(itertools.product(*[range(L) for L in Ls]))

    def wrap(R):
        return tuple(int(x) for x in np.mod(R, Ls))

    def cent(R):
        R = np.mod(R, Ls)
        return np.where(R > Ls // 2, R - Ls, R)
    states = [(i, j, c) for i in range(nb) for j in range(nb) for c in cells if not (i == j and all(x == 0 for x in c))]
    sidx = {s: n for n, s in enumerate(states)}
    M = len(states)
    zS = np.mean(np.exp(-np.array(FS)))
    zV = np.mean(np.exp(-np.array(FV)))
    F = np.array([FS[i] + FV[j] + Fstate(i, j, tuple(int(x) for x in cent(np.array(c)))) for (i, j, c) in states])
    rho = np.exp(-F) / (zS * zV)
    sq = np.sqrt(rho)
    rows, cols, vals = [], [], []
    diag = np.zeros(M)
    bS = np.zeros((M, d))
    bV = np.zeros((M, d))
    D0ss = np.zeros((d, d))
    D0sv = np.zeros((d, d))
    D0vv = np.zeros((d, d))
    byi = {}
    for (a, b, dR, dx, jt) in jumps:
        byi.setdefault(a, []).append((b, np.array(dR), np.array(dx, dtype=float), jt))
    for n, (i, j, c) in enumerate(states):
        R = cent(np.array(c))
        for (j2, dR, dx, jt) in byi.get(j, []):
            R2 = R + dR
            if j2 == i and all(np.mod(R2, Ls) == 0):
                s2 = (j, i, wrap(-R))
                FT = Ftrans(i, j, tuple(int(x) for x in R), j2, None, jt)
                dS, dV = -dx, dx
            else:
                s2 = (i, j2, wrap(R2))
                FT = Ftrans(i, j, tuple(int(x) for x in R), j2, tuple(int(x) for x in cent(R2)), jt)
                dS, dV = 0 * dx, dx
            if FT is None:
                FT = FT0[jt] + FS[i]
            w = np.exp(-(FT - F[n]))
            m = sidx[s2]
            rows.append(n)
            cols.append(m)
            vals.append(sq[n] * w / sq[m])
            diag[n] -= w
            bS[n] += sq[n] * w * dS
            bV[n] += sq[n] * w * dV
            D0ss += 0.5 * rho[n] * w * np.outer(dS, dS)
            D0sv += 0.5 * rho[n] * w * np.outer(dS, dV)
            D0vv += 0.5 * rho[n] * w * np.outer(dV, dV)
    Om = sp.csr_matrix((vals, (rows, cols)), shape=(M, M)) + sp.diags(diag)
    asym = abs(Om - Om.T).max()
    if asym > 1e-8 * abs(diag).max():
        raise ValueError("chain rate matrix is not symmetric (%g): the supplied energies break detailed balance" % asym)
    v0 = sq / np.linalg.norm(sq)
    B = sp.bmat([[Om, sp.csr_matrix(v0[:, None])], [sp.csr_matrix(v0[None, :]), None]], format='csc')
    lu = spl.splu(B)

    def solve(b):
        x = np.zeros_like(b)
        for k in range(b.shape[1]):
            rhs = np.concatenate([b[:, k] - v0 * np.dot(v0, b[:, k]), [0.]])
            x[:, k] = lu.solve(rhs)[:-1]
        return x
    gS, gV = solve(bS), solve(bV)
    Lss = (D0ss + bS.T @ gS) / nb
    Lsv = (D0sv + bS.T @ gV) / nb
    Lvv = (D0vv + bV.T @ gV) / nb
    return Lss, Lsv, Lvv, M


def lone_vacancy(dim, nb, jumps, FV, FT0):
    """lone vacancy: diffusivity D0 (per-site normalisation) and its site-resolved parts X_s (sum_s X_s / nb = D0)"""
    rho = np.exp(-np.array(FV, dtype=float))
    rho /= rho.mean()
    Om = np.zeros((nb, nb))
    b = np.zeros((nb, dim))
    X = np.zeros((nb, dim, dim))
    for (a, b2, dR, dx, jt) in jumps:
        w = np.exp(-(FT0[jt] - FV[a]))
        dx = np.array(dx, dtype=float)
        Om[a, b2] += np.sqrt(rho[a]) * w / np.sqrt(rho[b2])
        Om[a, a] -= w
        b[a] += np.sqrt(rho[a]) * w * dx
        X[a] += 0.5 * rho[a] * w * np.outer(dx, dx)
    g = np.linalg.pinv(Om) @ b
    for s in range(nb):
        X[s] += 0.5 * (np.outer(b[s], g[s]) + np.outer(g[s], b[s]))
    return X.sum(axis=0) / nb, X


def supercell_sizes(dim, nb, budget=12000):
    """three supercell multiplicities (isotropic in lattice units) whose largest state count stays within budget"""
    if dim == 3:
        # as large as the budget allows: with thermodynamic range 2 the kinetic shell spans several cells and L = 8 is still
        # pre-asymptotic (simple cubic, range 2: the finite-size correction carries a large 1/N^(4/3) term next to 1/N and the
        # extrapolants from L = 8, 10, 12 coincided by accident, error bar 8x too small; L = 12, 14, 16 is clean)
        for trip in ((12, 14, 16), (10, 12, 14), (8, 10, 12), (7, 9, 11), (6, 8, 10), (5, 6, 8), (4, 5, 6), (3, 4, 5)):
            if nb * nb * trip[-1] ** 3 <= budget:
                return trip
        return (3, 4, 5)
    # 2D: the lattice Green function is logarithmic, finite-size corrections carry 1/N and (ln N)/N^2 terms and small
    # cells sit in a pre-asymptotic regime where successive 1/N extrapolants can coincide by accident (seen on the
    # triangular lattice with second-neighbour interactions at L = 16, 20, 24: the estimated error bar was 20x too small).
    # Cells are cheap here, so use a wide triple (L/2, 3L/4, L) with L as large as the budget allows (at most 64).
    L = min(64, int(np.sqrt(budget / float(nb * nb))))
    L = max(12, 4 * (L // 4))
    return (L // 2, 3 * L // 4, L)


def dilute_limit(lattice, nb, jumps, Fstate, Ftrans, FS, FV, FT0, sizes=None, budget=12000):
    """extrapolate the chain in 1/N_sites; returns dict of tensors and error bars (difference of successive extrapolants)"""
    dim = lattice.shape[0]
    if sizes is None:
        sizes = supercell_sizes(dim, nb, budget)
    D0, X = lone_vacancy(dim, nb, jumps, FV, FT0)
    pS = np.exp(-np.array(FS, dtype=float))
    pS /= pS.mean()
    corr = sum((pS[s] - 1.) * X[s] for s in range(nb)) / nb
    res = []
    for L in sizes:
        ss, sv, vv, M = chain(lattice, nb, jumps, [L] * dim, Fstate, Ftrans, FS, FV, FT0)
        Ns = nb * L ** dim
        res.append((Ns, ss, sv, vv - (Ns - 1) * D0 + corr, M))

    def ex(k, a, b):
        return (b[0] * b[k] - a[0] * a[k]) / (b[0] - a[0])
    out = {"D0": D0, "states": [r[4] for r in res], "sizes": list(sizes)}
    def quad(k):
        # three-point extrapolant with 1/N and 1/N^2 terms
        A = np.array([[1., 1. / r[0], 1. / r[0] ** 2] for r in res])
        w = np.linalg.solve(A.T, np.array([1., 0., 0.]))
        return sum(wi * r[k] for wi, r in zip(w, res))
    for nm, k in (("Lss", 1), ("Lsv", 2), ("L1vv", 3)):
        e12, e23 = ex(k, res[0], res[1]), ex(k, res[1], res[2])
        if dim == 2:
            q = quad(k)
            out[nm] = q
            out[nm + "_err"] = float(max(np.abs(q - e23).max(), 0.2 * np.abs(e23 - e12).max()))
        else:
            out[nm] = e23
            out[nm + "_err"] = float(np.abs(e23 - e12).max())
        out[nm + "_raw"] = res[2][k]
        # size of the correction the extrapolation applied to the largest cell: the caller does not trust it to better than a quarter
        out[nm + "_step"] = float(np.abs(out[nm] - res[2][k]).max())
    return out
