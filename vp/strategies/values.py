"""Group-operation specs, near-equal perturbations and small value-type recipes shared by C23 and C36 (plain JSON data)."""
import numpy as np
from hypothesis import strategies as st

EPS = 2.0 ** -52


def sorted_ops(crys):
    """crys.G is a frozenset: a canonical order (by integer rotation, index map, rounded translation)"""
    return sorted(crys.G, key=lambda g: (tuple(int(x) for x in np.asarray(g.rot).flatten()), g.indexmap,
                                         tuple(float(x) for x in np.round(np.asarray(g.trans, dtype=float), 6) + 0.)))


@st.composite
def opspecs(draw, dim, plain_prob=0.4):
    """{"a": index, "b": index or None, "inv": bool, "shift": [ints] or None}: G[a] (* G[b]) (.inv()) (+ shift); indices are
    taken modulo the group order"""
    spec = {"a": draw(st.integers(0, 47)), "b": None, "inv": False, "shift": None}
    if draw(st.floats(0, 1)) < plain_prob:
        return spec
    if draw(st.booleans()):
        spec["b"] = draw(st.integers(0, 47))
    spec["inv"] = draw(st.booleans())
    if draw(st.booleans()):
        spec["shift"] = [draw(st.integers(-3, 3)) for _ in range(dim)]
    return spec


def build_op(crys, spec, G=None):
    if G is None:
        G = sorted_ops(crys)
    g = G[spec["a"] % len(G)]
    if spec.get("b") is not None:
        g = g * G[spec["b"] % len(G)]
    if spec.get("inv"):
        g = g.inv()
    if spec.get("shift") is not None:
        g = g + np.array(spec["shift"], dtype=int)
    return g


def nudge(x, ks):
    """x (float array) with component n moved by ks[n] * 2^-52 * max(|x_n|, 1): at most |k| ulp of max(|x_n|,1)"""
    x = np.array(x, dtype=float)
    flat = x.reshape(-1)
    for n in range(flat.size):
        flat[n] = flat[n] + ks[n % len(ks)] * EPS * max(abs(flat[n]), 1.0)
    return flat.reshape(x.shape)


def ulps(n, lo=-4, hi=4):
    return st.lists(st.integers(lo, hi), min_size=n, max_size=n)


def lattvec(dim, lo=-6, hi=6):
    return st.lists(st.integers(lo, hi), min_size=dim, max_size=dim)
