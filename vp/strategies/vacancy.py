"""Vacancy-mediated calculators: setup cases, cached construction, thermodynamic data in the calculator's input order.

setup = {"recipe":..., "chem": 0, "k": shell index, "closest": 0, "Nthermo": n}
data  = {"bFV": [...], "bFS": [...], "bFSV": [...], "bFT0": [...], "bFT1": [...], "bFT2": [...]}   (units of kT)
"""
import numpy as np
from hypothesis import strategies as st

from . import crystals as cs, networks as nw
from ..core import canon, known_ids

# catalogue members with few vacancy sites per cell (cheap to build); second entry: has sites with a non-zero vector basis
SMALL = ["SC", "FCC", "BCC", "HCP", "diamond", "B2", "B2o", "L12", "omega", "omegaB", "romega", "romegaB", "square", "tria", "honeycomb", "rect2", "tetP2", "mono2", "tet2w", "sq2w", "sq3", "sq3B"]

MULTI = ["HCP", "diamond", "B2", "omega", "omegaB", "romega", "honeycomb", "rect2", "tetP2", "mono2", "tet2w", "sq2w", "sq3", "sq3B"]

_calc = {}


def setup_key(setup):
    return canon([setup["recipe"]["lattice"], setup["recipe"]["basis"], setup["chem"], setup["k"], setup.get("closest", 0), setup["Nthermo"]] +
                 (["slperm"] if setup.get("slperm") else []) + ([["keep"] + list(setup["keep"])] if setup.get("keep") else []))


def calculator(setup, fresh=False, NGFmax=4):
    """(crys, sitelist, jumpnetwork, VacancyMediated) for a setup; cached per process unless fresh"""
    from onsager import OnsagerCalc
    key = setup_key(setup) + "|%d" % NGFmax
    if fresh or key not in _calc:
        crys = cs.build(setup["recipe"])
        sl, jn, cut = nw.network(crys, setup["chem"], setup["k"], setup.get("closest", 0))
        if setup.get("keep"):
            # the caller's jump network need not be everything inside a cutoff: some symmetry classes left out
            jn = [jn[i] for i in setup["keep"]]
        if setup.get("slperm"):
            # the caller lists the Wyckoff sets (and their members) in its own order: the constructor takes any sitelist
            sl = [list(reversed(w)) for w in reversed(sl)]
        calc = OnsagerCalc.VacancyMediated(crys, setup["chem"], sl, jn, setup["Nthermo"], NGFmax=NGFmax)
        calc._vp_pruned = bool(setup.get("keep"))   # harness-side label only (class histogram)
        if fresh:
            return crys, sl, jn, calc
        if len(_calc) > 60:
            _calc.clear()
        _calc[key] = (crys, sl, jn, calc)
    return _calc[key]


def usable(crys, chem, k, closest=0, max_jumps=40):
    # cost cap (not a property of the library): the Green-function evaluation scales with the number of irreducible
    # k-points times the number of stars; very low symmetry with several sites costs minutes per data set
    if len(crys.G) < (4 if crys.dim == 3 else 2) and len(crys.basis[chem]) > 1:
        return False
    sl, jn, cut = nw.network(crys, chem, k, closest)
    if not jn or sum(len(j) for j in jn) > max_jumps:
        return False
    if not nw.gf_ok(crys, chem, sl, jn):
        return False
    return nvstars_estimate(crys, chem, k, 1) <= NV_CAP


def site_vector_basis(crys, chem=0):
    """True when some site of the species has a non-zero vector basis (then the calculator has 'origin states')"""
    return any(crys.VectorBasis((chem, i))[0] > 0 for i in range(len(crys.basis[chem])))


NO_OS = ["SC", "FCC", "BCC", "HCP", "diamond", "B2o", "L12", "omega", "omegaB", "square", "tria", "honeycomb", "tet2w", "sq2w", "sq3", "sq3B"]
# several Wyckoff sets on the vacancy sublattice (drawn more often: most defects of the Lij family need them)
MULTIW = ["omega", "omegaB", "romega", "romegaB", "tet2w", "sq2w", "sq3", "sq3B"]


def nvstars_estimate(crys, chem, k, Nthermo):
    """cheap upper estimate of the number of vector stars of the kinetic star set (range Nthermo+1): BFS over vacancy
    positions, states * dim / |G|.  Used only as a cost cap: the constructor cleans dense [Nv, Nv, n] arrays element by
    element, 100 vector stars cost seconds, 300 cost minutes."""
    sl, jn, cut = nw.network(crys, chem, k, 0)
    basis = [np.array(u) for u in crys.basis[chem]]
    nb = len(basis)
    hops = {}
    for jl in jn:
        for (i, j), dx in jl:
            R = tuple(int(x) for x in np.round(crys.invlatt @ dx - basis[j] + basis[i]))
            hops.setdefault(i, set()).add((j, R))
    total = 0
    for i0 in range(nb):
        seen = {(i0, (0,) * crys.dim)}
        frontier = set(seen)
        for _ in range(Nthermo + 1):
            new = set()
            for (j, R) in frontier:
                for (j2, dR) in hops.get(j, ()):
                    s2 = (j2, tuple(a + b for a, b in zip(R, dR)))
                    if s2 not in seen:
                        seen.add(s2)
                        new.add(s2)
            frontier = new
        total += len(seen)
    return total * crys.dim / float(len(crys.G))


NV_CAP = 110


@st.composite
def setups(draw, dim=None, nthermo=(1, 2), max_mobile=3, p_catalogue=0.5, names=None, max_jumps=40, originstates="any", prune=True):
    """crystal + percolating vacancy network + thermodynamic range; species 0 is the vacancy sublattice.
    originstates: "any" | "no" (crystals whose vacancy sites carry a vector basis are replaced; the setup is then marked
    with "redrawn": "originstates" so that the number of exclusions can be counted)"""
    names = SMALL if names is None else names
    if originstates == "no":
        names = [n for n in names if n in NO_OS]
    redrawn = None
    if draw(st.floats(0, 1)) < p_catalogue:
        cands = cs.catalogue(names, dim)
        multiw = [c for c in cands if c["name"] in MULTIW]
        if multiw and draw(st.floats(0, 1)) < 0.4:
            cands = multiw
        rec = draw(st.sampled_from(cands))
    else:
        rec = draw(cs.crystal_recipes(dim=dim, max_species=2, max_mobile=max_mobile, max_other=3))
    crys = cs.build(rec)
    # smallest usable shell, occasionally one more
    ks = [k for k in (1, 2, 3, 4) if usable(crys, 0, k, 0, max_jumps)]
    if ks and originstates == "no" and site_vector_basis(crys, 0):
        ks = []
        redrawn = "originstates"
    if not ks:
        # generated decoration has no affordable percolating network: fall back to a multi-site catalogue structure
        d_ = dim or len(rec["lattice"])
        def ks_of(n):
            c_ = cs.build(cs.CATALOGUE[n])
            return [k for k in (1, 2, 3, 4) if usable(c_, 0, k, 0, max_jumps)]
        multi = [n for n in MULTI if len(cs.CATALOGUE[n]["lattice"]) == d_ and n in names and ks_of(n)] or \
                [n for n in names if len(cs.CATALOGUE[n]["lattice"]) == d_ and ks_of(n)]
        rec = cs.CATALOGUE[draw(st.sampled_from(multi))]
        crys = cs.build(rec)
        ks = ks_of(rec["name"])
    k = ks[0] if (len(ks) == 1 or draw(st.floats(0, 1)) < 0.8) else ks[1]
    N = draw(st.sampled_from(list(nthermo)))
    # cost cap (not a property of the library): lower the range, then the shell, until the estimate fits
    while N > min(nthermo) and nvstars_estimate(crys, 0, k, N) > NV_CAP:
        N -= 1
    if nvstars_estimate(crys, 0, k, N) > NV_CAP and k != ks[0]:
        k = ks[0]
    out = {"recipe": rec, "chem": 0, "k": k, "closest": 0, "Nthermo": N}
    if nvstars_estimate(crys, 0, k, N) > NV_CAP:
        out["costly"] = True
    if len(rec["basis"]) > 1 and draw(st.booleans()):
        # the same crystal with the species listed in the opposite order: the vacancy sublattice is then the LAST chemistry
        # (which species diffuses is the caller's choice; all cost estimates above were made on the equivalent original listing)
        rec = dict(rec)
        rec["basis"] = list(reversed(rec["basis"]))
        if rec.get("chemistry"):
            rec["chemistry"] = list(reversed(rec["chemistry"]))
        if rec.get("spins"):
            rec["spins"] = list(reversed(rec["spins"]))
        out["recipe"] = rec
        out["chem"] = len(rec["basis"]) - 1
    if prune and draw(st.integers(0, 4)) == 0:
        # a jump network chosen by hand: one symmetry class of the cutoff network left out, as long as what remains still percolates
        # (a jump network is an input list; nothing says it has to be complete up to a distance)
        cr_ = cs.build(out["recipe"])
        sl_, jn_, _ = nw.network(cr_, out["chem"], k, 0)
        from ..core import known_ids
        if len(jn_) >= 3 and "R40" in known_ids("known") and site_vector_basis(cr_, out["chem"]):
            # known finding R40 (reported under C06): origin-state crystals with a pruned network; the region is left out of the
            # search by construction (the complete network is used) and counted
            out["not_pruned"] = "R40"
        elif len(jn_) >= 3:
            drop = draw(st.integers(0, len(jn_) - 1))
            keep = [i for i in range(len(jn_)) if i != drop]
            if nw.gf_ok(cr_, out["chem"], sl_, [jn_[i] for i in keep]):
                out["keep"] = keep
    if redrawn:
        out["redrawn"] = redrawn
    return out


def _r(x):
    return float(np.round(x, 4))


def limb(calc, bFV, bFS, bFSV, bFT0):
    """LIMB transition states in beta*F form (own arithmetic from the documented definition:
    TS(omega1/2) = TS(omega0 type) + half the sum of the endpoint excess free energies over the bare vacancy)"""
    kinF = np.array([bFS[s] for (s, v) in calc.kineticsvWyckoff], dtype=float)
    for t, k in enumerate(calc.thermo2kin):
        kinF[k] += bFSV[t]
    f1 = [bFT0[jt] + 0.5 * (kinF[a] + kinF[b]) for jt, (a, b) in zip(calc.om1_jt, calc.om1_SP)]
    f2 = [bFT0[jt] + 0.5 * (kinF[a] + kinF[b]) for jt, (a, b) in zip(calc.om2_jt, calc.om2_SP)]
    return f1, f2


@st.composite
def datasets(draw, calc, vac=True, sol=True, bind=True, t0=True, t1=True, t2=True, om2shift=0.0, spread=1.0):
    """random data in the calculator's input order; flags switch classes of variation on/off.
    Transition states are drawn as LIMB value + deviation so that barriers stay positive."""
    nw_ = len(calc.sitelist)
    f = st.floats(0, 1)
    bFV = [(_r(3 * spread * draw(f)) if vac else 0.) for _ in range(nw_)]
    bFS = [(_r(3 * spread * draw(f)) if sol else 0.) for _ in range(nw_)]
    bFV = [_r(x - min(bFV)) for x in bFV]
    bFS = [_r(x - min(bFS)) for x in bFS]
    bFSV = [(_r(spread * (4 * draw(f) - 2)) if bind else 0.) for _ in range(calc.thermo.Nstars)]
    bFT0 = []
    for (v1, v2) in calc.omega0vacancyWyckoff:
        bFT0.append(_r(max(bFV[v1], bFV[v2]) + 0.3 + (3 * draw(f) if t0 else 0.7)))
    l1, l2 = limb(calc, bFV, bFS, bFSV, bFT0)
    kinF = np.array([bFS[s] + bFV[v] for (s, v) in calc.kineticsvWyckoff], dtype=float)
    for t, k in enumerate(calc.thermo2kin):
        kinF[k] += bFSV[t]
    bFT1, bFT2 = [], []
    for x, (a, b) in zip(l1, calc.om1_SP):
        y = x + (spread * (2 * draw(f) - 1) if t1 else 0.)
        bFT1.append(_r(max(y, max(kinF[a], kinF[b]) + 0.2)))
    for x, (a, b) in zip(l2, calc.om2_SP):
        y = x + (spread * (3 * draw(f) - 2) if t2 else 0.)
        bFT2.append(_r(max(y, max(kinF[a], kinF[b]) + 0.2) + om2shift))
    return {"bFV": bFV, "bFS": bFS, "bFSV": bFSV, "bFT0": bFT0, "bFT1": bFT1, "bFT2": bFT2}


def tracer_data(calc, bFV, bFT0):
    """tracer (solute = host) data from the vacancy data, by own arithmetic"""
    n = len(calc.sitelist)
    bFT1 = [bFT0[jt] for jt in calc.om1_jt]
    bFT2 = [bFT0[jt] for jt in calc.om2_jt]
    return {"bFV": list(bFV), "bFS": [0.] * n, "bFSV": [0.] * calc.thermo.Nstars, "bFT0": list(bFT0), "bFT1": bFT1, "bFT2": bFT2}


def args(data):
    return [np.array(data[k], dtype=float) for k in ("bFV", "bFS", "bFSV", "bFT0", "bFT1", "bFT2")]


def sizes_ok(calc, data):
    return (len(data["bFV"]) == len(calc.sitelist) and len(data["bFS"]) == len(calc.sitelist) and len(data["bFSV"]) == calc.thermo.Nstars
            and len(data["bFT0"]) == len(calc.om0_jn) and len(data["bFT1"]) == len(calc.om1_jn) and len(data["bFT2"]) == len(calc.om2_jn))


# ---- predicates of known findings ----------------------------------------------------------------
def has_originstates(calc):
    return len(calc.OSindices) > 0


def multiwyckoff_nonuniform_solute(calc, data):
    return len(calc.sitelist) > 1 and max(data["bFS"]) - min(data["bFS"]) > 1e-12


def is_tracerlike(calc, data):
    """solute indistinguishable from host: no solute site energies, no binding, TS equal to the omega0 type"""
    if any(abs(x) > 1e-12 for x in data["bFS"]) or any(abs(x) > 1e-12 for x in data["bFSV"]):
        return False
    t = tracer_data(calc, data["bFV"], data["bFT0"])
    return np.allclose(t["bFT1"], data["bFT1"], atol=1e-12) and np.allclose(t["bFT2"], data["bFT2"], atol=1e-12)


def describe(calc, data=None):
    cl = (["vacancy_species_not_first"] if calc.chem else []) + (["network_with_a_class_left_out"] if getattr(calc, "_vp_pruned", False) else []) + ["Nthermo%d" % calc.Nthermo, "vacWyckoff%d" % min(len(calc.sitelist), 3), "om0classes%d" % min(len(calc.om0_jn), 4),
          "originstates" if has_originstates(calc) else "no_originstates", "Nvstars<=%d" % (10 * (1 + calc.vkinetic.Nvstars // 10))]
    if data is not None:
        if multiwyckoff_nonuniform_solute(calc, data):
            cl.append("multiwyckoff_nonuniform_solute")
        if is_tracerlike(calc, data):
            cl.append("tracerlike")
        if any(abs(x) > 0.1 for x in data["bFSV"]):
            cl.append("binding")
    return cl


# a residual counts as integration error when doubling the mesh density removes at least 20% of it: k-mesh errors fall like 1/N (0.5)
# or faster once asymptotic, 0.6-0.75 was observed pre-asymptotically for diffusivity anisotropies of 350:1, while a term that is
# simply wrong does not move (R16: ratio 1.00)
SHRINK = 0.8


def within_integration_accuracy(setup, residual, r4, tight, loose=np.inf, NGFmax=8):
    """Decides 'holds to within the calculator's Brillouin-zone integration accuracy' by refinement instead of a guessed
    constant: a residual above the tight tolerance is accepted only if it shrinks at least by half
    when the same data are evaluated with a denser k-mesh (NGFmax=8 instead of the default 4).
    residual: function(calculator) -> relative residual.  Returns (ok, r_refined or None)."""
    if r4 <= tight:
        return True, None
    if not (r4 <= loose):
        return False, None
    calc8 = calculator(setup, NGFmax=NGFmax)[3]
    r8 = residual(calc8)
    if r8 <= max(tight, SHRINK * r4):
        return True, r8
    # convergence need not be monotonic (a coarse-mesh residual can be small by cancellation): a third, finer mesh decides; the
    # residual must come down below the larger of the two coarser ones, an error that the mesh does not touch still fails
    r12 = residual(calculator(setup, NGFmax=NGFmax + 4)[3])
    return bool(r12 <= max(tight, SHRINK * max(r4, r8))), max(r8, r12)
