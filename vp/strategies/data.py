"""Thermodynamic / kinetic data in units of kT (plain floats rounded to 4 decimals)."""
import numpy as np
from hypothesis import strategies as st


def _r(x):
    return float(np.round(x, 4))


def energy(lo=-3., hi=3.):
    return st.floats(lo, hi, allow_nan=False, allow_infinity=False).map(_r)


def prefactor():
    """log-uniform in [0.3, 3]"""
    return st.floats(-1.2, 1.1).map(lambda x: _r(np.exp(x)))


def barrier(lo=0.2, hi=6.):
    return st.floats(lo, hi).map(_r)


@st.composite
def site_data(draw, nsites, uniform_prob=0.15):
    if draw(st.floats(0, 1)) < uniform_prob:
        return [1.] * nsites, [0.] * nsites
    pre = [draw(prefactor()) for _ in range(nsites)]
    ene = [draw(energy()) for _ in range(nsites)]
    return pre, ene


@st.composite
def trans_data(draw, jumpnetwork, invmap, ene, hi=6.):
    """transition-state prefactors and energies: ET = max(site energies of the class endpoints) + barrier"""
    preT, eneT = [], []
    for jl in jumpnetwork:
        top = max(max(ene[invmap[i]], ene[invmap[j]]) for (i, j), dx in jl)
        preT.append(draw(prefactor()))
        eneT.append(_r(top + draw(barrier(0.2, hi))))
    return preT, eneT
