"""Shared generators/helpers for the Taylor-expansion properties (C16, C17).

Everything is drawn as plain JSON data: an expansion is {"shape": [...], "terms": [{"n","l","re","im"}, ...]} where
"re"/"im" are flat lists of integers in units of 1/8 (C order over (power index,) + shape), so every non-zero
coefficient has magnitude >= 0.125 (the library's reduce/separate drop blocks below 1e-10) and shrinking works on
integers.  Evaluation points are an integer direction (never the zero vector) and a radius from a fixed list.
"""
import numpy as np
from hypothesis import strategies as st

from ..core import HarnessError
from ..oracles import taylor_ref as tr

LMAX = tr.LMAX
UNIT = 8.0
VMAX = 24
RADII = [1e-3, 0.05, 0.5, 1.0, 1.7, 3.0]


def nprod(shape):
    m = 1
    for k in shape:
        m *= int(k)
    return m


def library(dim):
    """the class under test, initialised at the default maximum order"""
    from onsager import PowerExpansion as PE
    cls = PE.Taylor3D if dim == 3 else PE.Taylor2D
    cls()
    if cls.Lmax != LMAX:
        raise HarnessError("library initialised with Lmax=%s, the checks are written for %d" % (cls.Lmax, LMAX))
    return cls


# ---- drawing ------------------------------------------------------------------------------------------------
_nz = st.integers(1, VMAX).flatmap(lambda v: st.sampled_from([v, -v]))


@st.composite
def term(draw, dim, n, l, shape, cplx, parity=None, modes=("dense", "sparse", "sparse", "r2", "zero")):
    """one (n, l, coefficients) entry; parity (0/1) zeroes every monomial whose degree has the other parity"""
    P, m = tr.npow(dim, l), nprod(shape)
    count = P * m
    pw = tr.powers(dim)[:P]
    mode = draw(st.sampled_from(modes))
    if mode == "dense" and count > 30:
        mode = "sparse"
    if mode == "r2" and l < 2:
        mode = "dense" if count <= 30 else "sparse"
    parts = []
    for part in range(2 if cplx else 1):
        v = [0] * count
        if mode == "dense":
            v = draw(st.lists(st.integers(-VMAX, VMAX), min_size=count, max_size=count))
        elif mode == "sparse":
            k = draw(st.integers(1, min(count, 6)))
            for _ in range(k):
                v[draw(st.integers(0, count - 1))] = draw(_nz)
        elif mode == "r2":
            # (x^2+y^2(+z^2)) times a polynomial of degree <= l-2: reduces to a lower l
            index = dict((t, i) for i, t in enumerate(pw))
            low = [t for t in pw if sum(t) <= l - 2]
            k = draw(st.integers(1, min(len(low) * m, 5)))
            for _ in range(k):
                t = low[draw(st.integers(0, len(low) - 1))]
                j = draw(st.integers(0, m - 1))
                val = draw(_nz)
                for ax in range(dim):
                    t2 = tuple(e + (2 if a == ax else 0) for a, e in enumerate(t))
                    v[index[t2] * m + j] += val
        if parity is not None:
            for i, t in enumerate(pw):
                if sum(t) % 2 != parity:
                    for j in range(m):
                        v[i * m + j] = 0
        parts.append(v)
    return {"n": n, "l": l, "re": parts[0], "im": parts[1] if cplx else None}


@st.composite
def expansion(draw, dim, shape, lcap=LMAX, nmin=-2, nmax=4, maxterms=4, cplx=True, collected=None, ns=None):
    """a coefficient list with distinct (n, l) pairs (separated form) or distinct n (collected form), in drawn order"""
    if collected is None:
        collected = draw(st.booleans())
    if ns is not None:
        pairs = [(n, draw(st.integers(0, lcap))) for n in ns]
    else:
        pair = st.tuples(st.integers(nmin, nmax), st.integers(0, lcap))
        pairs = draw(st.lists(pair, min_size=1, max_size=maxterms, unique_by=(lambda t: t[0]) if collected else (lambda t: t)))
    return {"shape": list(shape), "terms": [draw(term(dim, n, l, tuple(shape), cplx)) for n, l in pairs]}


@st.composite
def points(draw, dim, lo=2, hi=4, radii=RADII):
    out = []
    for _ in range(draw(st.integers(lo, hi))):
        d = draw(st.lists(st.integers(-5, 5), min_size=dim, max_size=dim))
        if not any(d):
            d[0] = 1
        out.append({"dir": d, "r": draw(st.sampled_from(radii))})
    return out


def matrix(rows, cols, cplx):
    """small dense matrix (or vector when one extent is None) as {"shape","re","im"} in units of 1/8"""
    return tensor([k for k in (rows, cols) if k is not None], cplx)


@st.composite
def tensor(draw, shape, cplx):
    shape = list(shape)
    cnt = nprod(shape)
    re = draw(st.lists(st.integers(-VMAX, VMAX), min_size=cnt, max_size=cnt))
    im = draw(st.lists(st.integers(-VMAX, VMAX), min_size=cnt, max_size=cnt)) if cplx else None
    return {"shape": shape, "re": re, "im": im}


# ---- building -------------------------------------------------------------------------------------------------
def array(obj, shape, cplx):
    a = np.array(obj["re"], dtype=float) / UNIT
    if obj.get("im") is not None:
        a = a + 1j * np.array(obj["im"], dtype=float) / UNIT
    if cplx:
        a = a.astype(complex)
    return a.reshape(tuple(shape))


def terms(dim, exp, cplx=True):
    """fresh numpy coefficient list [(n, l, array)] of a drawn expansion"""
    shape = tuple(exp["shape"])
    out = []
    for t in exp["terms"]:
        P = tr.npow(dim, t["l"])
        if len(t["re"]) != P * nprod(shape):
            raise HarnessError("term (%d,%d) has %d numbers, expected %d" % (t["n"], t["l"], len(t["re"]), P * nprod(shape)))
        out.append((int(t["n"]), int(t["l"]), array(t, (P,) + shape, cplx)))
    return out


def point(p):
    d = np.array(p["dir"], dtype=float)
    uhat = d / np.sqrt(np.dot(d, d))
    return uhat, float(p["r"])


# ---- observing the library through __call__ -----------------------------------------------------------------------
def lib_orders(T, u):
    """{n: V_n} through the library's evaluation with constant radial factors (1 for order n, 0 otherwise)"""
    nl = T.nl()
    out = {}
    for n in sorted(set(n for n, l in nl)):
        out[n] = T(u, dict(((nn, ll), 1.0 if nn == n else 0.0) for nn, ll in nl))
    return out


def lib_total(T, u):
    """f(u) through the library's evaluation with the callables |u|^n"""
    def rad(n):
        return lambda x: (1.0 if n == 0 else 0.0) if x == 0 else float(x) ** n
    return T(u, dict(((n, l), rad(n)) for n, l in T.nl()))
