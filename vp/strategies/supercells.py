"""Small supercell setups (plain JSON data) shared by C27 / C28.

setup = {"recipe": crystal recipe (3D), "M": 3x3 integer matrix (COLUMNS are the supercell vectors in crystal
         coordinates, as Supercell expects), "interstitial": [species indices], "nsolute": 0..2}

Known finding R7 (Supercell.setocc range check): the library accepts species -2, rejects every declared solute
beyond the first (c > crys.Nchem) and half-applies the undeclared species c == crys.Nchem when Nsolute == 0.
While EXCLUDE_R7 is True the generators never ask for a species in that region (species are drawn from
`placeable()` / `refusable()` below); the region is restored by setting the flag to False.
"""
import itertools
import os

import numpy as np
from hypothesis import strategies as st

from . import crystals as cs

# VERIF_NO_EXCLUDE=R7[,NODEFECT] in the environment switches an exclusion off for one run (used to validate a candidate fix)
NO_EXCLUDE = [x for x in os.environ.get("VERIF_NO_EXCLUDE", "").split(",") if x]
EXCLUDE_R7 = False  # R7 fixed in /repo (55581ad): the region is part of the ordinary search

I3 = [[1, 0, 0], [0, 1, 0], [0, 0, 1]]
UNIMOD = [
    I3, I3, I3,
    [[0, 1, 0], [0, 0, 1], [1, 0, 0]],     # cyclic permutation
    [[0, 1, 0], [1, 0, 0], [0, 0, 1]],     # swap (det -1)
    [[1, 1, 0], [0, 1, 0], [0, 0, 1]],     # shears
    [[1, 0, 0], [0, 1, 0], [1, -1, 1]],
    [[1, 0, -1], [0, 1, 0], [0, 0, 1]],
    [[-1, 0, 0], [0, -1, 0], [0, 0, -1]],  # inversion (det -1)
    [[1, 0, 0], [0, -1, 0], [0, 0, 1]],
]
# supercells used by the repository's tests (plus the conventional cells of cF / cI)
CATALOGUE_M = [
    I3,
    [[2, 0, 0], [0, 2, 0], [0, 0, 2]],
    [[-1, 1, 1], [1, -1, 1], [1, 1, -1]],
    [[0, 1, 1], [1, 0, 1], [1, 1, 0]],
    [[1, 1, 0], [0, 1, 0], [0, 0, 2]],
    [[2, 0, 0], [0, 2, 0], [0, 0, 1]],
    [[2, 0, 0], [0, 1, 0], [0, 0, 1]],
    [[1, 0, 0], [0, 1, 0], [0, 0, 3]],
    [[1, -1, 0], [1, 1, 0], [0, 0, 1]],
    [[2, 1, 0], [-1, 1, 0], [0, 0, 2]],
]
MAXENTRY = 6


def _det(M):
    return int(round(float(np.linalg.det(np.array(M, dtype=float)))))


def _triples(d):
    return [(a, b, d // (a * b)) for a in range(1, d + 1) if d % a == 0 for b in range(1, d // a + 1) if (d // a) % b == 0]


@st.composite
def supermatrices(draw, maxdet=8):
    """integer matrices with 1 <= |det| <= maxdet: diagonal, triangular (Hermite form) and skew (unimodular
    changes of basis on either side), by construction"""
    cats = [M for M in CATALOGUE_M if abs(_det(M)) <= maxdet]
    if draw(st.integers(0, 4)) == 0:
        return [list(r) for r in draw(st.sampled_from(cats))]
    d = draw(st.sampled_from([x for x in (1, 2, 2, 3, 4, 4, 5, 6, 7, 8) if x <= maxdet]))
    d1, d2, d3 = draw(st.sampled_from(_triples(d)))
    shape = draw(st.sampled_from(["diag", "tri", "skew", "skew"]))
    a = b = c = 0
    if shape != "diag":
        a, b, c = [draw(st.sampled_from([0, 1, -1, 1])) for _ in range(3)]
    H = np.array([[d1, a, b], [0, d2, c], [0, 0, d3]], dtype=int)
    M = H
    if shape == "skew":
        U1 = np.array(draw(st.sampled_from(UNIMOD)), dtype=int)
        U2 = np.array(draw(st.sampled_from(UNIMOD)), dtype=int)
        M2 = U1 @ H @ U2
        if np.abs(M2).max() <= MAXENTRY:
            M = M2
    return [[int(x) for x in row] for row in M]


def safe_build(rec):
    """Crystal for a recipe, or None when the constructor refuses it (Crystal.reduce finding, C19's domain)"""
    try:
        return cs.build(rec)
    except ArithmeticError as e:
        if "Reduction did not produce" in str(e):
            return None
        raise


@st.composite
def setups(draw, max_sites=32, max_det=8, max_mobile=4, max_other=3, p_catalogue=0.5, nsolutes=(0, 1, 1, 2)):
    rec = draw(cs.recipes(dim=3, p_catalogue=p_catalogue, max_mobile=max_mobile, max_other=max_other))
    crys = safe_build(rec)
    if crys is None:
        rec = cs.CATALOGUE["SC"]
        crys = cs.build(rec)
    maxd = max(1, min(max_det, max_sites // crys.N))
    M = draw(supermatrices(maxd))
    nspec = len(crys.basis)
    kind = draw(st.sampled_from(["none", "none", "last", "subset"]))
    if kind == "none" or (kind == "last" and nspec == 1):
        inter = []
    elif kind == "last":
        inter = [nspec - 1]
    else:
        inter = [c for c in range(nspec) if draw(st.booleans())]
    return {"recipe": rec, "M": M, "interstitial": inter, "nsolute": draw(st.sampled_from(list(nsolutes)))}


def nchem(setup):
    return len(setup["recipe"]["basis"]) + setup["nsolute"]


def placeable(ncrys, nsol, exclude_r7=None):
    """species every caller may place: -1 .. Nchem-1 (minus the region of known finding R7 while it is excluded)"""
    if exclude_r7 is None:
        exclude_r7 = EXCLUDE_R7
    full = list(range(-1, ncrys + nsol))
    return [c for c in full if not (exclude_r7 and r7_region(ncrys, nsol, c))]


def refusable(ncrys, nsol, exclude_r7=None):
    """undeclared species (must be refused): a few below -1 and a few at / above Nchem"""
    if exclude_r7 is None:
        exclude_r7 = EXCLUDE_R7
    N = ncrys + nsol
    full = [-2, -3, -7, N, N + 1, N + 5]
    return [c for c in full if not (exclude_r7 and r7_region(ncrys, nsol, c))]


def r7_region(ncrys, nsol, c):
    """True when the library's range check (-2 <= c <= crys.Nchem) disagrees with the declared range (-1 <= c < Nchem)"""
    return (-2 <= c <= ncrys) != (-1 <= c < ncrys + nsol)


def substitute(ncrys, nsol, c, counter):
    """exclusion of known finding R7 by construction: a species from its region is replaced by the nearest species of
    the same validity class outside the region; counter[0] counts the replacements"""
    if EXCLUDE_R7 and r7_region(ncrys, nsol, c):
        counter[0] += 1
        if c == -2:
            return -3
        return ncrys if c < ncrys + nsol else c + 1
    return c


def build(setup, NOSYM=False):
    """a freshly constructed (empty) Supercell for a setup; nothing is cached: every call runs the constructor"""
    from onsager import supercell
    crys = cs.build(setup["recipe"])
    return supercell.Supercell(crys, np.array(setup["M"], dtype=int), interstitial=tuple(setup["interstitial"]),
                               Nsolute=setup["nsolute"], NOSYM=NOSYM)


def crystal_atoms(crys):
    """[(chem, unit position)] in the crystal's site order (crys.atomindices)"""
    return [(c, np.array(crys.basis[c][i], dtype=float)) for (c, i) in crys.atomindices]


def sorted_ops(sup):
    """the supercell's operations in a canonical order (sup.G is a frozenset): by rotation, then site permutation"""
    return sorted(sup.G, key=lambda g: (tuple(int(x) for x in np.asarray(g.rot).flatten()), tuple(int(x) for x in g.indexmap[0])))


def describe(setup, sup):
    M = np.array(setup["M"], dtype=int)
    off = M - np.diag(np.diag(M))
    shape = "diag" if not off.any() else ("tri" if not np.tril(M, -1).any() else "skew")
    cl = ["size%d" % sup.size, "M_" + shape, "sites%s" % ("<=4" if sup.N * sup.size <= 4 else "<=12" if sup.N * sup.size <= 12 else ">12"),
          "nsolute%d" % setup["nsolute"], "interstitial" if setup["interstitial"] else "no_interstitial",
          "nspecies%d" % len(sup.crys.basis)]
    return cl
