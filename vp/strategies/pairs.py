"""Shared set-up for the solute-vacancy star-set properties (C24, C25, C26): crystal + vacancy species + jump network
+ range, with the state count capped by construction (the range is lowered, never the case rejected)."""
import numpy as np
from hypothesis import strategies as st

from ..core import HarnessError, canon
from ..oracles import pairstates_ref as ref
from . import crystals as cs, networks as nw

# catalogue entries with <= 3 vacancy sites; romega/rect2/tetP2/mono2 have sites with a non-zero vector basis
NAMES = ["SC", "FCC", "BCC", "HCP", "diamond", "B2", "omega", "romega", "square", "tria", "honeycomb", "rect2", "tetP2", "mono2",
         "L12m", "NbO", "FCCoct", "B2o"]
MAXSITES = 3


@st.composite
def setups(draw, maxN=3, names=None, p_catalogue=0.5, dim=None):
    rec = draw(cs.recipes(dim=dim, names=NAMES if names is None else names, p_catalogue=p_catalogue, max_mobile=MAXSITES, max_other=3))
    return {"recipe": rec, "chem_pick": draw(st.integers(0, 2)), "k": draw(st.integers(1, 3)), "N": draw(st.integers(1, maxN)),
            "origin": draw(st.booleans())}


def choose_chem(recipe, pick):
    ok = [c for c, sp in enumerate(recipe["basis"]) if len(sp) <= MAXSITES]
    return ok[pick % len(ok)] if ok else 0


_prep = {}


def prepare(case):
    """(crys, chem, sitelist, jumpnetwork, PairGeom, jump classes (i,j,R), jump -> class dict)"""
    rec = case["recipe"]
    chem = choose_chem(rec, case["chem_pick"])
    key = canon([rec["lattice"], rec["basis"], chem, case["k"]])
    if key not in _prep:
        if len(_prep) > 100:
            _prep.clear()
        crys = cs.build(rec)
        sl, jn, cut = nw.network(crys, chem, case["k"])
        pg = ref.from_crystal(crys, chem)
        try:
            jcl, where = ref.convert_network(pg, jn)
        except ValueError as e:
            raise HarnessError("library jump network has a displacement that connects no pair of sites (C21 domain): %s" % e)
        _prep[key] = (crys, chem, sl, jn, pg, jcl, where)
    return _prep[key]


def has_vector_basis(pg):
    """True when some vacancy site has a non-zero invariant vector space (origin states matter)"""
    return any(pg.invariant_dim(pg.zero(i))[0] > 0 for i in range(pg.n))


def values(vals, k):
    """k-th member of an endless sequence of distinct positive numbers built from a drawn finite list"""
    n = len(vals)
    return vals[k % n] * (1.0 + 0.173 * (k // n))


def basis_cost(pg, states, jumps=None):
    """(number of vector stars, estimated size of the largest expansion array) predicted from brute-force orbits: the library's
    expansions are dense arrays [Nv, Nv, n] cleaned element by element in Python, n = number of Green-function stars or of
    omega1 classes, so Nv^2 n is the cost that has to be bounded by construction"""
    states = sorted(states)
    if not states:
        return 0, 0
    P = pg.permutations(states)
    orbs = pg.orbits_from_perms(P)
    nv = sum(pg.invariant_dim(states[o[0]])[0] for o in orbs)
    diffs = set()
    byi = {}
    for s in states:
        byi.setdefault(s[0], []).append(s)
    for lst in byi.values():
        for s1 in lst:
            for s2 in lst:
                diffs.add(pg.endpoint_difference(s1, s2))
    ngf = max(1, (2 * len(diffs)) // pg.nops)
    n1 = 0
    if jumps is not None:
        n1 = max(1, len(pg.swing_jumps(states, jumps)) // pg.nops)
    return nv, nv * nv * max(ngf, n1)
