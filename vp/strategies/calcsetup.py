"""Calculation-setup inputs shared by C29/C30: a calculator (interstitial or vacancy-mediated, Nthermo=1) on a small
3D crystal plus integer supercell matrices.

case fields   recipe (crystal recipe), chem, kind ("interstitial"|"vacancy"), k (neighbour shell of the cutoff),
              supers ([3x3 integer matrix, ...])
The Supercell class documents 3x3 integer matrices and writes three-component POSCARs, so only 3D crystals are drawn.
"""
import warnings

import numpy as np
from hypothesis import strategies as st

from . import crystals as cs, networks as nw
from ..core import canon

# names of catalogue structures that are cheap enough (few atoms) and 3D
CAT_VAC = ["SC", "FCC", "BCC", "HCP", "B2", "diamond", "omega", "romega", "tetP2", "mono2", "L12m", "B2o", "L12"]
CAT_INT = ["HCPoct", "FCCoct", "B2", "HCP", "tetP2", "mono2", "omega", "romega", "diamond", "FCC", "B2o", "L12", "NbO"]

EYE = [[1, 0, 0], [0, 1, 0], [0, 0, 1]]


def _diag(a, b, c):
    return [[a, 0, 0], [0, b, 0], [0, 0, c]]


def _mul(n, M):
    return [[n * x for x in row] for row in M]


FCC2CUB = [[-1, 1, 1], [1, -1, 1], [1, 1, -1]]  # primitive fcc -> conventional cube (det 4)
BCC2CUB = [[0, 1, 1], [1, 0, 1], [1, 1, 0]]  # primitive bcc -> conventional cube (det 2)
# (matrix, label); columns of the matrix are the supercell vectors in unit-cell coordinates
SUPERS = [(_mul(n, EYE), "nI%d" % n) for n in (1, 2, 3, 4)] + [
    (_diag(2, 1, 1), "diag"), (_diag(1, 2, 3), "diag"), (_diag(3, 3, 2), "diag"), (_diag(2, 2, 3), "diag"), (_diag(4, 4, 2), "diag"),
    (_diag(5, 5, 3), "diag"), (_mul(5, EYE), "nI5"),
    (FCC2CUB, "nondiag"), (BCC2CUB, "nondiag"), (_mul(2, FCC2CUB), "nondiag"), (_mul(2, BCC2CUB), "nondiag"), (_mul(3, BCC2CUB), "nondiag"),
    ([[1, 1, 0], [-1, 1, 0], [0, 0, 1]], "nondiag"), ([[2, 2, 0], [-2, 2, 0], [0, 0, 2]], "nondiag"),
    ([[2, -1, 0], [1, 1, 0], [0, 0, 2]], "nondiag"),  # sqrt3 x sqrt3 x 2 of a hexagonal cell (det 6)
    ([[2, 1, 0], [0, 2, 0], [0, 0, 2]], "skew"), ([[1, 0, 0], [1, 2, 0], [0, 1, 3]], "skew"), ([[3, 1, 0], [0, 3, 1], [1, 0, 3]], "skew"),
    ([[0, 1, 0], [1, 0, 0], [0, 0, 2]], "lefthanded"), ([[0, 2, 0], [2, 0, 0], [0, 0, 3]], "lefthanded"),
]
LABEL = {canon(M): lab for M, lab in SUPERS}


def det(M):
    return int(round(np.linalg.det(np.array(M, dtype=float))))


def label(M):
    return LABEL.get(canon(M), "other")


def supers_for(natoms, maxsites=130, maxcells=64):
    """supercell matrices whose cost is bounded (the library builds the supercell group in O(|G| cells^2 atoms))"""
    out = []
    for M, lab in SUPERS:
        d = abs(det(M))
        if d <= maxcells and d * natoms <= maxsites:
            out.append(M)
    return out


def surviving_ops(crys, M):
    """point operations of the crystal that map the supercell lattice onto itself"""
    N = np.array(M, dtype=float)
    Ninv = np.linalg.inv(N)
    out = []
    for g in crys.G:
        R = Ninv @ np.asarray(g.rot, dtype=float) @ N
        if np.abs(R - np.round(R)).max() < 1e-9:
            out.append(g)
    return out


def nomap_region(crys, chem, sitelist, jumpnetwork, M):
    """predicate of the C29 finding `interstitial-nomap`: some endpoint of a representative jump cannot be reached from the
    representative site of its class by a crystal operation that survives in the supercell (lattice translations always do)"""
    ops = surviving_ops(crys, M)
    rep = {}
    for sites in sitelist:
        for i in sites:
            rep[i] = sites[0]
    for jl in jumpnetwork:
        (i0, j0), dx = jl[0]
        for site in (i0, j0):
            if not any(g.indexmap[chem][rep[site]] == site for g in ops):
                return True
    return False


COUNTERS = {"nomap_dropped": 0}  # supercell matrices removed from the pools by known-finding exclusions (all draws, including shrinking)


def njumps(jn):
    return sum(len(jl) for jl in jn)


def vacancy_cost(crys, chem, jn):
    """rough size of the vacancy-mediated calculator: (jumps per site)^2 * sites / |G| ~ number of symmetry-distinct
    second-shell pair states; measured build times: 3 -> 1 s, 20 -> 2 s, 80 -> 60 s"""
    ns = len(crys.basis[chem])
    return njumps(jn) ** 2 / float(ns * len(crys.G))


@st.composite
def setups(draw, kinds=("interstitial", "vacancy"), nsupers=(1, 3), maxsites_quick=130, exclude_nomap=False, maxcost=60):
    kind = draw(st.sampled_from(list(kinds) + (["vacancy"] if "vacancy" in kinds else [])))
    names = CAT_VAC if kind == "vacancy" else CAT_INT
    rec = draw(cs.recipes(dim=3, names=names, p_catalogue=0.5, max_species=3, max_mobile=4, max_other=3))
    try:
        crys = cs.build(rec)
    except ArithmeticError as e:
        # Crystal.reduce fails on some generated cells (known finding R12, C19's subject): use a catalogue structure instead
        if "Reduction did not produce" not in str(e):
            raise
        rec = cs.CATALOGUE[draw(st.sampled_from(names))]
        crys = cs.build(rec)
    nchem = len(crys.basis)
    if kind == "interstitial" and rec["name"] in ("HCPoct", "FCCoct"):
        chem = 0
    else:
        chem = draw(st.integers(0, nchem - 1)) if draw(st.booleans()) else 0
    k = draw(st.integers(1, 3))
    if kind == "vacancy":
        # implicit precondition of the Green-function based calculator: the network percolates (see networks.gf_ok)
        kk = None
        for kt in range(k, 5):
            sl, jn, cut = nw.network(crys, chem, kt)
            if jn and vacancy_cost(crys, chem, jn) <= maxcost and nw.gf_ok(crys, chem, sl, jn):
                kk = kt
                break
        if kk is None:
            kind = "interstitial"
        else:
            k = kk
    if kind == "interstitial":
        sl, jn, cut = nw.network(crys, chem, k)
        if not jn:
            for kt in range(1, 4):
                sl, jn, cut = nw.network(crys, chem, kt)
                if jn:
                    k = kt
                    break
    pool = supers_for(crys.N, maxsites=maxsites_quick)
    if exclude_nomap and kind == "interstitial":
        keep = [M for M in pool if not nomap_region(crys, chem, sl, jn, M)]  # n*I always survives
        COUNTERS["nomap_dropped"] += len(pool) - len(keep)
        pool = keep
    n = draw(st.integers(nsupers[0], nsupers[1]))
    big = [M for M in pool if abs(det(M)) >= 18]  # cells that can hold the kinetic shell (the "must not warn" class)
    supers = []
    for _ in range(n):
        if big and draw(st.integers(0, 2)) == 0:
            supers.append(draw(st.sampled_from(big)))
        else:
            supers.append(draw(st.sampled_from(pool)))
    return {"recipe": rec, "chem": chem, "kind": kind, "k": k, "supers": supers}


# ------------------------------------------------------------------------------------------------
# construction (cached)
# ------------------------------------------------------------------------------------------------
_calcs = {}


def calculator(case):
    """(crys, sitelist, jumpnetwork, calculator) for a case"""
    from onsager import OnsagerCalc
    key = canon([case["recipe"]["lattice"], case["recipe"]["basis"], case["chem"], case["kind"], case["k"]])
    if key not in _calcs:
        if len(_calcs) > 40:
            _calcs.clear()
        crys = cs.build(case["recipe"])
        sl, jn, cut = nw.network(crys, case["chem"], case["k"])
        if case["kind"] == "vacancy":
            calc = OnsagerCalc.VacancyMediated(crys, case["chem"], sl, jn, 1)
        else:
            calc = OnsagerCalc.Interstitial(crys, case["chem"], sl, jn)
        _calcs[key] = (crys, sl, jn, calc)
    return _calcs[key]


def make_superdict(calc, M):
    """(superdict, ['too small' warning messages], number of other warnings)"""
    with warnings.catch_warnings(record=True) as w:
        warnings.simplefilter("always")
        sd = calc.makesupercells(np.array(M, dtype=int))
    small = [str(x.message) for x in w if issubclass(x.category, RuntimeWarning) and "too small" in str(x.message)]
    return sd, small, len(w) - len(small)
