"""Crystal recipes (plain JSON data) and their construction.

recipe = {"name": str, "lattice": [[...]] (d x d, COLUMNS are lattice vectors), "basis": [[u, ...] per species]}
Construction, not rejection: lattices come from coarse parameter sets for every crystal system, decorations
are orbits of seed positions under a random subgroup of the lattice holohedry (computed by brute force in
oracles/geom.py) combined with half translations, so that special positions, mirror-line sites and general
positions all occur.
"""
import functools
import itertools
import json

import numpy as np
from hypothesis import strategies as st

from ..oracles import geom
from ..core import canon

# ------------------------------------------------------------------------------------------------
# lattices
# ------------------------------------------------------------------------------------------------
LENGTHS = [1.0, 1.1, 1.25, 1.5]
COSINES = [0.2, -0.2, 0.35, -0.35]
S3 = float(np.sqrt(3.0))

ROTATIONS3 = [None, ("axis", [1., 2., 3.], 0.7), ("axis", [0., 0., 1.], 0.3)]
ROTATIONS2 = [None, 0.3, 1.1]


def _from_metric(lengths, cosines):
    d = len(lengths)
    g = np.zeros((d, d))
    for i in range(d):
        g[i, i] = lengths[i] ** 2
    pairs = [(0, 1)] if d == 2 else [(1, 2), (0, 2), (0, 1)]  # alpha, beta, gamma
    for (i, j), c in zip(pairs, cosines):
        g[i, j] = g[j, i] = c * lengths[i] * lengths[j]
    return np.linalg.cholesky(g).T  # upper triangular, columns are lattice vectors, det > 0


def _rotmat3(axis, ang):
    a = np.array(axis, dtype=float)
    a /= np.linalg.norm(a)
    K = np.array([[0, -a[2], a[1]], [a[2], 0, -a[0]], [-a[1], a[0], 0]])
    return np.eye(3) + np.sin(ang) * K + (1 - np.cos(ang)) * K @ K


def make_lattice(spec):
    """spec = {"system":..., "p":[params], "rot": index} -> d x d array (columns)"""
    sysn, p = spec["system"], spec["p"]
    if sysn == "cP":
        L = p[0] * np.eye(3)
    elif sysn == "cF":
        L = p[0] * 0.5 * np.array([[0., 1, 1], [1, 0, 1], [1, 1, 0]])
    elif sysn == "cI":
        L = p[0] * 0.5 * np.array([[-1., 1, 1], [1, -1, 1], [1, 1, -1]])
    elif sysn == "tP":
        L = np.diag([p[0], p[0], p[0] * p[1]])
    elif sysn == "tI":
        a, c = p[0], p[0] * p[1]
        L = 0.5 * np.array([[-a, a, a], [a, -a, a], [c, c, -c]])
    elif sysn == "oP":
        L = np.diag([p[0], p[0] * p[1], p[0] * p[2]])
    elif sysn == "hP":
        L = p[0] * np.array([[0.5, 0.5, 0.], [-S3 / 2, S3 / 2, 0.], [0., 0., p[1]]])
    elif sysn == "hR":
        L = _from_metric([p[0]] * 3, [p[1]] * 3)
    elif sysn == "mP":
        L = _from_metric([p[0], p[0] * p[1], p[0] * p[2]], [0., p[3], 0.])
    elif sysn == "aP":
        L = _from_metric([p[0], p[0] * p[1], p[0] * p[2]], [p[3], p[4], p[5]])
    elif sysn == "sq":
        L = p[0] * np.eye(2)
    elif sysn == "re":
        L = np.diag([p[0], p[0] * p[1]])
    elif sysn == "rc":  # centred rectangular = rhombic primitive cell
        L = _from_metric([p[0], p[0]], [p[1]])
    elif sysn == "hx":
        L = p[0] * np.array([[0.5, 0.5], [-S3 / 2, S3 / 2]])
    elif sysn == "ob":
        L = _from_metric([p[0], p[0] * p[1]], [p[2]])
    else:
        raise ValueError(sysn)
    rot = spec.get("rot", 0)
    if L.shape[0] == 3 and ROTATIONS3[rot] is not None:
        _, ax, ang = ROTATIONS3[rot]
        L = _rotmat3(ax, ang) @ L
    if L.shape[0] == 2 and ROTATIONS2[rot] is not None:
        ang = ROTATIONS2[rot]
        L = np.array([[np.cos(ang), -np.sin(ang)], [np.sin(ang), np.cos(ang)]]) @ L
    return L


_len = st.sampled_from(LENGTHS)
_ratio = st.sampled_from([1.1, 1.25, 1.5])
_ratio2 = st.sampled_from([1.25, 1.5])
_cos = st.sampled_from(COSINES)


@st.composite
def lattice_specs(draw, dim=None):
    if dim is None:
        dim = draw(st.sampled_from([3, 3, 2]))
    if dim == 3:
        sysn = draw(st.sampled_from(["cP", "cF", "cI", "tP", "tI", "oP", "hP", "hR", "mP", "aP"]))
        a = draw(_len)
        if sysn in ("cP", "cF", "cI"):
            p = [a]
        elif sysn in ("tP", "tI"):
            p = [a, draw(st.sampled_from([0.8, 1.1, 1.25, 1.5]))]
        elif sysn == "oP":
            p = [a, 1.1, draw(_ratio2)]
        elif sysn == "hP":
            p = [a, draw(st.sampled_from([0.6123724356957945, 1.1, 1.5, 1.632993161855452]))]
        elif sysn == "hR":
            p = [a, draw(_cos)]
        elif sysn == "mP":
            p = [a, 1.1, draw(_ratio2), draw(st.sampled_from([-0.2, -0.35]))]
        else:
            p = [a, 1.1, 1.25, draw(st.sampled_from([0.2, -0.2])), draw(st.sampled_from([0.2, -0.2, 0.35])), draw(st.sampled_from([0.2, -0.2]))]
        rot = draw(st.sampled_from([0, 0, 0, 1, 2]))
    else:
        sysn = draw(st.sampled_from(["sq", "re", "rc", "hx", "ob"]))
        a = draw(_len)
        if sysn in ("sq", "hx"):
            p = [a]
        elif sysn == "re":
            p = [a, draw(_ratio)]
        elif sysn == "rc":
            p = [a, draw(_cos)]
        else:
            p = [a, draw(_ratio), draw(st.sampled_from([0.2, -0.2, 0.35]))]
        rot = draw(st.sampled_from([0, 0, 0, 1, 2]))
    return {"system": sysn, "p": p, "rot": rot}


# ------------------------------------------------------------------------------------------------
# decorations
# ------------------------------------------------------------------------------------------------
SEEDVALS = [0., 0.5, 0.25, 1. / 3., 2. / 3., 0.125, 1. / 6., 0.375, 0.75, 0.13, 0.29, 0.41]
SPECIAL = [0., 0.5, 0.25, 1. / 3., 2. / 3., 0.75]


def _orbit(L, gens, u, cap):
    """orbit of unit position u under the closure of generators [(R,t)]; None if larger than cap"""
    pts = [np.mod(np.asarray(u, dtype=float), 1.0)]
    frontier = list(pts)
    while frontier:
        new = []
        for v in frontier:
            for (R, t) in gens:
                w = np.mod(R @ v + t, 1.0)
                w[np.abs(w - 1.0) < 1e-9] = 0.
                if not any(geom.same_pos(L, w, x) for x in pts):
                    pts.append(w)
                    new.append(w)
                    if len(pts) > cap:
                        return None
        frontier = new
    return pts


@functools.lru_cache(maxsize=256)
def _holo(spec_json):
    spec = json.loads(spec_json)
    L = make_lattice(spec)
    return L, geom.holohedry(L)


@st.composite
def crystal_recipes(draw, dim=None, max_species=3, max_mobile=8, max_other=6, min_mobile=1, force_multi=False):
    """species 0 is the 'mobile' species (1..max_mobile atoms per cell); further species are optional"""
    spec = draw(lattice_specs(dim))
    L, H = _holo(canon(spec))
    d = L.shape[0]
    nH = len(H)
    ngen = draw(st.integers(0, 3))
    gens = []
    for _ in range(ngen):
        R = H[draw(st.integers(0, nH - 1))]
        t = np.array([draw(st.sampled_from([0., 0., 0.5])) for _ in range(d)])
        gens.append((R, t))
    nspec = draw(st.integers(1, max_species))
    minsep = 0.2 * min(np.linalg.norm(L, axis=0))
    basis = []
    atoms = []
    for s in range(nspec):
        cap = max_mobile if s == 0 else max_other
        norb = draw(st.integers(1, 2))
        sites = []
        for o in range(norb):
            vals = SPECIAL if draw(st.booleans()) else SEEDVALS
            u = np.array([draw(st.sampled_from(vals)) for _ in range(d)])
            g = list(gens)
            orb = _orbit(L, g, u, cap - len(sites))
            while orb is None and g:
                g = g[:-1]
                orb = _orbit(L, g, u, cap - len(sites))
            if orb is None:
                continue
            trial = atoms + [(s, v) for v in sites] + [(s, v) for v in orb]
            # reject the orbit (not the case) if it collides with what is already there
            if len(trial) > 1 and geom.min_distance(L, trial) < minsep:
                continue
            sites += orb
        if not sites:
            if s == 0:
                sites = [np.zeros(d)]
                if atoms or False:
                    pass
            else:
                continue
        atoms += [(s, v) for v in sites]
        basis.append([[float(x) for x in v] for v in sites])
    if len(atoms) > 1 and geom.min_distance(L, atoms) < minsep:
        # only possible when the fallback origin atom collides: drop everything but species 0's first atom
        basis = [[basis[0][0]]]
    return {"name": "gen:%s" % spec["system"], "spec": spec, "lattice": [[float(x) for x in row] for row in L], "basis": basis}


# ------------------------------------------------------------------------------------------------
# catalogue: every structure used by the repository's tests (plus a few low-symmetry ones)
# ------------------------------------------------------------------------------------------------
def _cat():
    a0 = 1.0
    hexl = [[0.5, 0.5, 0.], [-S3 / 2, S3 / 2, 0.], [0., 0., 1.]]

    def hexc(c):
        return [[0.5, 0.5, 0.], [-S3 / 2, S3 / 2, 0.], [0., 0., c]]
    cat = {}
    cat["SC"] = {"lattice": np.eye(3).tolist(), "basis": [[[0., 0., 0.]]]}
    cat["FCC"] = {"lattice": (0.5 * np.array([[0., 1, 1], [1, 0, 1], [1, 1, 0]])).tolist(), "basis": [[[0., 0., 0.]]]}
    cat["BCC"] = {"lattice": (0.5 * np.array([[-1., 1, 1], [1, -1, 1], [1, 1, -1]])).tolist(), "basis": [[[0., 0., 0.]]]}
    cat["HCP"] = {"lattice": hexc(float(np.sqrt(8. / 3.))), "basis": [[[1. / 3, 2. / 3, 0.25], [2. / 3, 1. / 3, 0.75]]]}
    cat["diamond"] = {"lattice": (0.5 * np.array([[0., 1, 1], [1, 0, 1], [1, 1, 0]])).tolist(),
                      "basis": [[[-0.125, -0.125, -0.125], [0.125, 0.125, 0.125]]]}
    cat["B2"] = {"lattice": np.eye(3).tolist(), "basis": [[[0., 0., 0.], [0.45, 0.45, 0.45]]]}
    cat["B2o"] = {"lattice": np.eye(3).tolist(), "basis": [[[0., 0., 0.]], [[0.5, 0.5, 0.5]]]}
    cat["L12"] = {"lattice": np.eye(3).tolist(), "basis": [[[0., 0., 0.]], [[0., 0.5, 0.5], [0.5, 0., 0.5], [0.5, 0.5, 0.]]]}
    cat["L12m"] = {"lattice": np.eye(3).tolist(), "basis": [[[0., 0.5, 0.5], [0.5, 0., 0.5], [0.5, 0.5, 0.]], [[0., 0., 0.]]]}
    cat["NbO"] = {"lattice": np.eye(3).tolist(), "basis": [[[0., 0.5, 0.5], [0.5, 0., 0.5], [0.5, 0.5, 0.]], [[0.5, 0., 0.], [0., 0.5, 0.], [0., 0., 0.5]]]}
    ca = float(np.sqrt(3. / 8.))
    cat["omega"] = {"lattice": hexc(ca), "basis": [[[0., 0., 0.], [1. / 3, 2. / 3, 0.5], [2. / 3, 1. / 3, 0.5]]]}
    cat["romega"] = {"lattice": hexc(ca), "basis": [[[0., 0., 0.], [1. / 3, 2. / 3, 0.55], [2. / 3, 1. / 3, 0.45]]]}
    # same structures with the two-site Wyckoff set listed first (site index != Wyckoff index)
    cat["omegaB"] = {"lattice": hexc(ca), "basis": [[[1. / 3, 2. / 3, 0.5], [2. / 3, 1. / 3, 0.5], [0., 0., 0.]]]}
    cat["romegaB"] = {"lattice": hexc(ca), "basis": [[[1. / 3, 2. / 3, 0.55], [2. / 3, 1. / 3, 0.45], [0., 0., 0.]]]}
    # two Wyckoff sets on the mobile sublattice, every site an inversion centre (no origin states)
    cat["tet2w"] = {"lattice": np.diag([1., 1., 1.25]).tolist(), "basis": [[[0., 0., 0.], [0.5, 0.5, 0.]], [[0., 0., 0.5]]]}
    cat["sq2w"] = {"lattice": np.eye(2).tolist(), "basis": [[[0., 0.], [0.5, 0.5]], [[0.25, 0.], [0.75, 0.]]]}
    cat["sq3"] = {"lattice": np.eye(2).tolist(), "basis": [[[0., 0.], [0.5, 0.], [0., 0.5]]]}
    cat["sq3B"] = {"lattice": np.eye(2).tolist(), "basis": [[[0.5, 0.], [0., 0.5], [0., 0.]]]}
    cat["square"] = {"lattice": np.eye(2).tolist(), "basis": [[[0., 0.]]]}
    cat["tria"] = {"lattice": [[0.5, 0.5], [-S3 / 2, S3 / 2]], "basis": [[[0., 0.]]]}
    cat["honeycomb"] = {"lattice": [[0.5, 0.5], [-S3 / 2, S3 / 2]], "basis": [[[2. / 3, 1. / 3], [1. / 3, 2. / 3]]]}
    cat["rect2"] = {"lattice": [[1., 0.], [0., 1.2]], "basis": [[[0., 0.], [0.5, 0.42]]]}
    cat["HCPoct"] = {"lattice": hexc(float(np.sqrt(8. / 3.))), "basis": [[[0., 0., 0.], [0., 0., 0.5], [1. / 3, 2. / 3, 0.625], [1. / 3, 2. / 3, 0.875], [2. / 3, 1. / 3, 0.125], [2. / 3, 1. / 3, 0.375]],
                                                                       [[1. / 3, 2. / 3, 0.25], [2. / 3, 1. / 3, 0.75]]]}
    cat["FCCoct"] = {"lattice": (0.5 * np.array([[0., 1, 1], [1, 0, 1], [1, 1, 0]])).tolist(),
                     "basis": [[[0.5, 0.5, 0.5], [0.25, 0.25, 0.25], [0.75, 0.75, 0.75]], [[0., 0., 0.]]]}
    cat["tetP2"] = {"lattice": np.diag([1., 1., 1.25]).tolist(), "basis": [[[0., 0., 0.], [0.5, 0.5, 0.41]]]}
    cat["mono2"] = {"lattice": _from_metric([1., 1.1, 1.25], [0., -0.2, 0.]).tolist(), "basis": [[[0., 0., 0.], [0.5, 0.29, 0.5]]]}
    for k, v in cat.items():
        v["name"] = k
    return cat


CATALOGUE = _cat()


def catalogue(names=None, dim=None):
    out = []
    for k in (names if names is not None else sorted(CATALOGUE)):
        r = CATALOGUE[k]
        if dim is None or len(r["lattice"]) == dim:
            out.append(r)
    return out


def recipes(dim=None, names=None, p_catalogue=0.25, **kw):
    """mixture of catalogue entries and generated recipes"""
    cats = catalogue(names, dim)
    gen = crystal_recipes(dim=dim, **kw)
    if not cats or p_catalogue <= 0:
        return gen
    return st.one_of(gen, gen, gen, st.sampled_from(cats)) if p_catalogue <= 0.3 else st.one_of(gen, st.sampled_from(cats))


# ------------------------------------------------------------------------------------------------
# construction
# ------------------------------------------------------------------------------------------------
_built = {}


def build(recipe, **kw):
    """onsager Crystal for a recipe (cached).  kw are passed to the constructor."""
    from onsager import crystal
    key = canon([recipe["lattice"], recipe["basis"], recipe.get("spins"), sorted(kw.items())])
    if key not in _built:
        if len(_built) > 400:
            _built.clear()
        basis = [[np.array(u, dtype=float) for u in sp] for sp in recipe["basis"]]
        chem = recipe.get("chemistry", ["S%d" % i for i in range(len(basis))])
        _built[key] = crystal.Crystal(np.array(recipe["lattice"], dtype=float), basis, chemistry=chem, **kw)
    return _built[key]


def atoms_of(crys):
    """(lattice, atoms) in the oracle's plain representation taken from a constructed Crystal"""
    return np.array(crys.lattice), [(c, np.array(crys.basis[c][i])) for (c, i) in crys.atomindices]


def describe(crys):
    """class labels measured on the constructed crystal"""
    cl = ["dim%d" % crys.dim, "G%d" % len(crys.G), "natoms%d" % min(crys.N, 9)]
    inv = any(np.allclose(g.cartrot, -np.eye(crys.dim)) for g in crys.G)
    cl.append("inversion" if inv else "noinversion")
    return cl
