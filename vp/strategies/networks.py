"""Jump-network choice for a constructed crystal: cutoffs at shell midpoints computed by brute force."""
import numpy as np

from ..oracles import geom, interstitial_ref
from . import crystals as cs
from ..core import canon

_cache = {}


def shells(crys, chem, maxshell=5):
    key = ("sh", id(crys), chem, maxshell)
    if key not in _cache:
        L, atoms = cs.atoms_of(crys)
        _cache[key] = (crys, geom.shell_distances(L, atoms, chem, maxshell=maxshell))
    return _cache[key][1]


def cutoff(crys, chem, k):
    """midpoint between the k-th and (k+1)-th distinct neighbour distance (k>=1)"""
    sh = shells(crys, chem, maxshell=max(5, k + 1))
    k = min(k, len(sh) - 1)
    return 0.5 * (sh[k - 1] + sh[k])


def network(crys, chem, k, closest=0):
    """(sitelist, jumpnetwork, cutoff) through the library's own generators (verified independently by C21)"""
    key = ("jn", id(crys), chem, k, canon(closest))
    if key not in _cache:
        if len(_cache) > 600:
            _cache.clear()
        cut = cutoff(crys, chem, k)
        _cache[key] = (crys, crys.sitelist(chem), crys.jumpnetwork(chem, cut, closest), cut)
    return _cache[key][1:]


def invmap(sitelist):
    n = sum(len(s) for s in sitelist)
    inv = [0] * n
    for w, s in enumerate(sitelist):
        for i in s:
            inv[i] = w
    return inv


def percolates(crys, chem, sitelist, jn):
    """True when unit rates give a positive-definite reference diffusivity and the network is connected
    or all components are equivalent (needed by the Green-function based calculators)"""
    if not jn:
        return False
    inv = invmap(sitelist)
    rho, jumps = interstitial_ref.rates_from_data(jn, inv, [1.] * len(sitelist), [0.] * len(sitelist), [1.] * len(jn), [0.] * len(jn))
    D, D0, Dc = interstitial_ref.diffusivity(rho, jumps, crys.dim, parts=True)
    return np.linalg.eigvalsh(D).min() > 1e-6 * np.abs(D0).max()


def smallest_percolating(crys, chem, kmin=1, kmax=4, closest=0):
    for k in range(kmin, kmax + 1):
        sl, jn, cut = network(crys, chem, k, closest)
        if percolates(crys, chem, sl, jn):
            return k
    return None


def gf_ok(crys, chem, sitelist, jn):
    """precondition of the Green-function based calculators (read from GFcalc.SetRates and its tests): every connected
    component of the network percolates in all directions, and if there are several components they are copies of one
    another under the space group (garnet-like), so that one diffusivity describes all of them"""
    if not jn:
        return False
    if extra_translation(crys, chem, jn) or loop_lattice_index(crys, chem, jn) != 1:
        return False
    inv = invmap(sitelist)
    N = len(inv)
    rho, jumps = interstitial_ref.rates_from_data(jn, inv, [1.] * len(sitelist), [0.] * len(sitelist), [1.] * len(jn), [0.] * len(jn))
    comps = interstitial_ref.components(N, jumps)
    Ds = []
    for comp in comps:
        cs_ = set(comp)
        sub = [(i, j, dx, w) for (i, j, dx, w) in jumps if i in cs_]
        idx = {i: n for n, i in enumerate(comp)}
        sub = [(idx[i], idx[j], dx, w) for (i, j, dx, w) in sub]
        D, D0, Dc = interstitial_ref.diffusivity(np.ones(len(comp)) / len(comp), sub, crys.dim, parts=True)
        if np.linalg.eigvalsh(D).min() <= 1e-6 * np.abs(D0).max():
            return False
        Ds.append(D)
    if len(comps) > 1:
        first = frozenset(comps[0])
        images = set(frozenset(g.indexmap[chem][i] for i in first) for g in crys.G)
        if any(frozenset(c) not in images for c in comps):
            return False
        # one diffusivity tensor must describe every component (copies related by rotations that change D are outside
        # the calculator's domain: it averages the components' D)
        if any(np.abs(D - Ds[0]).max() > 1e-9 * np.abs(Ds[0]).max() for D in Ds):
            return False
    return True


def extra_translation(crys, chem, jn):
    """True when the sublattice of the diffusing species together with its jump network is invariant under a translation
    that is not a lattice translation of the crystal (the other species break it).  The symmetrised rate matrix Omega(q) is
    then singular at non-zero q (known finding R36: GFCrystalcalc.SetRates raises LinAlgError or loses accuracy)."""
    L = np.array(crys.lattice)
    basis = [np.array(u) for u in crys.basis[chem]]
    n = len(basis)
    if n < 2:
        return False
    jumps = set()
    for jl in jn:
        for (i, j), dx in jl:
            jumps.add((i, j, tuple(np.round(dx, 5))))
    for k in range(1, n):
        t = basis[k] - basis[0]
        perm = []
        for u in basis:
            v = u + t
            m = [q for q, w in enumerate(basis) if np.linalg.norm(L @ geom.wrap(v - w)) < 1e-6]
            if not m:
                break
            perm.append(m[0])
        else:
            if all((perm[i], perm[j], dx) in jumps for (i, j, dx) in jumps):
                return True
    return False


def loop_lattice_index(crys, chem, jn):
    """index in the crystal lattice of the lattice spanned by the closed loops of the jump network (per connected component of
    the site graph; the maximum is returned).  0 = some component does not percolate in all directions; 1 = ordinary connected
    network; k > 1 = the component is really k disjoint copies shifted by lattice vectors, which neither
    GFCrystalcalc.networkcount nor a site-index connectivity test can see (known finding R36)."""
    basis = [np.array(u) for u in crys.basis[chem]]
    d = crys.dim
    edges = {}
    for jl in jn:
        for (i, j), dx in jl:
            R = np.round(crys.invlatt @ dx - basis[j] + basis[i]).astype(int)
            edges.setdefault(i, []).append((j, R))
    worst = 1
    seen = set()
    for root in range(len(basis)):
        if root in seen or root not in edges:
            continue
        off = {root: np.zeros(d, dtype=int)}
        stack = [root]
        loops = []
        while stack:
            a = stack.pop()
            for (b, R) in edges.get(a, []):
                if b not in off:
                    off[b] = off[a] + R
                    stack.append(b)
                else:
                    v = off[a] + R - off[b]
                    if np.any(v != 0):
                        loops.append(v)
        seen.update(off)
        if not loops:
            return 0
        M = np.array(loops, dtype=int)
        # index of the integer lattice spanned by rows of M: gcd of all d x d minors
        import itertools, math
        if np.linalg.matrix_rank(M) < d:
            return 0
        g = 0
        rows = M[:60]
        for comb in itertools.combinations(range(len(rows)), d):
            g = math.gcd(g, int(round(abs(np.linalg.det(rows[list(comb)])))))
            if g == 1:
                break
        worst = max(worst, g)
    return worst
