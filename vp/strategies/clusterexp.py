"""Cluster-expansion setups (plain JSON data) for ClusterSupercell / MonteCarloSampler properties (C31-C35).

A *setup* describes everything a sampler is built from; `build(setup)` turns it into library objects (cached per process).

setup = {
  "recipe":    crystal recipe of strategies.crystals -- 3D only (ClusterSupercell documents a 3x3 supercell matrix)
  "chem":      species whose atoms jump / whose sublattice hosts the vacancy; never a spectator
  "spectator": [species indices] treated as spectators (fixed occupation "socc"); all other species are mobile
  "super":     3x3 integer matrix, COLUMNS are the supercell vectors in units of the lattice vectors
  "cl_shell":  k >= 1: cluster cutoff = midpoint between the k-th and (k+1)-th distinct interatomic distance (all species)
  "order":     maximum cluster order for cluster.makeclusters
  "socc":      [0/1, ...] spectator occupation, cycled to the needed length
  "values":    [float, ...] one value per cluster set (+ one constant when "const"), cycled when the length differs
  "const":     bool: append the constant term to the values
  "jn_shell":  0 = no jump network; k >= 1: crys.jumpnetwork(chem, midpoint after the k-th shell among species chem)
  "kra":       float, or [float, ...] cycled to one per jump class
  "ts":        bool: add transition-state clusters (cluster.makeTSclusters); "tsvalues": [float, ...] cycled
  "vacancy":   None, or n: the n-th (modulo their number) supercell site of species chem carries the vacancy
  "vaccl":     bool: append cluster.makeVacancyClusters(crys, chem, plain clusters) to the cluster sets (vacancy only);
               with a vacancy the TS clusters are made from these vacancy clusters, exactly like the test-suite does;
               a vacancy without "vaccl" silently drops the jump network (the library needs vacancy clusters for it)
}

API
  setups(...)            Hypothesis strategy for setups (construction, not rejection; crystal is built while drawing so that
                         list lengths fit; every list is nevertheless cycled by build() so any setup is executable)
  small_setups()         deterministic catalogue of setups with <= 10 mobile sites for bounded-exhaustive tiers
  build(setup)           -> Built (cached): .crys .S .nsites .chem .spectator .socc .clusters (list of sets) .values .jumpnetwork
                         (list or None) .kra .tsclusters .tsvalues .vacancy (site index or None) .chemsites (supercell
                         site indices that belong to species chem) .species_of(i)
  Built.supercell(vac)   ClusterSupercell with the vacancy at site `vac` (None = none); cached per vac
  Built.sampler(vac=.., jn=True)  a NEW cluster.MonteCarloSampler on supercell(vac) (vac defaults to the setup's vacancy)
  Built.blank(bits)      occupation array (int64) from a 0/1 list (cycled), with -1 at the setup's vacancy
  describe(built)        class labels
  selfaliased(setup)     own-geometry predicate: a supercell period is shorter than the cluster cutoff (a cluster meets its own image)
  unalias(setup)         setup with the cluster range reduced until selfaliased() is false
"""
import itertools

import numpy as np
from hypothesis import strategies as st

from . import crystals as cs, networks as nw
from ..oracles import geom
from ..core import canon

# 3D catalogue members that are cheap enough; (name, species that may be spectators)
NAMES3 = ["SC", "FCC", "BCC", "HCP", "diamond", "B2", "B2o", "L12", "L12m", "NbO", "omega", "romega", "FCCoct", "tetP2", "mono2"]

# distinct magnitudes: powers of two plus irrational offsets, both signs -- no coincidental cancellation
POOL = [float(np.round((-1) ** k * (2.0 ** ((k % 6) - 2) + 0.1 * np.sqrt(2.0 + k)), 6)) for k in range(24)]

SKEW = [[[-1, 1, 1], [1, -1, 1], [1, 1, -1]], [[0, 1, 1], [1, 0, 1], [1, 1, 0]], [[1, 1, 0], [-1, 1, 0], [0, 0, 1]],
        [[2, 1, 0], [0, 1, 1], [1, 0, 1]], [[1, -1, 0], [1, 1, 0], [0, 0, 2]]]

MAX_CLUSTERS = 260  # total number of clusters (all sets) a setup may use; keeps sampler construction below ~1 s


def _cycle(lst, n, default=0.):
    lst = list(lst) if lst is not None else []
    if not lst:
        lst = [default]
    return [lst[i % len(lst)] for i in range(n)]


_shells = {}


def allshells(crys, maxshell=4):
    """sorted distinct interatomic distances over all species (brute force, oracles.geom)"""
    key = id(crys)
    if key not in _shells:
        if len(_shells) > 300:
            _shells.clear()
        L, atoms = cs.atoms_of(crys)
        _shells[key] = (crys, geom.shell_distances(L, atoms, None, maxshell=maxshell))
    return _shells[key][1]


def cluster_cutoff(crys, k):
    sh = allshells(crys)
    k = max(1, min(k, len(sh) - 1))
    return 0.5 * (sh[k - 1] + sh[k])


_clusters = {}


def plain_clusters(crys, k, order):
    from onsager import cluster
    key = (id(crys), k, order)
    if key not in _clusters:
        if len(_clusters) > 300:
            _clusters.clear()
        _clusters[key] = (crys, cluster.makeclusters(crys, cluster_cutoff(crys, k), order))
    return _clusters[key][1]


def vacancy_clusters(crys, chem, k, order):
    from onsager import cluster
    key = (id(crys), k, order, "vac", chem)
    if key not in _clusters:
        _clusters[key] = (crys, cluster.makeVacancyClusters(crys, chem, plain_clusters(crys, k, order)))
    return _clusters[key][1]


def ts_clusters(crys, chem, k, order, jn_shell, vac):
    from onsager import cluster
    key = (id(crys), k, order, "ts", chem, jn_shell, bool(vac))
    if key not in _clusters:
        sl, jn, cut = nw.network(crys, chem, jn_shell)
        base = vacancy_clusters(crys, chem, k, order) if vac else plain_clusters(crys, k, order)
        _clusters[key] = (crys, cluster.makeTSclusters(crys, chem, jn, base))
    return _clusters[key][1]


def nclusters(clusterexp):
    return sum(len(s) for s in clusterexp)


class Built(object):
    def __init__(self, setup):
        crys = cs.build(setup["recipe"])
        if crys.dim != 3:
            raise ValueError("ClusterSupercell setups are 3D only")
        self.setup = setup
        self.crys = crys
        self.chem = int(setup["chem"])
        self.spectator = sorted(set(int(c) for c in setup.get("spectator", []) if int(c) != self.chem))
        self.S = np.array(setup["super"], dtype=int)
        self._sup = {}
        sup0 = self.supercell(None)
        self.size = sup0.size
        self.nsites = sup0.Nmobile * sup0.size
        self.nspec = sup0.Nspec * sup0.size
        self.socc = np.array(_cycle(setup.get("socc"), self.nspec, 1), dtype=int)
        k, order = int(setup["cl_shell"]), int(setup["order"])
        self.plain = plain_clusters(crys, k, order)
        self.chemsites = [i for i in range(self.nsites) if self.species_of(i) == self.chem]
        vac = setup.get("vacancy")
        self.vacancy = None if vac is None else self.chemsites[int(vac) % len(self.chemsites)]
        self.vaccl = bool(setup.get("vaccl")) and self.vacancy is not None
        self.clusters = list(self.plain) + (list(vacancy_clusters(crys, self.chem, k, order)) if self.vaccl else [])
        nval = len(self.clusters) + (1 if setup.get("const") else 0)
        self.values = np.array(_cycle(setup.get("values"), nval, 1.), dtype=float)
        self.jn_shell = int(setup.get("jn_shell") or 0)
        self.jumpnetwork = None
        self.kra, self.tsclusters, self.tsvalues = 0., [], np.zeros(0)
        # implicit precondition (every caller in the repository respects it; jumpnetworkevaluator_vacancy raises KeyError
        # otherwise): a jump network on a supercell with a vacancy needs the vacancy clusters in the cluster sets
        if self.jn_shell and (self.vacancy is None or self.vaccl):
            sl, jn, cut = nw.network(crys, self.chem, self.jn_shell)
            if jn:
                self.jumpnetwork = jn
                kra = setup.get("kra", 0.)
                self.kra = np.array(_cycle(kra, len(jn)), dtype=float) if isinstance(kra, (list, tuple)) else float(kra)
                if setup.get("ts") and (self.vacancy is None or self.vaccl):
                    self.tsclusters = ts_clusters(crys, self.chem, k, order, self.jn_shell, self.vacancy is not None)
                    self.tsvalues = np.array(_cycle(setup.get("tsvalues"), len(self.tsclusters), 0.5), dtype=float)

    def species_of(self, i):
        sup = self._sup[None]
        return sup.mobileindices[i % sup.Nmobile][0]

    def supercell(self, vac):
        from onsager import supercell
        if vac not in self._sup:
            sup = supercell.ClusterSupercell(self.crys, self.S, spectator=self.spectator)
            if vac is not None:
                sup.addvacancy(vac)
            self._sup[vac] = sup
        return self._sup[vac]

    def sampler(self, vac="setup", jn=True):
        from onsager import cluster
        if vac == "setup":
            vac = self.vacancy
        sup = self.supercell(vac)
        if jn and self.jumpnetwork is not None:
            return cluster.MonteCarloSampler(sup, self.socc.copy(), self.clusters, self.values.copy(), self.chem, self.jumpnetwork,
                                             KRAvalues=(self.kra.copy() if isinstance(self.kra, np.ndarray) else self.kra),
                                             TSclusters=self.tsclusters, TSvalues=self.tsvalues.copy())
        return cluster.MonteCarloSampler(sup, self.socc.copy(), self.clusters, self.values.copy())

    def blank(self, bits, vac="setup"):
        if vac == "setup":
            vac = self.vacancy
        occ = np.array([1 if b else 0 for b in _cycle(bits, self.nsites, 0)], dtype=np.int64)
        if vac is not None:
            occ[vac] = -1
        return occ

    def free_sites(self, vac="setup"):
        if vac == "setup":
            vac = self.vacancy
        return [i for i in range(self.nsites) if i != vac]


def min_period(crys, S):
    """length of the shortest non-zero supercell lattice vector (brute force over small integer combinations of a
    Minkowski-unreduced basis: range +-4 is ample for the matrices generated here, |entries| <= 24 on a diagonal)"""
    L = np.array(crys.lattice) @ np.array(S, dtype=int)
    G = L.T @ L
    # bound the search with the reciprocal basis: |n_i| <= |T| * |b_i|
    Linv = np.linalg.inv(L)
    best = min(np.sqrt(G[i, i]) for i in range(3))
    rng = [int(np.floor(best * np.linalg.norm(Linv[i]) + 1e-9)) for i in range(3)]
    for n in itertools.product(*[range(-r, r + 1) for r in rng]):
        if any(n):
            v = np.array(n)
            best = min(best, float(np.sqrt(v @ G @ v)))
    return best


def selfaliased(setup):
    """True when some cluster of the setup contains a site together with one of its own periodic images, i.e. a non-zero
    supercell lattice vector is shorter than the cluster cutoff (and clusters of order >= 2 are requested).
    Own geometry only (cutoff = midpoint between brute-force neighbour shells, so never equal to a lattice distance)."""
    if int(setup["order"]) < 2:
        return False
    crys = cs.build(setup["recipe"])
    return min_period(crys, setup["super"]) < cluster_cutoff(crys, int(setup["cl_shell"]))


def unalias(setup):
    """copy of the setup with the cluster shell lowered (finally order 1) until it is not self-aliased; value lists are
    kept (build() takes as many as it needs)"""
    s = dict(setup)
    while selfaliased(s):
        if int(s["cl_shell"]) > 1:
            s["cl_shell"] = int(s["cl_shell"]) - 1
        else:
            s["order"] = 1
    return s


_built = {}


def build(setup):
    key = canon(setup)
    if key not in _built:
        if len(_built) > 40:
            _built.clear()
        _built[key] = Built(setup)
    return _built[key]


def describe(b):
    cl = ["sites%02d" % min(b.nsites, 24), "cells%d" % min(b.size, 9), "order%d" % int(b.setup["order"]), "clshell%d" % int(b.setup["cl_shell"]),
          "spectators" if b.spectator else "nospectators", "vacancy" if b.vacancy is not None else "novacancy"]
    if b.spectator:
        cl.append("socc_mixed" if 0 < b.socc.sum() < len(b.socc) else "socc_uniform")
    if len(b.crys.basis) - len(b.spectator) > 1:
        cl.append("two_mobile_species")
    if b.vaccl:
        cl.append("vacancy_clusters")
    if b.jumpnetwork is not None:
        cl.append("jumpnetwork")
        cl.append("jumpclasses%d" % min(len(b.jumpnetwork), 4))
        if len(b.tsclusters):
            cl.append("TSclusters")
        cl.append("KRA_list" if isinstance(b.kra, np.ndarray) else "KRA_scalar")
    if np.linalg.det(b.S) < 0:
        cl.append("negdet_supercell")
    if np.any(b.S != np.diag(np.diag(b.S))):
        cl.append("nondiagonal_supercell")
    if setup_const(b.setup):
        cl.append("constant_term")
    return cl


def setup_const(setup):
    return bool(setup.get("const"))


# ------------------------------------------------------------------------------------------------
# strategies
# ------------------------------------------------------------------------------------------------
_value = st.sampled_from(POOL)


@st.composite
def supercells(draw, maxsize):
    """integer 3x3 matrix with 1 <= |det| <= maxsize: upper-triangular (Hermite-like) with optional negated column, or a
    skew catalogue member; all of them are accepted by Supercell.maketrans (checked exhaustively for these families)"""
    maxsize = max(1, int(maxsize))
    if maxsize >= 2 and draw(st.integers(0, 5)) == 0:
        cands = [M for M in SKEW if abs(int(round(np.linalg.det(np.array(M))))) <= maxsize]
        if cands:
            return draw(st.sampled_from(cands))
    triples = [(a, b_, c) for a in range(1, maxsize + 1) for b_ in range(a, maxsize // a + 1) for c in range(b_, maxsize // (a * b_) + 1)]
    compact = [t for t in triples if t[0] >= 2]
    if compact and draw(st.booleans()):
        triples = compact  # half of the draws avoid a period of a single cell, which mostly gives self-aliased clusters
    perm = draw(st.permutations(list(draw(st.sampled_from(triples)))))
    M = np.diag(perm)
    if draw(st.integers(0, 2)) == 0:
        M[0, 1] = draw(st.integers(-1, 1))
        M[0, 2] = draw(st.integers(-1, 1))
        M[1, 2] = draw(st.integers(-1, 1))
    if draw(st.integers(0, 5)) == 0:
        M[:, 0] = -M[:, 0]
    return [[int(x) for x in row] for row in M]


def _fit_clusters(crys, k, order):
    """largest (k, order) not above the request whose total cluster count stays below MAX_CLUSTERS"""
    while True:
        ce = plain_clusters(crys, k, order)
        if nclusters(ce) <= MAX_CLUSTERS or (k == 1 and order == 1):
            return k, order
        if order > 2:
            order -= 1
        elif k > 1:
            k -= 1
        else:
            order -= 1


@st.composite
def setups(draw, max_sites=12, jn="maybe", vacancy="maybe", max_order=3, p_catalogue=0.6):
    """jn, vacancy in {"never", "maybe", "always"}"""
    if draw(st.floats(0, 1)) < p_catalogue:
        rec = draw(st.sampled_from(cs.catalogue(NAMES3, 3)))
    else:
        rec = draw(cs.crystal_recipes(dim=3, max_species=2, max_mobile=3, max_other=3))
    try:
        crys = cs.build(rec)
    except ArithmeticError as e:
        # Crystal.reduce fails on some generated supercell-like recipes (finding R12, the subject of C19): not this domain
        if "Reduction did not produce" not in str(e):
            raise
        rec = cs.CATALOGUE["B2o"]
        crys = cs.build(rec)
    nsp = len(crys.basis)
    chem = draw(st.integers(0, nsp - 1)) if draw(st.integers(0, 3)) == 0 else 0
    others = [c for c in range(nsp) if c != chem]
    spectator = [c for c in others if draw(st.booleans())]
    nmob = sum(len(crys.basis[c]) for c in range(nsp) if c not in spectator)
    if nmob > max_sites:
        spectator = others
        nmob = len(crys.basis[chem])
    S = draw(supercells(max(1, max_sites // nmob)))
    size = abs(int(round(np.linalg.det(np.array(S)))))
    k = draw(st.sampled_from([1, 1, 2, 2, 3]))
    order = draw(st.sampled_from([o for o in (1, 2, 2, 3, 3, 4) if o <= max_order]))
    k, order = _fit_clusters(crys, k, order)
    nspec = sum(len(crys.basis[c]) for c in spectator) * size
    socc = [draw(st.integers(0, 1)) for _ in range(nspec)]
    const = draw(st.booleans())
    plain = plain_clusters(crys, k, order)
    setup = {"recipe": rec, "chem": chem, "spectator": spectator, "super": S, "cl_shell": k, "order": order, "socc": socc,
             "const": const, "jn_shell": 0, "kra": 0., "ts": False, "tsvalues": [], "vacancy": None, "vaccl": False}
    want_jn = jn == "always" or (jn == "maybe" and draw(st.booleans()))
    want_vac = vacancy == "always" or (vacancy == "maybe" and draw(st.integers(0, 2)) == 0)
    if want_vac and nmob * size >= 2:  # a lone site that is the vacancy leaves a sampler without any interaction
        nchem = len(crys.basis[chem]) * size
        setup["vacancy"] = draw(st.integers(0, nchem - 1))
        setup["vaccl"] = True if want_jn else draw(st.integers(0, 3)) > 0
    ncl = len(plain) + (len(vacancy_clusters(crys, chem, k, order)) if setup["vaccl"] else 0)
    setup["values"] = [draw(_value) for _ in range(ncl + (1 if const else 0))]
    if want_jn:
        js = draw(st.sampled_from([1, 1, 2]))
        sl, jnet, cut = nw.network(crys, chem, js)
        if jnet and sum(len(j) for j in jnet) > 40 and js > 1:
            js = 1
            sl, jnet, cut = nw.network(crys, chem, js)
        if jnet and sum(len(j) for j in jnet) <= 60:
            setup["jn_shell"] = js
            setup["kra"] = [draw(_value) for _ in jnet] if draw(st.booleans()) else draw(st.sampled_from([0., 0.7312, -0.2519]))
            if draw(st.booleans()) and (setup["vacancy"] is None or setup["vaccl"]):
                ts = ts_clusters(crys, chem, k, order, js, setup["vacancy"] is not None)
                if 0 < nclusters(ts) <= 4 * MAX_CLUSTERS:
                    setup["ts"] = True
                    setup["tsvalues"] = [draw(_value) for _ in ts]
    return setup


def small_setups(max_sites=10, jn=True, select=None):
    """deterministic catalogue for the bounded-exhaustive tiers: every entry has <= max_sites mobile sites.
    Values come from POOL in a fixed order.  With jn=True each entry appears without a vacancy and with a vacancy
    (vacancy clusters + TS clusters), otherwise without jump network.  select(n) -> bool restricts the catalogue to the
    base entries n for which it is true before anything is constructed (sharding)."""
    base = [
        ("SC", [[2, 0, 0], [0, 2, 0], [0, 0, 2]], 1, 3, []), ("SC", [[3, 0, 0], [0, 3, 0], [0, 0, 1]], 2, 3, []),
        ("SC", [[2, 1, 0], [0, 2, 1], [0, 0, 2]], 1, 2, []), ("FCC", [[2, 0, 0], [0, 2, 0], [0, 0, 2]], 1, 3, []),
        ("FCC", [[-1, 1, 1], [1, -1, 1], [1, 1, -1]], 1, 3, []), ("FCC", [[3, 0, 0], [0, 3, 0], [0, 0, 1]], 1, 2, []),
        ("BCC", [[2, 0, 0], [0, 2, 0], [0, 0, 2]], 2, 3, []), ("BCC", [[0, 1, 1], [1, 0, 1], [1, 1, 0]], 1, 2, []),
        ("HCP", [[2, 0, 0], [0, 2, 0], [0, 0, 1]], 1, 3, []), ("HCP", [[1, 0, 0], [0, 2, 0], [0, 0, 2]], 2, 2, []),
        ("diamond", [[2, 0, 0], [0, 2, 0], [0, 0, 1]], 1, 3, []), ("B2", [[2, 0, 0], [0, 2, 0], [0, 0, 1]], 2, 3, []),
        ("B2o", [[2, 0, 0], [0, 2, 0], [0, 0, 2]], 2, 3, [1]), ("B2o", [[2, 0, 0], [0, 2, 0], [0, 0, 1]], 1, 3, []),
        ("L12", [[2, 0, 0], [0, 2, 0], [0, 0, 2]], 1, 3, [1]), ("L12m", [[2, 0, 0], [0, 1, 0], [0, 0, 1]], 1, 3, [1]),
        ("NbO", [[1, 0, 0], [0, 1, 0], [0, 0, 2]], 1, 2, []), ("omega", [[1, 0, 0], [0, 1, 0], [0, 0, 3]], 2, 3, []),
        ("romega", [[2, 0, 0], [0, 1, 0], [0, 0, 1]], 1, 3, []), ("FCCoct", [[2, 0, 0], [0, 1, 0], [0, 0, 1]], 1, 3, [1]),
        ("tetP2", [[2, 0, 0], [0, 2, 0], [0, 0, 1]], 2, 3, []), ("mono2", [[1, 0, 0], [0, 2, 0], [0, 0, 2]], 2, 2, []),
    ]
    out = []
    for n, (name, S, k, order, spect) in enumerate(base):
        if select is not None and not select(n):
            continue
        rec = cs.CATALOGUE[name]
        crys = cs.build(rec)
        size = abs(int(round(np.linalg.det(np.array(S)))))
        nmob = sum(len(crys.basis[c]) for c in range(len(crys.basis)) if c not in spect) * size
        if nmob > max_sites:
            continue
        k, order = _fit_clusters(crys, k, order)
        nspec = sum(len(crys.basis[c]) for c in spect) * size
        socc = [(1 if (3 * i + n) % 4 else 0) for i in range(nspec)]
        vals = [POOL[(5 * i + n) % len(POOL)] for i in range(200)]
        s0 = {"recipe": rec, "chem": 0, "spectator": spect, "super": S, "cl_shell": k, "order": order, "socc": socc, "const": bool(n % 2),
              "values": vals, "jn_shell": 0, "kra": 0., "ts": False, "tsvalues": [], "vacancy": None, "vaccl": False}
        if not jn:
            out.append(s0)
            continue
        sl, jnet, cut = nw.network(crys, 0, 1)
        if not jnet:
            out.append(s0)
            continue
        tsv = [POOL[(7 * i + n + 3) % len(POOL)] for i in range(400)]
        kra = [POOL[(11 * i + n + 1) % len(POOL)] for i in range(len(jnet))]
        s1 = dict(s0, jn_shell=1, kra=kra if n % 3 else 0., ts=True, tsvalues=tsv)
        s2 = dict(s0, jn_shell=1, kra=kra, ts=bool(n % 2 == 0), tsvalues=tsv, vacancy=n, vaccl=True)
        out += [s1, s2]
    return out
