import numpy as np, time
from onsager import crystal, OnsagerCalc, GFcalc
def ref_D(crys, chem, jn, rho_site, rate):  # rate(i,j,k)-> W_ij for jump class k ; full space
    N=len(crys.basis[chem]); d=crys.dim
    rho=np.array(rho_site)/sum(rho_site)
    Om=np.zeros((N,N)); b=np.zeros((N,d)); D0=np.zeros((d,d))
    for k,jl in enumerate(jn):
        for (i,j),dx in jl:
            w=rate(i,j,k)
            Om[i,j]+=np.sqrt(rho[i])*w/np.sqrt(rho[j]); Om[i,i]-=w
            b[i]+=np.sqrt(rho[i])*w*dx; D0+=0.5*rho[i]*w*np.outer(dx,dx)
    return D0+b.T@np.linalg.pinv(Om)@b
def kspace_D(crys, chem, jn, rho_site, rate, h=2e-3):
    N=len(crys.basis[chem]); d=crys.dim; rho=np.array(rho_site)/sum(rho_site)
    def lam(k):
        Om=np.zeros((N,N),dtype=complex)
        for kk,jl in enumerate(jn):
            for (i,j),dx in jl:
                w=rate(i,j,kk)
                Om[i,j]+=np.sqrt(rho[i])*w/np.sqrt(rho[j])*np.exp(1j*np.dot(k,dx)); Om[i,i]-=w
        return np.linalg.eigvalsh(Om)[-1]
    D=np.zeros((d,d))
    def second(u,v,h):
        return (lam(h*(u+v))-lam(h*(u-v))-lam(h*(v-u))+lam(-h*(u+v)))/(4*h*h)
    E=np.eye(d)
    for a in range(d):
        for b_ in range(d):
            r1=second(E[a],E[b_],h); r2=second(E[a],E[b_],h/2)
            D[a,b_]=-0.5*(4*r2-r1)/3
    return D
rng=np.random.default_rng(3)
hexl=np.array([[1/2,1/2],[-np.sqrt(3/4),np.sqrt(3/4)]])
cases={'hex2d-mirror': (crystal.Crystal(hexl,[np.array([0.2,0.0]),np.array([0.0,0.2]),np.array([0.8,0.8])]),0,0.75),
       'hcp-octtet': (crystal.Crystal.HCP(1.).addbasis([np.array([0.,0.,0.]),np.array([0.,0.,0.5]),np.array([1/3,2/3,0.625]),np.array([1/3,2/3,0.875]),np.array([2/3,1/3,0.125]),np.array([2/3,1/3,0.375])]),1,0.7),
       'romega': (crystal.Crystal(np.array([[1/2, 1/2,0.],[-np.sqrt(3/4), np.sqrt(3/4), 0.],[0., 0., np.sqrt(3/8)]]),[np.zeros(3), np.array([1/3,2/3,0.55]), np.array([2/3,1/3,0.45])]),0,0.7)}
for nm,(c,chem,cut) in cases.items():
    sl=c.sitelist(chem); jn=c.jumpnetwork(chem,cut)
    t=time.time(); diff=OnsagerCalc.Interstitial(c,chem,sl,jn); tb=time.time()-t
    pre=np.exp(rng.normal(0,0.5,len(sl))); be=rng.normal(0,1.5,len(sl)); preT=np.exp(rng.normal(0,0.5,len(jn))); beT=rng.normal(2,1,len(jn))+be.max()
    D=diff.diffusivity(pre,be,preT,beT)
    inv=diff.invmap
    rho=[pre[inv[i]]*np.exp(-be[inv[i]]) for i in range(diff.N)]
    rate=lambda i,j,k: preT[k]*np.exp(-beT[k])/(pre[inv[i]]*np.exp(-be[inv[i]]))
    Dr=ref_D(c,chem,jn,rho,rate); Dk=kspace_D(c,chem,jn,rho,rate)
    G=GFcalc.GFCrystalcalc(c,chem,sl,jn,4); G.SetRates(pre,be,preT,beT)
    print(nm,'N',diff.N,'sites',sl,'NV',diff.NV,'inv',diff.omega_invertible,'build %.2f'%tb)
    print('   |D-ref| %.2e  |ref-kspace| %.2e  |GF.D-ref| %.2e  scale %.3e'%(abs(D-Dr).max(),abs(Dr-Dk).max(),abs(G.D-Dr).max(),abs(Dr).max()))
    # GF lattice equation residual at random endpoints
    W=lambda i,j,k: rate(i,j,k)
    res=[]
    basis=c.basis[chem]
    for trial in range(6):
        i=rng.integers(diff.N); j=rng.integers(diff.N); R=rng.integers(-2,3,c.dim)
        x=np.dot(c.lattice,R+basis[j]-basis[i])
        # sum_k' G(i->k',x')W(k'->j) ... use symmetric form: sum over jumps from j: G(i,j',x+dx)*W_{j' j}?  use: sum_l G(i,l,x_l) W_lj - G(i,j,x) sum W_jl = -delta  (G solves G*Omega = -1?) test both signs
        s=0.; esc=0.
        for k,jl in enumerate(jn):
            for (a,b),dx in jl:
                if a==j:
                    # jump j->b with dx: reverse is b->j; detailed balance
                    s+= G(i,b,x+dx)*W(b,a,k) ; esc+=W(a,b,k)
        lhs=s-G(i,j,x)*esc
        delta=1. if (i==j and np.all(R==0)) else 0.
        res.append((lhs,delta))
    print('   GF eq (lhs, delta):',[(round(a,8),d_) for a,d_ in res])
