"""Prototype: exact one-solute/one-vacancy Markov chain on an L^d periodic supercell; brute force, no symmetry."""
import numpy as np, itertools, time
import scipy.sparse as sp, scipy.sparse.linalg as spl

def chain_L(lattice, basis, jumps, Ls, Fstate, Ftrans, FS, FV, FT0):
    """
    lattice: dxd (columns); basis: list of unit positions (sublattice of vacancy); jumps: list of (i,j,dR(int tuple),dx, jt)
    Ls: supercell multiplicities per dim
    Fstate(i,j,R) -> binding free energy (0 beyond range); Ftrans(i,j,R, j2,R2, jt) -> TS free energy or None for reference
    returns L0vv, Lss, Lsv, L1vv in library normalisation
    """
    d = lattice.shape[0]; nb = len(basis); Ls = np.array(Ls)
    cells = list(itertools.product(*[range(L) for L in Ls])); N = len(cells)
    cellidx = {c:n for n,c in enumerate(cells)}
    def wrap(R): return tuple(int(x) for x in np.mod(R, Ls))
    def cent(R):  # minimum image representative
        R = np.mod(R, Ls); return np.where(R > Ls//2, R-Ls, R)
    # states: (i, j, Rcell) with not (i==j and R==0)
    states = [(i,j,c) for i in range(nb) for j in range(nb) for c in cells if not (i==j and all(x==0 for x in c))]
    sidx = {s:n for n,s in enumerate(states)}
    M = len(states)
    zS = np.mean(np.exp(-np.array(FS))); zV = np.mean(np.exp(-np.array(FV)))
    F = np.array([FS[i]+FV[j]+Fstate(i,j,tuple(cent(np.array(c)))) for (i,j,c) in states])
    rho = np.exp(-F)/(zS*zV)   # dilute normalisation
    rows, cols, vals = [], [], []
    diag = np.zeros(M)
    bS = np.zeros((M,d)); bV = np.zeros((M,d))
    D0ss = np.zeros((d,d)); D0sv = np.zeros((d,d)); D0vv = np.zeros((d,d))
    byi = {}
    for (a,b,dR,dx,jt) in jumps: byi.setdefault(a,[]).append((b,np.array(dR),np.array(dx),jt))
    for n,(i,j,c) in enumerate(states):
        R = cent(np.array(c))
        for (j2,dR,dx,jt) in byi.get(j,[]):
            R2 = R + dR
            if j2==i and all(np.mod(R2,Ls)==0):
                # exchange: solute moves by -dx, vacancy by dx; new state: solute at j (old vac site), vacancy at (i, -R) relative
                s2 = (j, i, wrap(-R))
                FT = Ftrans(i,j,tuple(R),j2,None,jt)   # None R2 flags exchange
                w = np.exp(-(FT - F[n]))
                dS, dV = -dx, dx
            else:
                s2 = (i, j2, wrap(R2))
                FT = Ftrans(i,j,tuple(R),j2,tuple(cent(R2)),jt)
                if FT is None: FT = FT0[jt] + FS[i]
                w = np.exp(-(FT - F[n]))
                dS, dV = 0*dx, dx
            m = sidx[s2]
            # symmetrised rate matrix element sqrt(rho_n) w / sqrt(rho_m)
            rows.append(n); cols.append(m); vals.append(np.sqrt(rho[n])*w/np.sqrt(rho[m]))
            diag[n] -= w
            bS[n] += np.sqrt(rho[n])*w*dS; bV[n] += np.sqrt(rho[n])*w*dV
            D0ss += 0.5*rho[n]*w*np.outer(dS,dS); D0sv += 0.5*rho[n]*w*np.outer(dS,dV); D0vv += 0.5*rho[n]*w*np.outer(dV,dV)
    Om = sp.csr_matrix((vals,(rows,cols)),shape=(M,M)) + sp.diags(diag)
    asym = abs(Om-Om.T).max()
    assert asym < 1e-9*abs(diag).max(), asym
    # solve Om x = b on complement of null vector sqrt(rho): regularise with projector
    v0 = np.sqrt(rho); v0/=np.linalg.norm(v0)
    A = (Om - sp.csr_matrix(np.outer(v0,v0))*0) # keep sparse; instead fix gauge by bordering
    # bordered system [[Om, v0],[v0^T,0]]
    B = sp.bmat([[Om, sp.csr_matrix(v0[:,None])],[sp.csr_matrix(v0[None,:]), None]], format='csc')
    lu = spl.splu(B)
    def solve(b):
        x = np.zeros_like(b)
        for k in range(b.shape[1]):
            rhs = np.concatenate([b[:,k]-v0*np.dot(v0,b[:,k]),[0.]])
            x[:,k] = lu.solve(rhs)[:-1]
        return x
    gS, gV = solve(bS), solve(bV)
    # L = D0 - b^T Om^{-1} b  (Om negative semidefinite)
    Lss = (D0ss + bS.T@gS)/nb; Lsv=(D0sv + bS.T@gV)/nb; Lvv=(D0vv + bV.T@gV)/nb
    return Lss, Lsv, Lvv, M

def bare_vacancy(lattice,basis,jumps,FV,FT0):
    """lone vacancy diffusivity (per-site normalisation), full-space linear algebra"""
    d=lattice.shape[0]; nb=len(basis)
    rho=np.exp(-np.array(FV)); rho/=rho.sum()
    Om=np.zeros((nb,nb)); b=np.zeros((nb,d)); D0=np.zeros((d,d))
    for (a,b2,dR,dx,jt) in jumps:
        w=np.exp(-(FT0[jt]-FV[a])); dx=np.array(dx)
        Om[a,b2]+=np.sqrt(rho[a])*w/np.sqrt(rho[b2]); Om[a,a]-=w
        b[a]+=np.sqrt(rho[a])*w*dx; D0+=0.5*rho[a]*w*np.outer(dx,dx)
    g=np.linalg.pinv(Om)@b
    return D0 + b.T@g
