import numpy as np, sys
exec(open('t2.py').read().split("# random data")[0])
mode=sys.argv[5] if len(sys.argv)>5 else 'tracer'
bFV=np.zeros(nw); bFS=np.zeros(nw); bFSV=np.zeros(d.thermo.Nstars); bFT0=np.zeros(len(jn))
if mode!='tracer':
    bFSV=rng.normal(0,1.0,d.thermo.Nstars)
kinF=np.array([bFS[s]+bFV[v] for (s,v) in d.kineticsvWyckoff])
for t,k in enumerate(d.thermo2kin): kinF[k]+=bFSV[t]
bFT1=np.array([bFT0[jt]+0.5*(kinF[a]+kinF[b]) for jt,(a,b) in zip(d.om1_jt,d.om1_SP)])
bFT2=np.array([bFT0[jt]+0.5*(kinF[a]+kinF[b]) for jt,(a,b) in zip(d.om2_jt,d.om2_SP)])
if mode=='full':
    bFT1+=rng.normal(0,0.7,len(bFT1)); bFT2+=rng.normal(-1,1,len(bFT2))
exec("t=time.time(); L0vv"+open('t2.py').read().split("t=time.time(); L0vv")[1])
