import numpy as np, warnings
from onsager import crystal, OnsagerCalc, supercell
c=crystal.Crystal.FCC(1.); jn=c.jumpnetwork(0,0.71); sl=c.sitelist(0)
d=OnsagerCalc.VacancyMediated(c,0,sl,jn,1)
def data(d,seed=0):
    rng=np.random.default_rng(seed)
    td={'preV':np.ones(1),'eneV':np.zeros(1),'preS':np.ones(1),'eneS':np.zeros(1),'preT0':np.ones(1),'eneT0':np.zeros(1),
        'preSV':np.ones(d.thermo.Nstars),'eneSV':rng.normal(0,1,d.thermo.Nstars)}
    td.update(d.makeLIMBpreene(**td)); return d.preene2betafree(1.,**td)
x=data(d)
L=d.Lij(*x); L0=[a.copy() for a in L]
L[0][:]=7.   # caller edits returned L0vv in place
L2=d.Lij(*x)
print('C14 in-place edit of returned L0vv corrupts later result:', not np.allclose(L2[0],L0[0]), L2[0][0,0])
# regeneration
d=OnsagerCalc.VacancyMediated(c,0,sl,jn,1)
ref2=OnsagerCalc.VacancyMediated(c,0,sl,jn,2)
try:
    d.generate(2); d.generatematrices(); d.tags,d.tagdict,d.tagdicttype=d.generatetags()
    x2=data(ref2,1)
    A=d.Lij(*x2); B=ref2.Lij(*x2)
    print('C14 regenerate 1->2 equals fresh Nthermo=2:', all(np.allclose(a,b) for a,b in zip(A,B)), 'Nvstars',d.vkinetic.Nvstars,ref2.vkinetic.Nvstars)
except Exception as e:
    print('C14 regenerate raised', type(e).__name__, e)
# C36
k=OnsagerCalc.vacancyThermoKinetics(pre=np.ones(1),betaene=np.zeros(1),preT=np.ones(1),betaeneT=np.zeros(1))
try: print('vTK != ', k!=k)
except Exception as e: print('C36 vTK != raised', type(e).__name__, e)
k2=OnsagerCalc.vacancyThermoKinetics(pre=np.ones(1)*(1+1e-13),betaene=np.zeros(1),preT=np.ones(1),betaeneT=np.zeros(1))
print('C36 vTK near-equal: ==',k==k2,'hash equal',hash(k)==hash(k2))
# C28
sup=supercell.Supercell(c,2*np.eye(3,dtype=int),Nsolute=2)
print('Nchem',sup.Nchem,'crys.Nchem',c.Nchem)
for ch in (-2,-1,0,1,2,3):
    try:
        sup.setocc(0,ch); print('  setocc chem',ch,'accepted; sane',sup.__sane__(), 'occ0',sup.occ[0])
    except Exception as e: print('  setocc chem',ch,'raised',type(e).__name__,e)
sup0=supercell.Supercell(c,2*np.eye(3,dtype=int),Nsolute=0)
sup0.setocc(0,0)
try:
    sup0.setocc(0,1); print('  Nsolute=0 setocc chem 1 accepted')
except Exception as e: print('  Nsolute=0 setocc chem 1 raised',type(e).__name__,e,'| sane after',sup0.__sane__(),'occ0',sup0.occ[0],'chemorder',sup0.chemorder)
