import numpy as np
from onsager import crystal, GFcalc
def run(c,chem,cut,name,seed,uniform=False):
    rng=np.random.default_rng(seed)
    sl=c.sitelist(chem); jn=c.jumpnetwork(chem,cut); N=len(c.basis[chem])
    inv=[0]*N
    for w,s in enumerate(sl):
        for i in s: inv[i]=w
    pre=np.exp(rng.normal(0,0.5,len(sl))); be=rng.normal(0,1.0,len(sl)); preT=np.exp(rng.normal(0,0.5,len(jn))); beT=rng.normal(1.5,0.7,len(jn))+be.max()
    if uniform: pre[:]=1; be[:]=0; preT[:]=1; beT[:]=0
    rho=np.array([pre[inv[i]]*np.exp(-be[inv[i]]) for i in range(N)])
    W=lambda i,k: preT[k]*np.exp(-beT[k])/rho[i]
    basis=c.basis[chem]
    pts=[(rng.integers(N),rng.integers(N),rng.integers(-2,3,c.dim)) for t in range(10)]+[(i,i,np.zeros(c.dim,dtype=int)) for i in range(N)]
    for Nmax in (4,8,12):
        G=GFcalc.GFCrystalcalc(c,chem,sl,jn,Nmax); G.SetRates(pre,be,preT,beT)
        worst=0
        for (i,j,R) in pts:
            x=np.dot(c.lattice,R+basis[j]-basis[i]); s=0.; esc=0.
            for k,jl in enumerate(jn):
                for (a,b),dx in jl:
                    if a==j: s+=np.sqrt(W(a,k)*W(b,k))*G(i,b,x+dx); esc+=W(a,k)
            delta=1. if (i==j and np.all(R==0)) else 0.
            worst=max(worst,abs(s-esc*G(i,j,x)-delta))
        print(name,'uniform' if uniform else 'random','Nmax',Nmax,'kpts',G.Nkpt,'grid',G.kptgrid,'max residual %.2e'%worst, 'jumps',[len(j) for j in jn])
rect=crystal.Crystal(np.array([[1.,0.],[0.,1.2]]),[np.zeros(2), np.array([0.5,0.42])])
run(rect,0,1.01,'rect2',1); run(rect,0,1.01,'rect2',1,True)
honey=crystal.Crystal(np.array([[1/2,1/2],[-np.sqrt(3/4),np.sqrt(3/4)]]),[np.array([2/3,1/3]), np.array([1/3,2/3])])
run(honey,0,0.6,'honey',1)
sq=crystal.Crystal(np.eye(2),[np.zeros(2)]); run(sq,0,1.5,'square-2shell',1)
