import sys, types, pkgutil, io, tarfile, json, os, subprocess, tempfile
import numpy as np
shim=types.ModuleType('pkg_resources'); shim.resource_string=lambda name,res: pkgutil.get_data('onsager',res); sys.modules['pkg_resources']=shim
from onsager import crystal, OnsagerCalc, automator, supercell
c=crystal.Crystal.HCP(1.,chemistry='Mg'); chem=0
jn=c.jumpnetwork(chem,1.01); sl=c.sitelist(chem)
d=OnsagerCalc.VacancyMediated(c,chem,sl,jn,1)
import warnings
with warnings.catch_warnings(record=True) as w:
    warnings.simplefilter('always')
    sd=d.makesupercells(3*np.eye(3,dtype=int))
    print('warnings',len(w))
print('states',len(sd['states']),'transitions',len(sd['transitions']))
buf=io.BytesIO()
with tarfile.open(fileobj=buf,mode='w:gz') as tar:
    automator.supercelltar(tar,sd,timestamp=0)
buf.seek(0)
tmp=tempfile.mkdtemp(dir='/tmp/scratch')
with tarfile.open(fileobj=buf,mode='r:gz') as tar:
    names=tar.getnames(); tar.extractall(tmp)
print(len(names),'members; sample',names[:12])
tags=json.load(open(os.path.join(tmp,'tags.json')))
print('tagmap entries',len(tags),'bijection onto dirs', sorted(tags.keys())==sorted(n for n in names if (n.startswith('relax.') or n.startswith('neb.')) and '/' not in n))
# run trans.pl for one transition
bad=0; n=0
for tag,(s0,s1) in sd['transitions'].items():
    dname=[k for k,v in tags.items() if v==tag][0]
    for m,t,sup in ((sd['transmapping'][tag][0],'init',s0),(sd['transmapping'][tag][1],'final',s1)):
        if m is None: continue
        relax=[k for k,v in tags.items() if v==m[0]][0]
        # relaxed CONTCAR := unrelaxed POSCAR
        out=subprocess.run(['perl',os.path.join(tmp,'trans.pl'),os.path.join(tmp,dname,'trans.'+t),os.path.join(tmp,relax,'POSCAR')],capture_output=True,text=True)
        ref=sup.POSCAR('x')
        def pos(txt):
            L=txt.split('\n'); k=[i for i,l in enumerate(L) if l.strip().startswith('Direct')][0]
            return np.array([[float(x) for x in l.split()[:3]] for l in L[k+1:] if l.strip()]), L[k-1]
        p1,c1=pos(out.stdout); p2,c2=pos(ref)
        n+=1
        if c1.split()!=c2.split() or p1.shape!=p2.shape or not np.allclose((p1-p2+0.5)%1-0.5,0,atol=1e-9): bad+=1
print('trans.pl applied',n,'mismatches',bad)
mk=open(os.path.join(tmp,'Makefile')).read().split('# structure of NEB runs:')[1]
deps=[l for l in mk.split('\n') if ':' in l]
missing=[x for l in deps for x in l.split(':')[1].split() if not (os.path.exists(os.path.join(tmp,x)) or x.endswith('CONTCAR'))]
print('makefile dep lines',len(deps),'missing prereqs',missing[:5])
import shutil; shutil.rmtree(tmp)
