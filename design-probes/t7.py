import numpy as np
from onsager import crystal
# 2D: rectangular lattice with atoms on mirror lines -> site symmetry m; VectorBasis should be the invariant line
def invariant_vecs(c, ind):
    # brute force: null space of sum (R - I) over point group
    A=np.vstack([g.cartrot-np.eye(c.dim) for g in c.pointG[ind[0]][ind[1]]])
    u,s,vh=np.linalg.svd(A); return vh[sum(s>1e-8):]
def invariant_tens(c, ind):
    d=c.dim; basis=[]
    for i in range(d):
        for j in range(i,d):
            T=np.zeros((d,d)); T[i,j]=T[j,i]=1; basis.append(T/np.linalg.norm(T))
    rows=[]
    for g in c.pointG[ind[0]][ind[1]]:
        R=g.cartrot
        rows.append(np.array([[np.sum(b1*(R@b2@R.T)) for b2 in basis] for b1 in basis])-np.eye(len(basis)))
    u,s,vh=np.linalg.svd(np.vstack(rows)); return len(basis)-sum(s>1e-8)
cases={
 'rect-mirror-x': crystal.Crystal(np.array([[1.,0.],[0.,1.3]]),[np.array([0.2,0.0]),np.array([0.8,0.0])]),
 'rect-mirror-y': crystal.Crystal(np.array([[1.,0.],[0.,1.3]]),[np.array([0.0,0.2]),np.array([0.0,0.8])]),
 'oblique-centered-mirror': crystal.Crystal(np.array([[1.,0.5],[0.,0.9]]),[np.array([0.15,0.0]),np.array([0.85,0.0])]),
 'rhombic-diag': crystal.Crystal(np.array([[1.,0.3],[0.3,1.]]),[np.array([0.2,0.2]),np.array([0.8,0.8])]),
 'hex2d-generic-on-mirror': crystal.Crystal(np.array([[1/2,1/2],[-np.sqrt(3/4),np.sqrt(3/4)]]),[np.array([0.2,0.2]),np.array([0.8,0.8])]),
}
for nm,c in cases.items():
    for ind in c.atomindices[:1]:
        vb=c.VectorBasis(ind); vl=c.vectlist(vb)
        inv=invariant_vecs(c,ind)
        ok = len(vl)==len(inv) and all(np.allclose(g.cartrot@v, v) for v in vl for g in c.pointG[ind[0]][ind[1]])
        tb=c.SymmTensorBasis(ind)
        okT = len(tb)==invariant_tens(c,ind) and all(np.allclose(g.cartrot@T@g.cartrot.T, T) for T in tb for g in c.pointG[ind[0]][ind[1]])
        print(nm,'|G|',len(c.G),'|pointG|',len(c.pointG[ind[0]][ind[1]]),'VB dim',vb[0],'vec',np.round(vb[1],3),'brute inv',np.round(inv,3),'VB ok',ok,'tensor dim',len(tb),'ok',okT)
print('--- hex 2D, site on mirror along a1 (-60 deg)')
hexl=np.array([[1/2,1/2],[-np.sqrt(3/4),np.sqrt(3/4)]])
for nm,c in {'hex-a1': crystal.Crystal(hexl,[np.array([0.2,0.0]),np.array([0.8,0.0])]),
             'hex-3sites': crystal.Crystal(hexl,[np.array([0.2,0.0]),np.array([0.0,0.2]),np.array([0.8,0.8])])}.items():
    for ind in c.atomindices:
        vb=c.VectorBasis(ind); vl=c.vectlist(vb); inv=invariant_vecs(c,ind)
        ok = len(vl)==len(inv) and all(np.allclose(g.cartrot@v, v) for v in vl for g in c.pointG[ind[0]][ind[1]])
        tb=c.SymmTensorBasis(ind)
        okT = len(tb)==invariant_tens(c,ind) and all(np.allclose(g.cartrot@T@g.cartrot.T, T) for T in tb for g in c.pointG[ind[0]][ind[1]])
        print(nm,ind,'|G|',len(c.G),'|pointG|',len(c.pointG[ind[0]][ind[1]]),'VB',vb[0],np.round(vb[1],3),'brute',np.round(inv,3),'VB ok',ok,'| tensor dim',len(tb),'ok',okT)
