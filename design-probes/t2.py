import numpy as np, time, sys
from onsager import crystal, OnsagerCalc
from chain import chain_L, bare_vacancy
rng=np.random.default_rng(int(sys.argv[2]) if len(sys.argv)>2 else 0)
name=sys.argv[1]
if name=='fcc': c=crystal.Crystal.FCC(1.); cut=0.71
if name=='sc': c=crystal.Crystal(np.eye(3),[np.zeros(3)]); cut=1.01
if name=='hcp': c=crystal.Crystal.HCP(1.); cut=1.01
if name=='sq': c=crystal.Crystal(np.eye(2),[np.zeros(2)]); cut=1.01
if name=='b2': c=crystal.Crystal(np.eye(3), [np.zeros(3), np.array([0.45, 0.45, 0.45])]); cut=0.99
if name=='honey': c=crystal.Crystal(np.array([[1/2,1/2],[-np.sqrt(3/4),np.sqrt(3/4)]]),[np.array([2/3,1/3]), np.array([1/3,2/3])]); cut=0.6
chem=0; jn=c.jumpnetwork(chem,cut); sl=c.sitelist(chem)
Nth=int(sys.argv[3]) if len(sys.argv)>3 else 1
d=OnsagerCalc.VacancyMediated(c,chem,sl,jn,Nth)
nw=len(sl); inv=d.invmap
# random data (direct bF arrays)
bFV=rng.normal(0,1,nw); bFV-=bFV.min(); bFS=rng.normal(0,1,nw); bFS-=bFS.min()
bFSV=rng.normal(0,1.0,d.thermo.Nstars)
bFT0=rng.normal(2,0.7,len(jn)) + max(bFV)
# kinetic star energies
kinF=np.array([bFS[s]+bFV[v] for (s,v) in d.kineticsvWyckoff]); 
for t,k in enumerate(d.thermo2kin): kinF[k]+=bFSV[t]
bFT1=np.array([bFT0[jt]+0.5*(kinF[a]+kinF[b])-0.5*(bFV[inv[d.kinetic.states[d.om1_jn[n][0][0][0]].j]]+bFV[inv[d.kinetic.states[d.om1_jn[n][0][0][1]].j]]) + rng.normal(0,0.7) for n,(jt,(a,b)) in enumerate(zip(d.om1_jt,d.om1_SP))])
# careful: must not alter om1 for jumps where both ... all om1 in list have >=1 thermo endpoint so free
bFT2=np.array([bFT0[jt]+0.5*(kinF[a]+kinF[b]) + rng.normal(-1,1.0) for jt,(a,b) in zip(d.om2_jt,d.om2_SP)])
t=time.time(); L0vv,Lss,Lsv,L1vv=d.Lij(bFV,bFS,bFSV,bFT0,bFT1,bFT2); tl=time.time()-t
# build physical functions from the library's classification (prototype only)
basis=c.basis[chem]
jumps=[]
for jt,jl in enumerate(jn):
    for (i,j),dx in jl:
        dR=np.round(np.dot(c.invlatt,dx)-basis[j]+basis[i]).astype(int)
        jumps.append((i,j,tuple(dR),dx,jt))
from onsager.crystalStars import PairState
def PS(i,j,R): return PairState(i=i,j=j,R=np.array(R),dx=np.zeros(c.dim))
def Fstate(i,j,R):
    k=d.thermo.starindex(PS(i,j,R))
    return 0. if k is None else bFSV[k]
om1map={}
for n,jl in enumerate(d.om1_jn):
    for (a,b),dx in jl:
        om1map[(a,b)]=n
om2map={}
for n,jl in enumerate(d.om2_jn):
    for (a,b),dx in jl: om2map[a]=n
def Ftrans(i,j,R,j2,R2,jt):
    a=d.kinetic.stateindex(PS(i,j,R))
    if R2 is None:
        return bFT2[om2map[a]]
    b=d.kinetic.stateindex(PS(i,j2,R2))
    if a is None or b is None or (a,b) not in om1map: return None
    return bFT1[om1map[(a,b)]]
FS=[bFS[inv[i]] for i in range(len(basis))]; FV=[bFV[inv[i]] for i in range(len(basis))]
print('lib  L0vv',np.round(np.diag(L0vv),8),'Lss',np.round(np.diag(Lss),8),'Lsv',np.round(np.diag(Lsv),8),'L1vv',np.round(np.diag(L1vv),8),'t=%.2f'%tl)
D0=bare_vacancy(c.lattice,basis,jumps,FV,bFT0)
print('bare vac ref', np.round(np.diag(D0),8), 'max diff', abs(D0-L0vv).max())
Llist=[int(x) for x in sys.argv[4].split(',')] if len(sys.argv)>4 else [4,6,8]
res=[]
for L in Llist:
    t=time.time()
    rss,rsv,rvv,M=chain_L(c.lattice,basis,jumps,[L]*c.dim,Fstate,Ftrans,FS,FV,bFT0)
    Ns=L**c.dim*len(basis)
    r1vv=(rvv - D0)*1.0   # rvv is already lib normalised: sum/nb == N_s * D_VV ... check
    res.append((Ns,rss,rsv,rvv))
    print('L',L,'M',M,'t=%.1f'%(time.time()-t),'Lss',np.round(np.diag(rss),8),'Lsv',np.round(np.diag(rsv),8),'Lvv-Ns*D0',np.round(np.diag(rvv-Ns*D0),8))
# Richardson in 1/Ns using last two
(N1,s1,v1,w1),(N2,s2,v2,w2)=res[-2],res[-1]
ex=lambda a,b:(N2*b-N1*a)/(N2-N1)
print('extrap Lss',np.round(np.diag(ex(s1,s2)),8),' Lsv',np.round(np.diag(ex(v1,v2)),8),' L1vv',np.round(np.diag(ex(w1-N1*D0,w2-N2*D0)),8))
print('absdiff Lss %.2e Lsv %.2e L1vv %.2e'%(abs(ex(s1,s2)-Lss).max(),abs(ex(v1,v2)-Lsv).max(),abs(ex(w1-N1*D0,w2-N2*D0)-L1vv).max()))
