import numpy as np, sys, time
from onsager import crystal, OnsagerCalc
from chain import chain_L, bare_vacancy
from onsager.crystalStars import PairState
name=sys.argv[1]; seed=int(sys.argv[2]); Nth=int(sys.argv[3]); Llist=[int(x) for x in sys.argv[4].split(',')]; mode=sys.argv[5]
rng=np.random.default_rng(seed)
a0,ca=1.,np.sqrt(3/8)
if name=='omega': c=crystal.Crystal(a0*np.array([[1/2, 1/2,0.],[-np.sqrt(3/4), np.sqrt(3/4), 0.],[0., 0., ca]]),[np.zeros(3), np.array([1/3,2/3,1/2]), np.array([2/3,1/3,1/2])]); cut=0.7
if name=='romega': c=crystal.Crystal(a0*np.array([[1/2, 1/2,0.],[-np.sqrt(3/4), np.sqrt(3/4), 0.],[0., 0., ca]]),[np.zeros(3), np.array([1/3,2/3,0.55]), np.array([2/3,1/3,0.45])]); cut=0.7
if name=='b2': c=crystal.Crystal(np.eye(3), [np.zeros(3), np.array([0.45, 0.45, 0.45])]); cut=0.99
if name=='hcp': c=crystal.Crystal.HCP(1.); cut=1.01
if name=='fcc': c=crystal.Crystal.FCC(1.); cut=0.71
if name=='honey': c=crystal.Crystal(np.array([[1/2,1/2],[-np.sqrt(3/4),np.sqrt(3/4)]]),[np.array([2/3,1/3]), np.array([1/3,2/3])]); cut=0.6
if name=='rect2': c=crystal.Crystal(np.array([[1.,0.],[0.,1.2]]),[np.zeros(2), np.array([0.5,0.42])]); cut=1.01
chem=0; jn=c.jumpnetwork(chem,cut); sl=c.sitelist(chem)
d=OnsagerCalc.VacancyMediated(c,chem,sl,jn,Nth)
nw=len(sl); inv=d.invmap
print('sitelist',sl,'VB',[c.VectorBasis((chem,s[0]))[0] for s in sl],'jn',[len(j) for j in jn],'OS',len(d.OSindices))
bFV=np.zeros(nw); bFS=np.zeros(nw); bFSV=np.zeros(d.thermo.Nstars); bFT0=np.zeros(len(jn))
if 'V' in mode: bFV=rng.normal(0,1,nw); bFV-=bFV.min()
if 'S' in mode: bFS=rng.normal(0,1,nw); bFS-=bFS.min()
if 'B' in mode: bFSV=rng.normal(0,1.0,d.thermo.Nstars)
if '0' in mode: bFT0=rng.normal(0,0.7,len(jn))
bFT0+=max(bFV)+1
kinF=np.array([bFS[s]+bFV[v] for (s,v) in d.kineticsvWyckoff])
for t,k in enumerate(d.thermo2kin): kinF[k]+=bFSV[t]
def limb(kinF):
    # LIMB: TS = FT0 + 0.5*(excess of endpoints over vacancy-only energies)
    f1=np.array([bFT0[jt]+0.5*(kinF[a]+kinF[b]) - 0.5*(bFV[d.kineticsvWyckoff[a][1]]+bFV[d.kineticsvWyckoff[b][1]]) for jt,(a,b) in zip(d.om1_jt,d.om1_SP)])
    f2=np.array([bFT0[jt]+0.5*(kinF[a]+kinF[b]) - 0.5*(bFV[d.kineticsvWyckoff[a][1]]+bFV[d.kineticsvWyckoff[b][1]]) for jt,(a,b) in zip(d.om2_jt,d.om2_SP)])
    return f1,f2
bFT1,bFT2=limb(kinF)
if '1' in mode: bFT1+=rng.normal(0,0.7,len(bFT1))
if '2' in mode: bFT2+=rng.normal(-1,1,len(bFT2))
L0vv,Lss,Lsv,L1vv=d.Lij(bFV,bFS,bFSV,bFT0,bFT1,bFT2)
basis=c.basis[chem]
jumps=[]
for jt,jl in enumerate(jn):
    for (i,j),dx in jl:
        dR=np.round(np.dot(c.invlatt,dx)-basis[j]+basis[i]).astype(int)
        jumps.append((i,j,tuple(dR),dx,jt))
def PS(i,j,R): return PairState(i=i,j=j,R=np.array(R),dx=np.zeros(c.dim))
om1map={(a,b):n for n,jl in enumerate(d.om1_jn) for (a,b),dx in jl}
om2map={a:n for n,jl in enumerate(d.om2_jn) for (a,b),dx in jl}
def mkF(bFSV,bFT1,bFT2):
    def Fstate(i,j,R):
        k=d.thermo.starindex(PS(i,j,R)); return 0. if k is None else bFSV[k]
    def Ftrans(i,j,R,j2,R2,jt):
        a=d.kinetic.stateindex(PS(i,j,R))
        if R2 is None: return bFT2[om2map[a]]
        b=d.kinetic.stateindex(PS(i,j2,R2))
        if a is None or b is None or (a,b) not in om1map: return None
        return bFT1[om1map[(a,b)]]
    return Fstate,Ftrans
FS=[bFS[inv[i]] for i in range(len(basis))]; FV=[bFV[inv[i]] for i in range(len(basis))]
pr=lambda M: np.round(np.array([M[0,0],M[-1,-1],M[0,-1]]),7)
print('lib  L0vv',pr(L0vv),'Lss',pr(Lss),'Lsv',pr(Lsv),'L1vv',pr(L1vv))
D0=bare_vacancy(c.lattice,basis,jumps,FV,bFT0)
print('bare vac ref maxdiff %.2e'%abs(D0-L0vv).max())
# reference chains
kinF0=np.array([bFS[s]+bFV[v] for (s,v) in d.kineticsvWyckoff]); r1,r2=limb(kinF0)
zS=np.mean(np.exp(-np.array(FS))); zV=np.mean(np.exp(-np.array(FV)))
excl=sum(np.exp(-FS[i]-FV[i]) for i in range(len(basis)))/(len(basis)*zS*zV)
res=[]
for L in Llist:
    t=time.time()
    rss,rsv,rvv,M=chain_L(c.lattice,basis,jumps,[L]*c.dim,*mkF(bFSV,bFT1,bFT2),FS,FV,bFT0)
    _,_,rvv0,_=chain_L(c.lattice,basis,jumps,[L]*c.dim,*mkF(0*bFSV,r1,r2),FS,FV,bFT0)
    Ns=L**c.dim*len(basis)
    res.append((Ns,rss,rsv,rvv-(Ns-1)*D0,rvv-(Ns-excl)*D0,rvv-rvv0))
    print('L',L,'M',M,'t=%.1f'%(time.time()-t),'Lss',pr(rss),'Lsv',pr(rsv),'vvA',pr(res[-1][3]),'vvB',pr(res[-1][4]),'vvC',pr(res[-1][5]))
(N1,*a1),(N2,*a2)=res[-2],res[-1]
ex=lambda a,b:(N2*b-N1*a)/(N2-N1)
names=['Lss','Lsv','vvA (Ns-1)D0','vvB (Ns-excl)D0','vvC nonint chain']
refs=[Lss,Lsv,L1vv,L1vv,L1vv]
for nm,x,y,r in zip(names,a1,a2,refs):
    e=ex(x,y); print('%-18s extrap'%nm,pr(e),'absdiff vs lib %.2e'%abs(e-r).max())
# site-resolved reference: X_s = contribution of vacancy-at-site-s to D0 (bare + correlated)
def site_resolved(lattice,basis,jumps,FV,FT0):
    d=lattice.shape[0]; nb=len(basis)
    rho=np.exp(-np.array(FV)); rho/=rho.mean()   # mean 1
    Om=np.zeros((nb,nb)); b=np.zeros((nb,d)); X=np.zeros((nb,d,d))
    for (a,b2,dR,dx,jt) in jumps:
        w=np.exp(-(FT0[jt]-FV[a])); dx=np.array(dx)
        Om[a,b2]+=np.sqrt(rho[a])*w/np.sqrt(rho[b2]); Om[a,a]-=w
        b[a]+=np.sqrt(rho[a])*w*dx; X[a]+=0.5*rho[a]*w*np.outer(dx,dx)
    g=np.linalg.pinv(Om)@b
    for s in range(nb): X[s]+=0.5*(np.outer(b[s],g[s])+np.outer(g[s],b[s]))
    return X
X=site_resolved(c.lattice,basis,jumps,FV,bFT0)
pS=np.exp(-np.array(FS)); pS/=pS.mean()
print('sum X/nb - D0 %.2e'%abs(X.sum(axis=0)/len(basis)-D0).max())
corr=sum((pS[s]-1)*X[s] for s in range(len(basis)))/len(basis)
e=ex(a1[2],a2[2])+corr
print('vvA + sum (pS-1)X/nb', pr(e), 'absdiff vs lib %.2e'%abs(e-L1vv).max())
