import numpy as np, sys
exec(open('t13.py').read().split("# ---- C19")[0])
from chain import chain_L, bare_vacancy
from onsager.crystalStars import PairState
def oracle(c,v,jn,bFSVx,T1x,T2x,Ls):
    basis=c.basis[chem]; inv=v.invmap
    jumps=[]
    for jt,jl in enumerate(jn):
        for (i,j),dx in jl:
            dR=np.round(np.dot(c.invlatt,dx)-basis[j]+basis[i]).astype(int); jumps.append((i,j,tuple(dR),dx,jt))
    def PS(i,j,R): return PairState(i=i,j=j,R=np.array(R),dx=np.zeros(c.dim))
    om1map={(a,b):n for n,jl in enumerate(v.om1_jn) for (a,b),dx in jl}
    om2map={a:n for n,jl in enumerate(v.om2_jn) for (a,b),dx in jl}
    def Fstate(i,j,R):
        k=v.thermo.starindex(PS(i,j,R)); return 0. if k is None else bFSVx[k]
    def Ftrans(i,j,R,j2,R2,jt):
        a=v.kinetic.stateindex(PS(i,j,R))
        if R2 is None: return T2x[om2map[a]]
        b=v.kinetic.stateindex(PS(i,j2,R2))
        if a is None or b is None or (a,b) not in om1map: return None
        return T1x[om1map[(a,b)]]
    FS=[bFS[inv[i]] for i in range(len(basis))]; FV=[bFV[inv[i]] for i in range(len(basis))]
    res=[]
    for L in Ls:
        rss,rsv,rvv,M=chain_L(c.lattice,basis,jumps,[L]*c.dim,Fstate,Ftrans,FS,FV,bFT0)
        res.append((L**c.dim*len(basis),rss,rsv))
    (N1,s1,v1),(N2,s2,v2)=res[-2],res[-1]
    ex=lambda a,b:(N2*b-N1*a)/(N2-N1)
    return ex(s1,s2),ex(v1,v2)
Ls=[int(x) for x in sys.argv[1].split(',')]
oA=oracle(cA,vA,jnA,bFSV,T1,T2,Ls); oB=oracle(cB,vB,jnB,svB,t1B,t2B,Ls)
d3=lambda M: np.round(np.diag(M),6)
print('chain A Lss',d3(oA[0]),'Lsv',d3(oA[1])); print('chain B Lss',d3(oB[0]),'Lsv',d3(oB[1]))
print('lib   A Lss',d3(LA[1]),'Lsv',d3(LA[2])); print('lib   B Lss',d3(LB[1]),'Lsv',d3(LB[2]))
print('chain A-B %.1e %.1e | libA-chainA %.1e %.1e | libB-chainB %.1e %.1e'%(abs(oA[0]-oB[0]).max(),abs(oA[1]-oB[1]).max(),abs(LA[1]-oA[0]).max(),abs(LA[2]-oA[1]).max(),abs(LB[1]-oB[0]).max(),abs(LB[2]-oB[1]).max()))
