import time, numpy as np, warnings
from onsager import crystal, OnsagerCalc
def mk(name):
    if name=='fcc': c=crystal.Crystal.FCC(1.); cut=0.71
    if name=='bcc': c=crystal.Crystal.BCC(1.); cut=0.87
    if name=='sc': c=crystal.Crystal(np.eye(3),[np.zeros(3)]); cut=1.01
    if name=='hcp': c=crystal.Crystal.HCP(1.); cut=1.01
    if name=='sq': c=crystal.Crystal(np.eye(2),[np.zeros(2)]); cut=1.01
    if name=='honey': c=crystal.Crystal(np.array([[1/2,1/2],[-np.sqrt(3/4),np.sqrt(3/4)]]),[np.array([2/3,1/3]), np.array([1/3,2/3])]); cut=0.6
    if name=='b2': c=crystal.Crystal(np.eye(3), [np.zeros(3), np.array([0.45, 0.45, 0.45])]); cut=0.99
    if name=='tet2': c=crystal.Crystal(np.array([[1,0,0],[0,1,0],[0,0,1.3]]), [np.zeros(3), np.array([0.5,0.5,0.4])]); cut=1.01
    return c,cut
import sys
for name in sys.argv[1:]:
    c,cut=mk(name)
    jn=c.jumpnetwork(0,cut); sl=c.sitelist(0)
    for Nth in (1,2):
        t=time.time()
        d=OnsagerCalc.VacancyMediated(c,0,sl,jn,Nth)
        t1=time.time()-t
        td={'preV':np.ones(len(sl)),'eneV':np.zeros(len(sl)),'preS':np.ones(len(sl)),'eneS':np.zeros(len(sl)),
            'preT0':np.ones(len(jn)),'eneT0':np.zeros(len(jn)),'preSV':np.ones(d.thermo.Nstars),'eneSV':np.zeros(d.thermo.Nstars)}
        td.update(d.makeLIMBpreene(**td))
        t=time.time()
        L=d.Lij(*d.preene2betafree(1.,**td))
        t2=time.time()-t
        t=time.time()
        L=d.Lij(*d.preene2betafree(1.,**td))
        t3=time.time()-t
        print(name,'G',len(c.G),'N',c.N,'jn',[len(j) for j in jn],'Nth',Nth,'build %.2f'%t1,'Lij first %.2f cached %.3f'%(t2,t3),
              'kin states',d.kinetic.Nstates,'vstars',d.vkinetic.Nvstars,'GFstars',d.GFstarset.Nstars,'kpts',d.GFcalc.Nkpt, 'om1',len(d.om1_jn),'om2',len(d.om2_jn), 'Lss/Lvv',L[1][0,0]/L[0][0,0])
