import json, numpy as np, sys
from vp.strategies import vacancy as vs, crystals as cs
from vp.props import c01
from vp.oracles import chain_ref
from onsager.crystalStars import PairState
name=sys.argv[1]; k=int(sys.argv[2])
setup={"recipe":cs.CATALOGUE[name],"chem":0,"k":k,"closest":0,"Nthermo":1}
crys,sl,jn,calc=vs.calculator(setup)
rng=np.random.default_rng(3)
bFT0=list(np.round(1+float(sys.argv[3])*rng.uniform(0,2,len(jn)),3)); sys.argv.pop(3)
data=vs.tracer_data(calc,[0.]*len(sl),bFT0)
if len(sys.argv)>3:
    data['bFSV']=list(np.round(rng.uniform(-1,1,calc.thermo.Nstars),3))
    l1,l2=vs.limb(calc,data['bFV'],data['bFS'],data['bFSV'],data['bFT0']); data['bFT1']=[x+0.3 for x in l1]; data['bFT2']=[x+0.2 for x in l2]
L=calc.Lij(*vs.args(data))   # sets GFcalc rates
basis,jumps,Fstate,Ftrans,FS,FV=c01.model(calc,data)
nb=len(basis); d=crys.dim
GF=calc.GFcalc
# states: kinetic set (incl. origin)
K=list(calc.kinetic.states); nK=len(K)
idx={ (s.i,s.j,tuple(s.R)):n for n,s in enumerate(K)}
isorigin=[s.iszero() for s in K]
zS=np.mean(np.exp(-np.array(FS))); zV=np.mean(np.exp(-np.array(FV)))
F=np.array([FS[s.i]+FV[s.j]+(0 if s.iszero() else Fstate(s.i,s.j,tuple(int(x) for x in s.R))) for s in K])
p=np.exp(-F)/(zS*zV); p0=np.array([np.exp(-FS[s.i]-FV[s.j])/(zS*zV) for s in K])
byi={}
for (a,b,dR,dx,jt) in jumps: byi.setdefault(a,[]).append((b,np.array(dR),np.array(dx),jt))
om=np.zeros((nK,nK)); om0=np.zeros((nK,nK)); bS=np.zeros((nK,d)); D0ss=np.zeros((d,d))
for n,s in enumerate(K):
    R=np.array(s.R)
    for (j2,dR,dx,jt) in byi.get(s.j,[]):
        R2=R+dR
        # bare jump (solute ignored): target state (i, j2, R2), may be origin or outside K
        w0=np.exp(-(data['bFT0'][jt]-FV[s.j]))
        m=idx.get((s.i,j2,tuple(R2)))
        om0[n,n]-=w0
        if m is not None: om0[n,m]+=np.sqrt(p0[n])*w0/np.sqrt(p0[m])
        if isorigin[n]: continue
        if j2==s.i and np.all(R2==0):
            # exchange
            FT=Ftrans(s.i,s.j,tuple(int(x) for x in R),j2,None,jt)
            w=np.exp(-(FT-F[n])); m2=idx[(s.j,s.i,tuple(-R))]
            om[n,n]-=w; om[n,m2]+=np.sqrt(p[n])*w/np.sqrt(p[m2])
            bS[n]+=np.sqrt(p[n])*w*(-dx); D0ss+=0.5*p[n]*w*np.outer(dx,dx)
        else:
            FT=Ftrans(s.i,s.j,tuple(int(x) for x in R),j2,tuple(int(x) for x in R2),jt)
            if FT is None: FT=data['bFT0'][jt]+FS[s.i]
            w=np.exp(-(FT-F[n]))
            om[n,n]-=w
            if m is not None: om[n,m]+=np.sqrt(p[n])*w/np.sqrt(p[m])
dom=om-om0
print('max |dom| on outermost states', np.abs(dom).max(), 'asym', np.abs(dom-dom.T).max())
g0=np.zeros((nK,nK))
for a,sa in enumerate(K):
    for b,sb in enumerate(K):
        if sa.i==sb.i: g0[a,b]=GF(sa.j,sb.j,sb.dx-sa.dx)
P=[n for n in range(nK) if not isorigin[n]]; O=[n for n in range(nK) if isorigin[n]]
g0pp=g0[np.ix_(P,P)]-g0[np.ix_(P,O)]@np.linalg.inv(g0[np.ix_(O,O)])@g0[np.ix_(O,P)]
G=np.linalg.inv(np.eye(len(P))+g0pp@dom[np.ix_(P,P)])@g0pp
Lss=(D0ss+bS[P].T@G@bS[P])/nb
# without Schur (just restrict)
G2=np.linalg.inv(np.eye(len(P))+g0[np.ix_(P,P)]@dom[np.ix_(P,P)])@g0[np.ix_(P,P)]
Lss2=(D0ss+bS[P].T@G2@bS[P])/nb
o=chain_ref.dilute_limit(np.array(crys.lattice),nb,jumps,Fstate,Ftrans,FS,FV,data['bFT0'],sizes=((12,16,20) if crys.dim==2 else (6,8,10)))
print('lib',np.round(np.diag(L[1]),6),'fullspace+Schur',np.round(np.diag(Lss),6),'fullspace restrict',np.round(np.diag(Lss2),6),'chain',np.round(np.diag(o['Lss']),6))

omex=np.zeros((nK,nK))
for n,st in enumerate(K):
    if isorigin[n]: continue
    R=np.array(st.R)
    for (j2,dR,dx,jt) in byi.get(st.j,[]):
        R2=R+dR
        if j2==st.i and np.all(R2==0):
            FT=Ftrans(st.i,st.j,tuple(int(x) for x in R),j2,None,jt); w=np.exp(-(FT-F[n])); m2=idx[(st.j,st.i,tuple(-R))]
            omex[n,n]-=w; omex[n,m2]+=np.sqrt(p[n])*w/np.sqrt(p[m2])
sect=np.array([K[n].i for n in P]); sqp=np.sqrt(p[P]); omexP=omex[np.ix_(P,P)]
U=np.array([(sect==i)*sqp for i in range(nb)])          # nb x nP
V=np.array([om[np.ix_(P,P)]@U[i] for i in range(nb)])    # v_i = omega u_i (local; on truncated K only exchange terms survive? check)
print('locality check: |v_i - omex u_i| =',max(np.abs(V[i]-omexP@U[i]).max() for i in range(nb)))
V=np.array([omexP@U[i] for i in range(nb)])
Lnew=np.zeros((d,d))
bP=bS[P]
Y0=G@bP                      # nP x d
Yj=np.array([G@V[j] for j in range(nb)])   # nb x nP
# conditions: for each sector i and component: sum_a in i sqrt(p_a) [ b - sum_j c_j v_j - omex (y0 - sum_j c_j y_j) ]_a = 0
A=np.zeros((nb,nb)); rhs=np.zeros((nb,d))
for i in range(nb):
    wgt=U[i]
    rhs[i]=wgt@(bP-omexP@Y0)
    for j in range(nb):
        A[i,j]=wgt@(V[j]-omexP@Yj[j])
c=np.linalg.lstsq(A,rhs,rcond=1e-10)[0]    # nb x d
Y=Y0-np.einsum('jd,ja->ad',c,Yj)
X=Y+np.einsum('jd,ja->ad',c,U)
Lnew=(D0ss+bP.T@X)/nb
print('A',A.tolist(),'c',np.round(c,5).tolist())
print('NEW slow-mode corrected Lss',np.round(np.diag(Lnew),6),' lib',np.round(np.diag(L[1]),6),' chain',np.round(np.diag(o['Lss']),6))
