import numpy as np, itertools
from onsager import crystal, OnsagerCalc
rng=np.random.default_rng(7)
a0,ca=1.,np.sqrt(3/8)
latt=a0*np.array([[1/2, 1/2,0.],[-np.sqrt(3/4), np.sqrt(3/4), 0.],[0., 0., ca]])
def mk(z): return crystal.Crystal(latt,[np.zeros(3), np.array([1/3,2/3,0.5+z]), np.array([2/3,1/3,0.5-z])])
cA,cB=mk(0.05),mk(0.08)
chem=0
jnA=cA.jumpnetwork(chem,0.7); slA=cA.sitelist(chem); slB=cB.sitelist(chem)
# same topology in B
lattA=cA.jumpnetwork2lattice(chem,jnA)
jnB=[[((i,j),np.dot(cB.lattice,R+cB.basis[chem][j]-cB.basis[chem][i])) for (i,j),R in jl] for jl in lattA]
print('sitelists',slA,slB,'basisA',np.round(cA.basis[0],3).tolist(),'basisB',np.round(cB.basis[0],3).tolist())
# interstitial-type diffusion of species 0
dA=OnsagerCalc.Interstitial(cA,chem,slA,jnA); dB=OnsagerCalc.Interstitial(cB,chem,slB,jnB)
pre=np.exp(rng.normal(0,0.5,len(slA))); be=rng.normal(0,1,len(slA)); preT=np.exp(rng.normal(0,0.5,len(jnA))); beT=rng.normal(2,0.7,len(jnA))+be.max()
DA=dA.diffusivity(pre,be,preT,beT); DB=dB.diffusivity(pre,be,preT,beT)
print('C04e interstitial |DA-DB| %.2e scale %.2e ; bare differs %.2e'%(abs(DA-DB).max(),abs(DA).max(), 0))
# vacancy mediated
vA=OnsagerCalc.VacancyMediated(cA,chem,slA,jnA,1); vB=OnsagerCalc.VacancyMediated(cB,chem,slB,jnB,1)
print('classes equal', len(vA.om1_jn)==len(vB.om1_jn), len(vA.om2_jn)==len(vB.om2_jn), vA.thermo.Nstars==vB.thermo.Nstars)
nw=len(slA)
bFV=rng.normal(0,1,nw); bFV-=bFV.min(); bFS=np.zeros(nw); bFSV=rng.normal(0,1,vA.thermo.Nstars); bFT0=rng.normal(1,0.5,len(jnA))+bFV.max()+0.5
# data by class index: need class correspondence A<->B: map by (i,j,R) of representative
def key(PS): return (PS.i,PS.j,tuple(PS.R))
def data_for(v, bFSV_by_key, T1_by_key, T2_by_key):
    sv=np.array([bFSV_by_key[frozenset(key(v.thermo.states[s]) for s in star)] for star in v.thermo.stars])
    t1=np.array([T1_by_key[frozenset((key(v.kinetic.states[a]),key(v.kinetic.states[b])) for (a,b),dx in jl)] for jl in v.om1_jn])
    t2=np.array([T2_by_key[frozenset((key(v.kinetic.states[a]),key(v.kinetic.states[b])) for (a,b),dx in jl)] for jl in v.om2_jn])
    return sv,t1,t2
svk={frozenset(key(vA.thermo.states[s]) for s in star): x for star,x in zip(vA.thermo.stars,bFSV)}
kinF=np.array([bFS[s]+bFV[v] for (s,v) in vA.kineticsvWyckoff])
for t,k in enumerate(vA.thermo2kin): kinF[k]+=bFSV[t]
T1=np.array([max(kinF[a],kinF[b])+0.3+abs(rng.normal(1,0.5)) for (a,b) in vA.om1_SP]); T2=np.array([max(kinF[a],kinF[b])+0.3+abs(rng.normal(1,0.5)) for (a,b) in vA.om2_SP])
t1k={frozenset((key(vA.kinetic.states[a]),key(vA.kinetic.states[b])) for (a,b),dx in jl): x for jl,x in zip(vA.om1_jn,T1)}
t2k={frozenset((key(vA.kinetic.states[a]),key(vA.kinetic.states[b])) for (a,b),dx in jl): x for jl,x in zip(vA.om2_jn,T2)}
try:
    svB,t1B,t2B=data_for(vB,svk,t1k,t2k)
    LA=vA.Lij(bFV,bFS,bFSV,bFT0,T1,T2); LB=vB.Lij(bFV,bFS,svB,bFT0,t1B,t2B)
    for nm,a,b in zip(['L0vv','Lss','Lsv','L1vv'],LA,LB): print('C04e vacancy',nm,'|A-B| %.2e scale %.2e'%(abs(a-b).max(),abs(a).max()))
except KeyError as e: print('class structure differs between A and B', e)
# ---- C19 reduction of random supercells
def supercell_of(c, M, rng):
    Minv=np.linalg.inv(M); det=int(round(abs(np.linalg.det(M))))
    # translations inside the supercell
    T=[]
    for n in itertools.product(range(-6,7),repeat=c.dim):
        t=np.dot(Minv,n); t=t-np.floor(t+1e-9)
        if not any(np.allclose(t,t2) for t2 in T): T.append(t)
        if len(T)==det: break
    basis=[[ (np.dot(Minv,u)+t)%1.0 for t in T for u in ul] for ul in c.basis]
    basis=[[b+rng.normal(0,1e-10,c.dim) for b in rng.permutation(np.array(bl))] for bl in basis]
    return np.dot(c.lattice,M), basis
fails=0; n=0
prims=[crystal.Crystal.HCP(1.),crystal.Crystal.FCC(1.),crystal.Crystal(np.array([[1.,0.2,0.1],[0.,0.9,0.3],[0.,0.,1.2]]),[[np.zeros(3)],[np.array([0.3,0.4,0.55])]]),
       crystal.Crystal(np.array([[1/2,1/2],[-np.sqrt(3/4),np.sqrt(3/4)]]),[np.array([2/3,1/3]), np.array([1/3,2/3])]), cA]
for P in prims:
    for trial in range(12):
        while True:
            M=rng.integers(-2,3,(P.dim,P.dim)); det=int(round(np.linalg.det(M)))
            if 2<=abs(det)<=6: break
        n+=1
        try:
            latt2,basis2=supercell_of(P,M,rng)
            C=crystal.Crystal(latt2,[list(b) for b in basis2])
            ok=(np.isclose(C.volume/C.N,P.volume/P.N) and [len(b) for b in C.basis]==[len(b) for b in P.basis] and np.linalg.det(C.lattice)>0 and len(C.G)==len(P.G))
            if not ok:
                fails+=1; print('C19 MISMATCH prim N',P.N,'|G|',len(P.G),'det',det,'-> N',C.N,'|G|',len(C.G),'vol/atom',C.volume/C.N,P.volume/P.N,'M',M.tolist())
        except Exception as e:
            fails+=1; print('C19 EXC',type(e).__name__,e,'M',M.tolist(),'prim N',P.N)
print('C19 tried',n,'fails',fails)
