import numpy as np, warnings
from onsager import crystal, OnsagerCalc
rng=np.random.default_rng(11)
for name,c,cut in (('fcc',crystal.Crystal.FCC(1.),0.71),('hcp',crystal.Crystal.HCP(1.),1.01),('omega',crystal.Crystal(np.array([[1/2, 1/2,0.],[-np.sqrt(3/4), np.sqrt(3/4), 0.],[0., 0., np.sqrt(3/8)]]),[np.zeros(3), np.array([1/3,2/3,1/2]), np.array([2/3,1/3,1/2])]),0.7)):
    jn=c.jumpnetwork(0,cut); sl=c.sitelist(0); d=OnsagerCalc.VacancyMediated(c,0,sl,jn,1); nw=len(sl)
    bFV=rng.normal(0,1,nw); bFV-=bFV.min(); bFS=np.zeros(nw); bFSV=rng.normal(0,1,d.thermo.Nstars); bFT0=rng.normal(1,0.5,len(jn))+bFV.max()+0.5
    kinF=np.array([bFS[s]+bFV[v] for (s,v) in d.kineticsvWyckoff])
    for t,k in enumerate(d.thermo2kin): kinF[k]+=bFSV[t]
    T1=np.array([max(kinF[a],kinF[b])+0.3+abs(rng.normal(1,0.5)) for (a,b) in d.om1_SP]); T2=np.array([max(kinF[a],kinF[b])+0.3+abs(rng.normal(1,0.5)) for (a,b) in d.om2_SP])
    prev=None
    print(name)
    for e in (-3,0,3,6,8,10,12,14,16):
        T2r=T2-np.log(10.)*e
        with warnings.catch_warnings():
            warnings.simplefilter('ignore')
            Ld=d.Lij(bFV,bFS,bFSV,bFT0,T1,T2r)
            Ll=d.Lij(bFV,bFS,bFSV,bFT0,T1,T2r,large_om2=0)
            try: Ls=d.Lij(bFV,bFS,bFSV,bFT0,T1,T2r,large_om2=np.inf)
            except Exception as ex: Ls=None
        sc=max(abs(x).max() for x in Ld[1:])
        dls=max(abs(a-b).max() for a,b in zip(Ll[1:],Ls[1:]))/sc if Ls is not None else np.nan
        ddl=max(abs(a-b).max() for a,b in zip(Ld[1:],Ll[1:]))/sc
        fin=all(np.all(np.isfinite(x)) for x in Ld); sym=max(abs(x-x.T).max() for x in Ld)/sc
        step=(max(abs(a-b).max() for a,b in zip(Ld[1:],prev[1:]))/sc) if prev is not None else np.nan
        print('  r=1e%+03d  large-vs-std %.1e  default-vs-large %.1e  finite %s asym %.1e  step-from-prev %.1e  Lss00 %.6e'%(e,dls,ddl,fin,sym,step,Ld[1][0,0]))
        prev=Ld
