import numpy as np, itertools
from onsager import crystal, OnsagerCalc, GFcalc
rng=np.random.default_rng(5)
# ---- C10: symmetrised lattice equation on multi-Wyckoff crystals
def c10(c,chem,cut,name):
    sl=c.sitelist(chem); jn=c.jumpnetwork(chem,cut); N=len(c.basis[chem])
    inv=[0]*N
    for w,s in enumerate(sl):
        for i in s: inv[i]=w
    pre=np.exp(rng.normal(0,0.5,len(sl))); be=rng.normal(0,1.0,len(sl)); preT=np.exp(rng.normal(0,0.5,len(jn))); beT=rng.normal(1.5,0.7,len(jn))+be.max()
    G=GFcalc.GFCrystalcalc(c,chem,sl,jn,4); G.SetRates(pre,be,preT,beT)
    rho=np.array([pre[inv[i]]*np.exp(-be[inv[i]]) for i in range(N)])
    W=lambda i,k: preT[k]*np.exp(-beT[k])/rho[i]
    basis=c.basis[chem]; worst=0; sym=0; scale=0
    for t in range(12):
        i=rng.integers(N); j=rng.integers(N); R=rng.integers(-2,3,c.dim) if t>2 else np.zeros(c.dim,dtype=int)
        if t<=2: j=i
        x=np.dot(c.lattice,R+basis[j]-basis[i])
        s=0.; esc=0.
        for k,jl in enumerate(jn):
            for (a,b),dx in jl:
                if a==j:
                    wsym=np.sqrt(W(a,k)*W(b,k))   # symmetrised rate
                    s+=wsym*G(i,b,x+dx); esc+=W(a,k)
        gij=G(i,j,x)
        lhs=s-esc*gij
        delta=1. if (i==j and np.all(R==0)) else 0.
        worst=max(worst,abs(lhs-delta)); scale=max(scale,abs(esc*gij))
        sym=max(sym,abs(gij-G(j,i,-x)))
    print('C10',name,'max residual %.2e (scale %.2e) swap-sym %.2e'%(worst,scale,sym))
c10(crystal.Crystal.HCP(1.),0,1.01,'hcp')
c10(crystal.Crystal(np.array([[1/2, 1/2,0.],[-np.sqrt(3/4), np.sqrt(3/4), 0.],[0., 0., np.sqrt(3/8)]]),[np.zeros(3), np.array([1/3,2/3,0.55]), np.array([2/3,1/3,0.45])]),0,0.7,'romega')
c10(crystal.Crystal(np.array([[1.,0.],[0.,1.2]]),[np.zeros(2), np.array([0.5,0.42])]),0,1.01,'rect2-2D')
# ---- C05 monotonicity on FCC/HCP random
def c05(c,cut,name,ntr=12):
    jn=c.jumpnetwork(0,cut); sl=c.sitelist(0); d=OnsagerCalc.VacancyMediated(c,0,sl,jn,1)
    worst=0; big=0
    for t in range(ntr):
        nw=len(sl)
        bFV=rng.normal(0,1,nw); bFV-=bFV.min(); bFS=np.zeros(nw); bFSV=rng.normal(0,1,d.thermo.Nstars)
        bFT0=rng.normal(1,0.7,len(jn))+bFV.max()+0.5
        kinF=np.array([bFS[s]+bFV[v] for (s,v) in d.kineticsvWyckoff])
        for tt,k in enumerate(d.thermo2kin): kinF[k]+=bFSV[tt]
        bFT1=np.array([max(kinF[a],kinF[b])+abs(rng.normal(1,0.7))+0.2 for (a,b) in d.om1_SP])
        bFT2=np.array([max(kinF[a],kinF[b])+abs(rng.normal(1,0.7))+0.2+(-20 if t%3==0 else 0) for (a,b) in d.om2_SP])
        L=d.Lij(bFV,bFS,bFSV,bFT0,bFT1,bFT2)
        which=rng.integers(3); arrs=[bFT0.copy(),bFT1.copy(),bFT2.copy()]
        k=rng.integers(len(arrs[which])); arrs[which][k]-=rng.uniform(0.05,3)
        L2=d.Lij(bFV,bFS,bFSV,*arrs)
        for a,b in ((L[0],L2[0]),(L[1],L2[1])):
            ev=np.linalg.eigvalsh(b-a); worst=min(worst,ev.min()/np.abs(a).max()); big=max(big,ev.max()/np.abs(a).max())
    print('C05',name,'min rel eig of (L\'-L): %.2e  max %.2e'%(worst,big))
c05(crystal.Crystal.FCC(1.),0.71,'fcc'); c05(crystal.Crystal.HCP(1.),1.01,'hcp',6)
# ---- C12 sum rule
c=crystal.Crystal.BCC(1.).addbasis([np.array([0.5,0.,0.]),np.array([0.,0.5,0.]),np.array([0.,0.,0.5]),np.array([0.5,0.25,0.]),np.array([0.5,0.75,0.]),np.array([0.,0.5,0.25]),np.array([0.,0.5,0.75]),np.array([0.25,0.,0.5]),np.array([0.75,0.,0.5])])
chem=1; sl=c.sitelist(chem); jn=c.jumpnetwork(chem,0.36); diff=OnsagerCalc.Interstitial(c,chem,sl,jn)
print('C12 crystal: sites',sl,'jn',[len(j) for j in jn],'N',diff.N)
pre=np.exp(rng.normal(0,0.5,len(sl))); be=rng.normal(0,1,len(sl)); preT=np.ones(len(jn)); beT=rng.normal(2,0.5,len(jn))+be.max()
dip=[rng.normal(0,1,(3,3)) for s in sl]
lam=diff.losstensors(pre,be,dip,preT,beT)
P=diff.siteDipoles(dip); rho=diff.siteprob(pre,be)
cov=sum(r*np.einsum('ab,cd->abcd',p,p) for r,p in zip(rho,P)); m=sum(r*p for r,p in zip(rho,P)); cov-=np.einsum('ab,cd->abcd',m,m)
S=sum(L for l,L in lam)
print('C12 modes',len(lam),'rates',np.round([l for l,L in lam],4),'sum-rule residual %.2e scale %.2e'%(abs(S-cov).max(),abs(cov).max()))
# ---- C22 odd mesh exactness
for c,nm in ((crystal.Crystal.HCP(1.),'hcp'),(crystal.Crystal.FCC(1.),'fcc'),(crystal.Crystal(np.array([[1/2,1/2],[-np.sqrt(3/4),np.sqrt(3/4)]]),[np.zeros(2)]),'tria2d')):
    for mesh in ([3]*c.dim,[4]*c.dim,[5,3,4][:c.dim]):
        kf=c.fullkptmesh(mesh); kr,w=c.reducekptmesh(kf)
        x=np.dot(c.lattice,rng.integers(-2,3,c.dim))
        f=lambda k: sum(np.exp(1j*np.dot(k,np.dot(g.cartrot,x))) for g in c.G)
        full=np.mean([f(k) for k in kf]); red=sum(wi*f(k) for wi,k in zip(w,kr))
        inbz=all(np.dot(k,k)<=np.dot(k-G2,k-G2)+1e-9 for k in kf for G2 in [np.dot(c.reciplatt,n) for n in itertools.product(range(-2,3),repeat=c.dim)])
        print('C22',nm,mesh,'Nfull',len(kf),'Nred',len(kr),'sumw %.12f'%w.sum(),'|full-red| %.1e'%abs(full-red),'inBZ',inbz)
