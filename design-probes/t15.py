import numpy as np, sys
from onsager import crystal, OnsagerCalc
name=sys.argv[1]; seed=int(sys.argv[2])
a0,ca=1.,np.sqrt(3/8)
latt=a0*np.array([[1/2, 1/2,0.],[-np.sqrt(3/4), np.sqrt(3/4), 0.],[0., 0., ca]])
if name=='romega': c=crystal.Crystal(latt,[np.zeros(3), np.array([1/3,2/3,0.55]), np.array([2/3,1/3,0.45])]); cut=0.7
if name=='omega': c=crystal.Crystal(latt,[np.zeros(3), np.array([1/3,2/3,0.5]), np.array([2/3,1/3,0.5])]); cut=0.7
if name=='b2': c=crystal.Crystal(np.eye(3), [np.zeros(3), np.array([0.45, 0.45, 0.45])]); cut=0.99
if name=='rect2': c=crystal.Crystal(np.array([[1.,0.],[0.,1.2]]),[np.zeros(2), np.array([0.5,0.42])]); cut=1.01
chem=0; jn=c.jumpnetwork(chem,cut); sl=c.sitelist(chem)
rng=np.random.default_rng(seed)
d1=OnsagerCalc.VacancyMediated(c,chem,sl,jn,1); d2=OnsagerCalc.VacancyMediated(c,chem,sl,jn,2)
# tag data for every class of d1
tagdata={}
for typ in ('vacancy','solute'):
    for tl in d1.tags[typ]: tagdata[tl[0]]=(1.,0.)
for tl in d1.tags['solute-vacancy']: tagdata[tl[rng.integers(len(tl))]]=(1.,rng.normal(0,1))
for tl in d1.tags['omega0']: tagdata[tl[0]]=(1.,1.5)
td1=d1.tags2preene(tagdata)
# explicit omega1/omega2 data for all d1 classes: LIMB + noise
for typ,pn,en in (('omega1','preT1','eneT1'),('omega2','preT2','eneT2')):
    for k,tl in enumerate(d1.tags[typ]): tagdata[tl[rng.integers(len(tl))]]=(1.,td1[en][k]+(rng.normal(0,0.5) if '--limb' not in sys.argv else 0.))
td1=d1.tags2preene(tagdata); td2=d2.tags2preene(tagdata)
L1=d1.Lij(*d1.preene2betafree(1.,**td1)); L2=d2.Lij(*d2.preene2betafree(1.,**td2))
print(name,'OS',len(d1.OSindices),'VB',[c.VectorBasis((chem,s[0]))[0] for s in sl])
for nm,a,b in zip(['L0vv','Lss','Lsv','L1vv'],L1,L2): print('  %-5s Nth1'%nm,np.round(np.diag(a),6),'Nth2',np.round(np.diag(b),6),'maxdiff %.2e'%abs(a-b).max())
