import numpy as np
from onsager import crystal
try:
    c=crystal.Crystal(np.array([[1.,0.],[0.,1.3]]),[np.array([0.2,0.0]),np.array([0.8,0.0])],NOSYM=True)
    g=next(iter(c.G)); print('2D NOSYM: |G|',len(c.G),'rot shape',g.rot.shape,'pointG',[len(p) for p in c.pointG[0]],'Wyckoff',c.Wyckoff)
    print(' sitelist',c.sitelist(0)); print(' jumpnetwork',len(c.jumpnetwork(0,1.01)))
except Exception as e: print('2D NOSYM raised',type(e).__name__,e)
# cart2unit truncation
c=crystal.Crystal.HCP(1.)
bad=0; n=0; ex=None
rng=np.random.default_rng(0)
for t in range(20000):
    R=rng.integers(-6,7,3); ind=c.atomindices[rng.integers(c.N)]
    x=c.pos2cart(R,ind)
    R2,ind2=c.cart2pos(x)
    n+=1
    if ind2!=ind or not np.all(R2==R):
        bad+=1; ex=(R,ind,R2,ind2)
print('HCP cart2pos(pos2cart) roundtrip failures',bad,'of',n,ex)
c2=crystal.Crystal(np.array([[1.,0.3,0.1],[0.,0.9,0.2],[0.,0.,1.1]]),[np.zeros(3),np.array([1/3,2/3,0.5])])
bad=0; ex=None
for t in range(20000):
    R=rng.integers(-6,7,3); ind=c2.atomindices[rng.integers(c2.N)]
    x=c2.pos2cart(R,ind); R2,ind2=c2.cart2pos(x)
    if ind2!=ind or not np.all(R2==R): bad+=1; ex=(R,ind,R2,ind2)
print('triclinic cart2pos roundtrip failures',bad,ex)
