# Nthermo independence (C07-type) for L1vv: mode S data (no binding), Nthermo=1 vs 2
import numpy as np, sys
from onsager import crystal, OnsagerCalc
name=sys.argv[1]; seed=int(sys.argv[2]); mode=sys.argv[3]
a0,ca=1.,np.sqrt(3/8)
if name=='omega': c=crystal.Crystal(a0*np.array([[1/2, 1/2,0.],[-np.sqrt(3/4), np.sqrt(3/4), 0.],[0., 0., ca]]),[np.zeros(3), np.array([1/3,2/3,1/2]), np.array([2/3,1/3,1/2])]); cut=0.7
if name=='romega': c=crystal.Crystal(a0*np.array([[1/2, 1/2,0.],[-np.sqrt(3/4), np.sqrt(3/4), 0.],[0., 0., ca]]),[np.zeros(3), np.array([1/3,2/3,0.55]), np.array([2/3,1/3,0.45])]); cut=0.7
if name=='rect2': c=crystal.Crystal(np.array([[1.,0.],[0.,1.2]]),[np.zeros(2), np.array([0.5,0.42])]); cut=1.01
chem=0; jn=c.jumpnetwork(chem,cut); sl=c.sitelist(chem); nw=len(sl)
rng=np.random.default_rng(seed)
bFV=np.zeros(nw); bFS=np.zeros(nw); bFT0=np.zeros(len(jn))
if 'V' in mode: bFV=rng.normal(0,1,nw); bFV-=bFV.min()
if 'S' in mode: bFS=rng.normal(0,1,nw); bFS-=bFS.min()
if '0' in mode: bFT0=rng.normal(0,0.7,len(jn))
bFT0+=max(bFV)+1
out=[]
for Nth in (1,2):
    d=OnsagerCalc.VacancyMediated(c,chem,sl,jn,Nth)
    bFSV=np.zeros(d.thermo.Nstars)
    kinF=np.array([bFS[s] for (s,v) in d.kineticsvWyckoff])
    bFT1=np.array([bFT0[jt]+0.5*(kinF[a]+kinF[b]) for jt,(a,b) in zip(d.om1_jt,d.om1_SP)])
    bFT2=np.array([bFT0[jt]+0.5*(kinF[a]+kinF[b]) for jt,(a,b) in zip(d.om2_jt,d.om2_SP)])
    out.append(d.Lij(bFV,bFS,bFSV,bFT0,bFT1,bFT2))
print('sitelist',sl,'VB',[c.VectorBasis((chem,s[0]))[0] for s in sl],'OS',len(d.OSindices))
for nm,a,b in zip(['L0vv','Lss','Lsv','L1vv'],out[0],out[1]):
    print(nm,'Nth1',np.round(np.diag(a),7),'Nth2',np.round(np.diag(b),7),'maxdiff %.2e'%abs(a-b).max())
