#!/venv/bin/python
"""tools/seedkeep.py <Cnn> <A|B> [extra check ids...]  -- verify a seeded change from /tmp/seed/out-<Cnn>/ and keep it under /verif/seeded/"""
import json, os, re, shutil, subprocess, sys
pid, letter = sys.argv[1], sys.argv[2]
extra = sys.argv[3:]
rnd = os.environ.get("SEED_ROUND", "1")
src = ("/tmp/seed/out-%s" if rnd == "1" else "/tmp/seed/out" + rnd + "-%s") % pid
patch, demo, notes = ["%s/%s%s%s" % (src, n, letter, e) for n, e in (("patch", ".diff"), ("demo", ".py"), ("notes", ".md"))]
out = subprocess.run(["/verif/tools/seedtest.sh", pid, patch, demo] + extra, capture_output=True, text=True).stdout
print(out[-3000:])
d0 = re.search(r"demo on unchanged /repo\nexit=(\d+)", out)
d1 = re.search(r"demo on changed tree\nexit=(\d+)", out)
runs = re.findall(r"--- check (C\d+) quick seed (\d+) on changed tree\n(.*?)rc=(\d+)", out, re.S)
caught = {}
for c, seed, body, rc in runs:
    caught.setdefault(c, []).append({"seed": int(seed), "rc": int(rc), "violation": (re.search(r"detail: (.*)", body).group(1)[:300] if "VIOLATION" in body else None)})
dst = "/verif/seeded/%s-%s" % (pid, letter if rnd == "1" else ({"A": "G", "B": "H"} if rnd == "6" else {"A": "E", "B": "F"} if rnd == "5" else {"A": "C", "B": "D"})[letter])
os.makedirs(dst, exist_ok=True)
shutil.copy(patch, dst + "/patch.diff"); shutil.copy(demo, dst + "/demo.py")
if os.path.exists(notes): shutil.copy(notes, dst + "/notes.md")
meta = {"property": pid, "author": "fresh sub-agent given only the property text and a scratch worktree" + ("" if rnd == "1" else " (round %s: also given the one-line summaries of the earlier seeded changes, to avoid repeats)" % rnd),
        "demo_exit_unchanged": int(d0.group(1)) if d0 else None, "demo_exit_changed": int(d1.group(1)) if d1 else None,
        "needs_to_manifest": "see notes.md",
        "ran": "tools/seedtest.sh %s patch.diff demo.py %s (scratch worktree of /repo HEAD + patch, ONSAGER_REPO=<worktree> ./check <id> --tier quick, seeds 1..3 until caught)" % (pid, " ".join(extra)),
        "checks": caught,
        "caught_by": sorted(c for c, rs in caught.items() if any(r["rc"] == 1 for r in rs)),
        "harness_errors": sorted(c for c, rs in caught.items() if any(r["rc"] == 2 for r in rs))}
json.dump(meta, open(dst + "/meta.json", "w"), indent=1)
print("KEPT" if meta["demo_exit_unchanged"] == 0 and meta["demo_exit_changed"] == 1 else "DEMO-NOT-CONFIRMED", dst, "caught_by", meta["caught_by"], "harness", meta["harness_errors"])
