#!/bin/bash
# tools/allquick.sh "<seeds>" [ids...]: quick tier of the given checks (default all) at the given seeds on /repo; prints one line per run
seeds=${1:-1}; shift
ids=${@:-C01 C02 C03 C04 C05 C06 C07 C08 C09 C10 C11 C12 C13 C14 C15 C16 C17 C18 C19 C20 C21 C22 C23 C24 C25 C26 C27 C28 C29 C30 C31 C32 C33 C34 C35 C36}
cd /verif
for s in $seeds; do for c in $ids; do
  out=$(VERIF_SEED=$s ./check $c --tier quick 2>&1); rc=$?
  echo "seed=$s $c rc=$rc $(echo "$out" | grep "quick seed" | tail -1)"
  [ $rc != 0 ] && echo "$out" | grep -A1 "VIOLATION\|HARNESS" | cut -c1-300 | head -6
done; done
