#!/bin/bash
# usage: tools/seedtest.sh <property id> <patch.diff> <demo.py> [extra check ids...]
# Applies a seeded change to a scratch worktree of /repo (never to /repo itself: background sweeps read /repo), confirms the
# demonstration fails with the change and passes without, and runs the registered check(s) against the changed tree.
pid=$1; patch=$(readlink -f $2); demo=$(readlink -f $3); shift 3
wt=/tmp/seedtest-$pid-$$
git -C /repo worktree add -q $wt HEAD || exit 2
if ! git -C $wt apply $patch; then echo "PATCH-DOES-NOT-APPLY"; git -C /repo worktree remove --force $wt; exit 2; fi
cd /verif
echo "--- demo on unchanged /repo"; PYTHONPATH=/repo PYTHONHASHSEED=0 timeout 1200 /venv/bin/python -W ignore $demo > /tmp/seedtest-demo0-$$.log 2>&1; echo "exit=$?"; tail -2 /tmp/seedtest-demo0-$$.log
echo "--- demo on changed tree"; PYTHONPATH=$wt PYTHONHASHSEED=0 timeout 1200 /venv/bin/python -W ignore $demo > /tmp/seedtest-demo1-$$.log 2>&1; echo "exit=$?"; tail -3 /tmp/seedtest-demo1-$$.log
for c in $pid "$@"; do
  for seed in 1 2 3; do
    echo "--- check $c quick seed $seed on changed tree"
    ONSAGER_REPO=$wt VERIF_SEED=$seed ./check $c --tier quick 2>&1 | grep -v "^  File\|^    \|^Traceback\|^KNOWN" | cut -c1-400 | tail -3
    rc=${PIPESTATUS[0]}
    echo "rc=$rc"
    [ "$rc" != "0" ] && break
  done
done
rm -f /tmp/seedtest-demo0-$$.log /tmp/seedtest-demo1-$$.log
git -C /repo worktree remove --force $wt
