#!/venv/bin/python
"""Regenerates section 9 of DESIGN.md (catch matrix of the seeded changes) from seeded/*/meta.json"""
import glob, json, os, re
rows = []
for d in sorted(glob.glob('/verif/seeded/*/')):
    m = json.load(open(d + 'meta.json'))
    name = os.path.basename(d.rstrip('/'))
    notes = open(d + 'notes.md').read() if os.path.exists(d + 'notes.md') else ''
    patch = open(d + 'patch.diff').read()
    files = sorted(set(re.findall(r'^\+\+\+ b/(\S+)', patch, re.M)))
    first = m.get('summary') or ''
    seeds = {c: [r['seed'] for r in rs if r['rc'] == 1][:1] for c, rs in m['checks'].items()}
    rows.append((name, m['property'], ', '.join(files), first, ', '.join('%s (seed %s)' % (c, seeds[c][0]) for c in m['caught_by']) or 'MISSED', m.get('strengthened', '')))
out = ['## 9. Seeded changes written from the property text alone, and which checks catch them', '',
       'Each change was written by a fresh sub-agent that saw only the text of one property and a scratch worktree of /repo (nothing from /verif).',
       'Ids ending in -C/-D (rounds 2-4), -E/-F (round 5) and -G/-H (round 6) come from later rounds: those sub-agents were additionally given the one-line summaries of all earlier changes (to avoid repeats), still nothing from /verif.',
       'Kept only after I confirmed in a scratch worktree that the change applies to HEAD, that its demonstration exits 1 with the change and 0 without, and',
       '(from the author\'s log) that the 291 baseline tests still pass.  `seeded/<id>/` holds patch.diff, demo.py, notes.md (what it needs to manifest)',
       'and meta.json (what was run, per-seed outcomes).  Quick tier, seeds 1..3 until caught; the column "generator change" names what had to be',
       'strengthened before the check caught it (the check was re-run on the unchanged tree afterwards).', '',
       '| id | property | file | what it is | caught by (quick tier) | generator change needed |', '|---|---|---|---|---|---|']
for r in rows:
    out.append('| %s | %s | %s | %s | %s | %s |' % r)
txt = '\n'.join(out) + '\n'
p = '/verif/DESIGN.md'
s = open(p).read()
if '## 9. Seeded changes' in s:
    s = s[:s.index('## 9. Seeded changes')].rstrip() + '\n\n'
else:
    s = s.rstrip() + '\n\n---------------------------------------------------------------------------------------------------\n\n'
open(p, 'w').write(s + txt)
print(len(rows), 'rows')
